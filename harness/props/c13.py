"""C13 — sliding-window sequence functions are row-local and match their definitions."""
import itertools
import math
import struct
import logging
import numpy as np
from .. import core

logging.disable(logging.CRITICAL)      # the package logs an ERROR before re-raising EncodingError for non-DNA text
from ..core import SKIP

ID = "C13"
RULE = ("exhaustive row CONTENTS (every letter assignment) x every w 1..5, total >= w -- thorough: 2 letters: all lists of "
        "<= 3 rows of length <= 4; 3 letters: <= 2 rows of length <= 3 and 3 rows of length <= 2; 4 letters (bit-packed path): 1 row of "
        "length <= 5, 2 rows of length <= 3, 3 rows of length <= 2, plus 30k sampled 2-/3-row lists of length <= 4 over 3 and 4 letters; quick: 2 letters <= 2 "
        "rows of length <= 3 and 3 rows of length <= 2, 3 and 4 letters 2 rows of length <= 2 (k-mers with k = w observe the mechanism "
        "injectively; all functions on the 1- and 2-row lists). Then: ragged lists of 1..N sequences of length 0..M (empty rows, rows of length w-1, w, w+1, short last row) x window/k "
        "1..31 x alphabets of size 4 (bit-packed path: ACGT, ACTG) and other sizes (generic path: AB, ABC, ACGTN, amino acids): "
        "exhaustive row-length vectors (N <= 3, M <= 4, k <= 4; letters random) for get_kmers / match_string / "
        "get_motif_scores / count_kmers / get_minimizers (window >= k), plus flat (1-D) input and ASCII input; random "
        "beyond (k up to 31, rows up to 40 letters); KmerEncoding.encode/to_string on explicit k-mers. Cases whose total "
        "length is below the window are outside the domain. Non-trivial = some row length in {0, w-1, w, w+1}, or w = 1, "
        "or >= 2 rows. Also: regex matchers (Masked/FixedLen/RegexMatcher: random patterns of letters, classes, dots and gaps, half of "
        "them made to occur, also across a row border), get_motif_scores_old / PositionWeightMatrix.rolling_window, PWMs built by "
        "from_dict / from_counts, sequences encoded over an alphabet that extends / differs from the PWM's, KmerEncoder.inverse, "
        "count_kmers of the parts of a split collection added up, rolling_window(mode='same'), fresh views as inputs, >= 17 rows, "
        "codes >= 2^53, call sequences whose results are read after the last call")
EXHAUSTIVE = {"quick": False, "thorough": False}
MODEL_OPS = {"kmers", "minimizers", "match", "match_same", "pwm", "pwm_old", "count", "count_add", "kenc", "regex", "fixedregex"}
PARALLEL = 16
ASSUMPTIONS = [
    "npstructures: RaggedArray(flat, lengths, safe_mode=False)[..., :e] addresses row i as flat[start_i : start_i + len(row_i[:e])] "
    "with the declared lengths; np.lib.stride_tricks.sliding_window_view / as_strided give the flat windows in order",
    "BitArray.pack(bit_stride=2).sliding_window(k) (4-letter alphabets) is modelled word by word from the npstructures source "
    "(uint64 shifts with shift >= 64 giving 0) and proved equal to the base-4 number of the window; exercised for every k 1..31",
    "int64 arithmetic is modelled exactly with two's-complement wrap for the hash; cases with |A|^k > 2^63 are run on the "
    "implementation against the exact oracle only (not sent to the Lean model)",
    "PWM scores: the model and the oracle add in the code's offset order, so results are bit-identical; the comparison still "
    "tolerates 1e-12 relative error (IEEE rounding is outside the proof)",
    "domain: total number of letters >= window; 1 <= k <= 31; count_kmers only where the code supports it (|A|^k <= 4096)",
]
TRUSTED_EXTRA = ["Lean runtime Float (IEEE double add) in the driver for PWM score correspondence"]

MANIFEST = {
    "text": "Lean 4 theorems for all ragged inputs, all windows w >= 1 and any window function: flatten -> flat windows -> re-wrap "
            "with the original (declared) row lengths -> Python slice [..., :(-w+1) or None] equals the per-row windows "
            "(rolling_rowlocal; also with trailing partial results, as PWM scoring produces). Instances: k-mers (dot with "
            "|A|^arange(k) = little-endian base-|A| number; digits render back to the window under |A|^k <= 2^63), minimizers "
            "(two nested applications), string matching, PWM shifted accumulation = per-window sum in offset order over any "
            "additive structure, rolling_window(mode='same') (values of the fitting windows then zeros, whatever the out-of-buffer "
            "trailing windows return; observed through StringMatcher.rolling_window), k-mer counts as the caller reads them (label -> number of windows spelling it). The 2-bit packed path "
            "(BitArray.pack / sliding_window on uint64 registers: shifts, or, mask) is modelled literally and PROVED equal to the "
            "generic base-4 hash for every k <= 31 (packedKmers_eq, packed_eq_generic, kmers_dispatch). Regex matchers: class expansion "
            "into masked exact matchers is sound (expandClasses_sound) and RegexMatcher marks a position iff an expansion fits in the "
            "row and matches (regex_rowlocal; the shipped code leaked into the next row: regexOld_leaks). Chunk/order independence "
            "(rolling_chunks, rolling_order, count_chunks), completeness (minimizers_isSome_iff), positional notation (hashLE_eq_sum, hashLE_inj). The refutation of the shipped slice [..., :(-w+1)] at w = 1 is kept. "
            "Correspondence: implementation vs Lean model vs Lean spec vs Python oracle.",
    "note": "IEEE rounding of PWM scores is not modelled (same summation order => bit-identical in practice; compared with a "
            "tolerance). The 2-bit packed k-mer path (npstructures BitArray, outside /repo) is modelled from its source and proved equal to the generic hash; that the installed BitArray behaves as modelled is exercised by the correspondence (register borders at 32/64/96 letters, every k 1..31). int64 wrap for "
            "|A|^k > 2^63 (ACGTN k >= 28, amino acids k >= 15) is a known finding.",
    "technique": "Lean 4 proofs by induction over ragged lists (core only) + differential correspondence with the implementation",
    "design": "§6 C13",
}

ALPHABETS = {"ACGT": "ACGT", "ACTG": "ACTG", "ACGTN": "ACGTN", "AB": "AB", "ABC": "ABC",
             "AMINO": "ACDEFGHIKLMNPQRSTVWY*"}


def _enc(alpha):
    from bionumpy.encodings.alphabet_encoding import AlphabetEncoding, ACGTEncoding, ACGTnEncoding, AminoAcidEncoding
    return {"ACGT": ACGTEncoding, "ACGTN": ACGTnEncoding, "ACDEFGHIKLMNPQRSTVWY*": AminoAcidEncoding}.get(alpha) or AlphabetEncoding(alpha)


def _texts(alpha, rows):
    return ["".join(alpha[c] for c in r) for r in rows]


def _bits(x):
    return struct.unpack("<Q", struct.pack("<d", float(x)))[0]


def _unbits(b):
    return struct.unpack("<d", struct.pack("<Q", b))[0]


def _apply_view(base, v):
    """a FRESH, not yet materialised view of `base` selecting exactly the case's rows"""
    k = v["kind"]
    if k == "idx":
        return base[list(v["idx"])]
    if k == "idxarr":
        return base[np.array(v["idx"], dtype=int)]
    if k == "slice":
        return base[v["a"]:v["b"]]
    if k == "step":
        return base[v["a"]::v["step"]]
    if k == "mask":
        return base[np.array(v["mask"], dtype=bool)]
    if k == "rev":
        return base[::-1]
    if k == "cols":
        return base[:, v["a"]:]
    if k == "colsneg":
        return base[:, :-v["b"]]
    raise ValueError(k)


def _select(base_rows, v):
    """pure-Python meaning of the selection (used to build cases; asserted equal to c["rows"])"""
    k = v["kind"]
    if k in ("idx", "idxarr"):
        return [base_rows[i] for i in v["idx"]]
    if k == "slice":
        return base_rows[v["a"]:v["b"]]
    if k == "step":
        return base_rows[v["a"]::v["step"]]
    if k == "mask":
        return [r for r, m in zip(base_rows, v["mask"]) if m]
    if k == "rev":
        return base_rows[::-1]
    if k == "cols":
        return [r[v["a"]:] for r in base_rows]
    if k == "colsneg":
        return [r[:-v["b"]] for r in base_rows]
    raise ValueError(k)


def _with_view(rng, c):
    """the same case with its rows handed over as a fresh view of a larger / permuted ragged array"""
    rows = c["rows"]
    n = len(c["alpha"])
    decoy = lambda: [rng.randrange(n) for _ in range(rng.choice([0, 1, 2, 3, 5, 8]))]
    kind = rng.choice(["idx", "idxarr", "slice", "mask", "rev", "cols", "colsneg", "step"])
    if kind in ("idx", "idxarr"):
        base = [list(r) for r in rows] + [decoy() for _ in range(rng.choice([0, 1, 2]))]
        order = list(range(len(base)))
        rng.shuffle(order)
        base2 = [base[i] for i in order]
        v = {"kind": kind, "idx": [order.index(i) for i in range(len(rows))]}
        base = base2
    elif kind == "slice":
        pre = [decoy() for _ in range(rng.choice([0, 1, 2]))]
        post = [decoy() for _ in range(rng.choice([0, 1, 2]))]
        base = pre + [list(r) for r in rows] + post
        v = {"kind": "slice", "a": len(pre), "b": len(pre) + len(rows)}
    elif kind == "step":
        base = []
        for r in rows:
            base += [list(r), decoy()]
        pre = [decoy() for _ in range(rng.choice([0, 1]))]
        base = pre + base
        v = {"kind": "step", "a": len(pre), "step": 2}
    elif kind == "mask":
        base, mask = [], []
        for r in rows:
            for _ in range(rng.choice([0, 0, 1, 2])):
                base.append(decoy()); mask.append(False)
            base.append(list(r)); mask.append(True)
        for _ in range(rng.choice([0, 1])):
            base.append(decoy()); mask.append(False)
        v = {"kind": "mask", "mask": mask}
    elif kind == "rev":
        base = [list(r) for r in rows][::-1]
        v = {"kind": "rev"}
    elif kind == "cols":
        a = rng.choice([1, 2])
        base = [[rng.randrange(n) for _ in range(a)] + list(r) for r in rows]
        v = {"kind": "cols", "a": a}
    else:
        b = rng.choice([1, 2])
        base = [list(r) + [rng.randrange(n) for _ in range(b)] for r in rows]
        v = {"kind": "colsneg", "b": b}
    assert _select(base, v) == [list(r) for r in rows], (base, v, rows)
    out = dict(c)
    out["view"] = dict(v, base=base)
    out.pop("via", None)
    out.pop("shape", None)
    return out


def _input(c, ascii_ok=False):
    from bionumpy.encoded_array import as_encoded_array
    alpha = c["alpha"]
    if "view" in c:
        base = as_encoded_array(_texts(alpha, c["view"]["base"]), _enc(alpha))
        return _apply_view(base, c["view"])
    texts = _texts(alpha, c["rows"])
    via = c.get("via", "enc")
    if c.get("shape") == "flat":
        return texts[0] if via == "ascii" and ascii_ok else as_encoded_array(texts[0], None if via == "ascii" else _enc(alpha))
    if via == "ascii":
        return texts if ascii_ok else as_encoded_array(texts)
    return as_encoded_array(texts, _enc(alpha))


def _pattern_text(alpha, items):
    out = []
    for it in items:
        if it[0] == 0:
            out.append(".")
        elif it[0] == 1:
            out.append(alpha[it[1]] if len(it) == 2 else "[" + "".join(alpha[x] for x in it[1:]) + "]")
        else:
            out.append(".{%s,%d}" % ("" if (it[1] == 0 and it[2] % 2 == 1) else it[1], it[2]))
    return "".join(out)


def _ragged_out(r, flat, conv=int):
    if flat:
        return [[conv(x) for x in np.asarray(r).ravel()]]
    return [[conv(x) for x in np.asarray(row).ravel()] for row in r]


def _read_labels(c):
    """the k-mers looked up: all of them while there are few, else first, last and an even sample"""
    alpha, k = c["alpha"], c["k"]
    n = len(alpha)
    tot = n ** k
    hs = range(tot) if tot <= 64 else sorted({0, 1, tot - 1, tot - 2} | set(range(0, tot, max(1, tot // 24))))
    return ["".join(alpha[(h // n ** j) % n] for j in range(k)) for h in hs]


def _call(c):
    """run the real function; return (live result object, canon_fn) -- canon_fn re-reads the live object"""
    from bionumpy.sequence import get_kmers, get_minimizers, match_string, get_motif_scores, count_kmers
    op = c["op"]
    flat = c.get("shape") == "flat"
    if op == "kmers":
        km = get_kmers(_input(c), c["k"])

        def canon_kmers(o):
            rows = _ragged_out(o.raw(), flat)
            if c.get("text", True) is False:
                return {"rows": rows}
            return {"rows": rows, "text": [[o.encoding.to_string(np.int64(h)) for h in row] for row in rows]}
        return km, canon_kmers
    if op == "minimizers":
        r = get_minimizers(_input(c), c["k"], c["w"])
        return r, (lambda o: {"rows": _ragged_out(o.raw(), flat)})
    if op == "match":
        from bionumpy.encoded_array import as_encoded_array
        alpha = c["alpha"]
        pat = "".join(alpha[x] for x in c["pat"])
        seq = _input(c, ascii_ok=True)
        r = match_string(seq, pat if c.get("via") == "ascii" else as_encoded_array(pat, _enc(alpha)))
        return r, (lambda o: {"rows": _ragged_out(o, flat, bool)})
    if op == "match_same":
        # RollableFunction.rolling_window(mode="same") through the public StringMatcher class
        from bionumpy.encoded_array import as_encoded_array
        from bionumpy.sequence.string_matcher import StringMatcher
        alpha = c["alpha"]
        enc = _enc(alpha)
        pat = as_encoded_array("".join(alpha[x] for x in c["pat"]), enc)
        if c.get("ws"):       # window size handed over explicitly
            r = StringMatcher(pat, enc).rolling_window(_input(c), window_size=len(c["pat"]), mode="same")
        else:
            r = StringMatcher(pat, enc).rolling_window(_input(c), mode="same")
        return r, (lambda o: {"rows": _ragged_out(o, flat, bool)})
    if op in ("regex", "fixedregex"):
        from bionumpy.sequence.string_matcher import RegexMatcher, FixedLenRegexMatcher
        alpha = c["alpha"]
        cls = RegexMatcher if op == "regex" else FixedLenRegexMatcher
        r = cls(_pattern_text(alpha, c["items"]), encoding=_enc(alpha)).rolling_window(_input(c))
        return r, (lambda o: {"rows": _ragged_out(o, flat, bool)})
    if op == "pwm_old":
        from bionumpy.sequence.position_weight_matrix import PWM, get_motif_scores_old, PositionWeightMatrix
        alpha = c["alpha"]
        m = np.array([[_unbits(b) for b in row] for row in c["matrix"]], dtype=float).T
        if c.get("entry") == "class":
            r = PositionWeightMatrix(PWM(m, alpha)).rolling_window(_input(c))
        else:
            r = get_motif_scores_old(_input(c, ascii_ok=True), PWM(m, alpha))
        return r, (lambda o: {"rows": _ragged_out(o, flat, _bits)})
    if op == "count_add":
        from bionumpy.encoded_array import as_encoded_array
        alpha = c["alpha"]
        parts = [count_kmers(as_encoded_array(_texts(alpha, rows), _enc(alpha)), c["k"]) for rows in c["parts"]]
        how = c.get("how", "add")
        if how == "sum":
            tot = sum(parts)
        elif how == "radd":
            tot = 0 + parts[0]
            for x in parts[1:]:
                tot = tot + x
        else:
            tot = parts[0]
            for x in parts[1:]:
                tot = tot + x
        return tot, (lambda o: {"counts": [int(x) for x in np.asarray(o.counts)],
                                "by_label": [int(o[lab]) for lab in o.labels[:8]] == [int(x) for x in np.asarray(o.counts)[:8]],
                                "dict_ok": [int(np.asarray(v)) for v in o.as_dict().values()] == [int(x) for x in np.asarray(o.counts)]})
    if op == "pwm":
        from bionumpy.sequence.position_weight_matrix import PWM
        alpha = c["alpha"]
        korder = c.get("key_order", list(range(len(alpha))))      # the order in which the caller happens to write the dict keys
        if c.get("build") == "dict":
            d = {alpha[j]: [_unbits(row[j]) for row in c["probs"]] for j in korder}
            bg = None
            if c.get("bg") is not None:
                bg = {alpha[j]: _unbits(c["bg"][j]) for j in c.get("bg_order", list(range(len(alpha))))}
                for extra in c.get("bg_extra", []):
                    bg[extra] = 0.5
                if c.get("bg_extra_first"):
                    bg = dict(list(bg.items())[::-1])
            pwm = PWM.from_dict(d, bg)
        elif c.get("build") == "counts":
            pwm = PWM.from_counts({alpha[j]: [row[j] for row in c["counts"]] for j in korder})
        else:
            m = np.array([[_unbits(b) for b in row] for row in c["matrix"]], dtype=float).T   # (letters, w)
            pwm = PWM(m, alpha)
        if pwm.alphabet != "".join(alpha[j] for j in korder):
            raise AssertionError("alphabet")
        if "seq_alpha" in c:
            from bionumpy.encoded_array import as_encoded_array
            seqs = as_encoded_array(_texts(c["seq_alpha"], c["rows"]), _enc(c["seq_alpha"]))
            r = get_motif_scores(seqs, pwm)
        else:
            r = get_motif_scores(_input(c, ascii_ok=True), pwm)
        return r, (lambda o: {"rows": _ragged_out(o, flat, _bits)})
    if op == "count":
        r = count_kmers(_input(c), c["k"], axis=c["axis"])
        nrows = len(c["rows"])

        def canon_count(o):
            cnt = np.asarray(o.counts)
            lab = list(o.alphabet)
            if c["axis"] is None:
                return {"counts": [int(x) for x in cnt], "labels": lab}
            return {"counts": [[int(x) for x in row] for row in cnt.reshape(nrows, -1)], "labels": lab}
        return r, canon_count
    if op == "count_read":
        # the two-step use of the result: count, THEN read it the way callers do -- look a k-mer up by its label
        # (result[label]), as_dict(); for per-sequence counting (axis=-1) every answer is one number PER SEQUENCE
        r = count_kmers(_input(c), c["k"], axis=c["axis"])
        nrows = len(c["rows"])
        labs = _read_labels(c)

        def val(v):
            a = np.asarray(v)
            if c["axis"] is None:
                return int(a) if a.ndim == 0 else {"shape": list(a.shape)}
            return [int(x) for x in a] if a.shape == (nrows,) else {"shape": list(a.shape)}

        def canon_read(o):
            out = {"by_label": {}, "as_dict": {}}
            d = o.as_dict()
            for lab in labs:
                try:
                    out["by_label"][lab] = val(o[lab])
                except Exception as e:
                    out["by_label"][lab] = "raises:" + type(e).__name__
                out["as_dict"][lab] = val(d[lab]) if lab in d else "missing"
            out["n_labels"] = len(d)
            return out
        return r, canon_read
    if op == "count_big":
        # long inputs described compactly: row j = its unit repeated and cut to lens[j]
        from bionumpy.encoded_array import EncodedArray, EncodedRaggedArray
        alpha = c["alpha"]
        lens = _big_lens(c)
        units = c["units"]
        flat_ = np.concatenate([np.resize(np.array(units[j % len(units)], dtype=np.uint8), L) if L else np.zeros(0, dtype=np.uint8)
                                for j, L in enumerate(lens)]) if lens else np.zeros(0, dtype=np.uint8)
        seqs = EncodedRaggedArray(EncodedArray(flat_, _enc(alpha)), np.array(lens, dtype=int))
        r = count_kmers(seqs, c["k"], axis=c["axis"])
        if c["axis"] is None:
            return r, (lambda o: {"counts": [int(x) for x in np.asarray(o.counts)]})
        return r, (lambda o: {"counts": [[int(x) for x in row] for row in np.asarray(o.counts).reshape(len(lens), -1)]})
    if op == "count_weighted":
        from bionumpy.sequence import count_encoded
        alpha = c["alpha"]
        km = get_kmers(_input(c), c["k"])
        w = np.array(c["weights"], dtype=float)
        r = count_encoded(km.ravel() if c.get("ravel") else km, weights=w, axis=(-1 if w.ndim == 2 else None))
        return r, (lambda o: {"counts": np.asarray(o.counts, dtype=float).tolist()})
    if op == "kenc":
        from bionumpy.encodings.kmer_encodings import KmerEncoding
        alpha = c["alpha"]
        ke = KmerEncoding(_enc(alpha), c["k"])
        texts = _texts(alpha, c["kmers"])
        h = ke.encode(texts if len(texts) != 1 or c.get("as_list") else texts[0])

        def canon_kenc(o):
            from bionumpy.sequence.kmers import KmerEncoder
            hs = [int(x) for x in np.asarray(o.raw()).ravel()]
            inv = KmerEncoder(c["k"], _enc(alpha)).inverse(np.asarray(hs, dtype=np.int64)) if hs else []
            return {"codes": hs, "text": ke.to_string(np.asarray(hs, dtype=np.int64)).split(",") if hs else [],
                    "inverse": [[int(x) for x in np.asarray(row.raw()).ravel()] for row in inv]}
        return h, canon_kenc
    raise ValueError(op)


def _big_lens(c):
    return [L for L, times in c["lens_rle"] for _ in range(times)]


def _fresh(c):
    """run a call sequence in a NEW interpreter (state initialised by the first use in a process, class-level caches)"""
    import json, os, subprocess, sys
    code = ("import sys, json; sys.path.insert(0, %r); from harness import core; core.import_bionumpy(); "
            "from harness.props import c13 as m; print('RESULT' + json.dumps(m.impl(json.loads(sys.argv[1])), default=core._np_default))"
            % str(core.VERIF))
    p = subprocess.run([sys.executable, "-c", code, json.dumps({"op": "seq", "calls": c["calls"]})], capture_output=True,
                       text=True, timeout=120, env=dict(os.environ))
    for line in p.stdout.splitlines():
        if line.startswith("RESULT"):
            return json.loads(line[6:])
    return {"err": "other:fresh-process-failed"}


def _err(e):
    from bionumpy.encodings.exceptions import EncodingError
    return {"err": "encoding"} if isinstance(e, EncodingError) else {"err": "other:" + type(e).__name__}


def impl(c):
    if c["op"] == "fresh":
        return _fresh(c)
    if c["op"] == "seq":
        # several calls in one process; every result is read only AFTER the last call (shared buffers / caches show up)
        live = []
        for sub in c["calls"]:
            try:
                live.append(_call(sub))
            except Exception as e:
                live.append(_err(e))
        out = []
        for x in live:
            if isinstance(x, dict):
                out.append(x)
            else:
                try:
                    out.append(x[1](x[0]))
                except Exception as e:
                    out.append(_err(e))
        return {"results": out}
    try:
        obj, canon_fn = _call(c)
        return canon_fn(obj)
    except Exception as e:
        return _err(e)


def impl_live(c):
    import copy
    obj, canon_fn = _call(c)
    # reading a ragged result materialises it in place; read a shallow clone so the live object keeps aliasing what it aliases
    return obj, (lambda o: canon_fn(copy.copy(o)))


def mutate_live(obj, c):
    """the caller overwrites a result it was given (and the label list of a count); the same call must not notice"""
    done = False
    if hasattr(obj, "alphabet") and isinstance(obj.alphabet, list) and obj.alphabet:
        obj.alphabet[0] = "??"
        obj.alphabet.append("!!")
        done = True
    if hasattr(obj, "counts"):
        np.asarray(obj.counts)[...] = 77
        return True
    try:
        flat = obj.ravel()
        data = flat.raw() if hasattr(flat, "raw") else flat
        if data.size:
            data[...] = (data.max() if data.dtype != bool else True)
            if data.dtype != bool:
                data[...] = data + 1
            else:
                data[...] = ~data
            done = True
    except Exception:
        pass
    return done


def live_cases(tier, rng):
    pool = [c for c in _seq_pool(rng, 1200 if tier in ("thorough", "widen") else 500)]
    return pool


# --------------------------------------------------------------------------- oracle: per row, from the definition

def _wins(row, w):
    return [row[i:i + w] for i in range(len(row) - w + 1)]


def _code(n, win):
    return sum(x * n ** j for j, x in enumerate(win))


def oracle(c):
    op = c["op"]
    if op in ("seq", "fresh"):
        res = [oracle(sub) for sub in c["calls"]]
        return SKIP if any(isinstance(r, core.Skip) for r in res) else {"results": res}
    alpha = c["alpha"]
    n = len(alpha)
    if op == "kenc":
        return {"codes": [_code(n, km) for km in c["kmers"]], "text": _texts(alpha, c["kmers"]),
                "inverse": [list(km) for km in c["kmers"]]}
    if op == "count_big":
        k = c["k"]
        units = c["units"]
        per = []
        for j, L in enumerate(_big_lens(c)):
            u = units[j % len(units)]
            p = len(u)
            cnt = [0] * (n ** k)
            nwin = L - k + 1
            if nwin > 0:
                for ph in range(min(p, nwin)):                    # windows starting at i = ph (mod p) all spell the same k-mer
                    code = _code(n, [u[(ph + t) % p] for t in range(k)])
                    cnt[code] += (nwin - 1 - ph) // p + 1
            per.append(cnt)
        if sum(_big_lens(c)) < k:
            return SKIP
        if c["axis"] is None:
            return {"counts": [sum(col) for col in zip(*per)] if per else [0] * (n ** k)}
        return {"counts": per}
    if op == "count_weighted":
        k = c["k"]
        rows = c["rows"]
        if sum(len(r) for r in rows) < k or n ** k > 4096 or k > 8:
            return SKIP
        codes = [_code(n, x) for r in rows for x in _wins(r, k)]
        w = c["weights"]
        if w and isinstance(w[0], list):
            out = []
            for wr in w:
                cnt = [0.0] * (n ** k)
                for code, x in zip(codes, wr):
                    cnt[code] += x
                out.append(cnt)
            return {"counts": out}
        cnt = [0.0] * (n ** k)
        for code, x in zip(codes, w):
            cnt[code] += x
        return {"counts": cnt}
    if op == "count_add":
        k = c["k"]
        if n ** k > 4096 or k > 8 or any(sum(len(r) for r in rows) < k for rows in c["parts"]):
            return SKIP
        cnt = [0] * (n ** k)
        for rows in c["parts"]:
            for r in rows:
                for x in _wins(r, k):
                    cnt[_code(n, x)] += 1
        return {"counts": cnt, "by_label": True, "dict_ok": True}
    if op in ("regex", "fixedregex"):
        import re
        rows = c["rows"]
        rx = re.compile(_pattern_text(alpha, c["items"]))
        texts = _texts(alpha, rows)
        if op == "regex":
            if sum(len(r) for r in rows) < 1:
                return SKIP
            return {"rows": [[rx.match(t[i:]) is not None for i in range(len(t))] for t in texts]}
        w = len(c["items"])
        if sum(len(r) for r in rows) < w:
            return SKIP
        return {"rows": [[rx.fullmatch(t[i:i + w]) is not None for i in range(len(t) - w + 1)] for t in texts]}
    rows = c["rows"]
    total = sum(len(r) for r in rows)
    w = {"kmers": c.get("k"), "minimizers": c.get("w"), "match": len(c.get("pat", [])), "match_same": len(c.get("pat", [])),
         "pwm": len(c.get("matrix", [])), "pwm_old": len(c.get("matrix", [])), "count": c.get("k"), "count_read": c.get("k")}[op]
    if w < 1 or total < w:
        return SKIP
    if op == "match_same":   # one value per position: the windows that fit in the row, then False
        return {"rows": [[x == c["pat"] for x in _wins(r, w)] + [False] * (len(r) - max(0, len(r) - w + 1)) for r in rows]}
    if op in ("kmers", "minimizers", "count", "count_read") and not (1 <= c["k"] <= 31):
        return SKIP
    if op == "kmers" and c.get("via") == "ascii" and alpha == "ACGTN":
        # plain text goes through DNAEncoding: anything but ACGT must be refused with an EncodingError
        if any(x == 4 for r in rows for x in r):
            return {"err": "encoding"}
        n = 4
    if op == "kmers":
        k = c["k"]
        out = {"rows": [[_code(n, x) for x in _wins(r, k)] for r in rows]}
        if c.get("text", True) is not False:
            out["text"] = [["".join(alpha[y] for y in x) for x in _wins(r, k)] for r in rows]
        return out
    if op == "minimizers":
        k = c["k"]
        if k > w:
            return SKIP
        return {"rows": [[min(_code(n, y) for y in _wins(x, k)) for x in _wins(r, w)] for r in rows]}
    if op == "match":
        return {"rows": [[x == c["pat"] for x in _wins(r, w)] for r in rows]}
    if op == "pwm" and c.get("seq_alpha", alpha)[:n] != alpha:
        return {"err_any": True}      # sequences encoded over another alphabet: must be refused, never scored
    if op in ("pwm", "pwm_old"):
        m = _pwm_matrix(c)
        out = []
        for r in rows:
            o = []
            for x in _wins(r, w):
                s = 0.0
                for off, letter in enumerate(x):
                    s += m[off][letter]
                o.append(_bits(s))
            out.append(o)
        return {"rows": out}
    if op == "count_read":
        base = oracle(dict(c, op="count"))
        if isinstance(base, core.Skip):
            return SKIP
        return _read_expect(c, base)
    if op == "count":
        k = c["k"]
        if n ** k > 20000 or k > 8:   # count_kmers builds all |A|^k labels and asserts k <= 8
            return SKIP
        labels = ["".join(alpha[(h // n ** j) % n] for j in range(k)) for h in range(n ** k)]
        per = []
        for r in rows:
            cnt = [0] * (n ** k)
            for x in _wins(r, k):
                cnt[_code(n, x)] += 1
            per.append(cnt)
        if c["axis"] is None:
            return {"counts": [sum(col) for col in zip(*per)], "labels": labels}
        return {"counts": per, "labels": labels}
    raise ValueError(op)


def _read_expect(c, base):
    """what the reading protocol must answer, given counts/labels as {"counts", "labels"}"""
    col = {lab: j for j, lab in enumerate(base["labels"])}
    out = {}
    for lab in _read_labels(c):
        if lab not in col:
            return None
        j = col[lab]
        out[lab] = base["counts"][j] if c["axis"] is None else [row[j] for row in base["counts"]]
    return {"by_label": out, "as_dict": dict(out), "n_labels": len(base["labels"])}


def _log(x):
    return float("-inf") if x == 0 else math.log(x)


def _pwm_matrix(c):
    """m[offset][letter]: given, or built as the package documents (log-likelihood ratio / add-one counts)"""
    n = len(c["alpha"])
    if c.get("build") == "dict":
        bg = [1.0 / n] * n if c.get("bg") is None else [_unbits(b) for b in c["bg"]]
        return [[_log(_unbits(row[j])) - _log(bg[j]) for j in range(n)] for row in c["probs"]]
    if c.get("build") == "counts":
        return [[math.log((row[j] + 1) / sum(x + 1 for x in row)) for j in range(n)] for row in c["counts"]]
    return [[_unbits(b) for b in row] for row in c["matrix"]]


def _close(a, b):
    if a == b:
        return True
    x, y = _unbits(a), _unbits(b)
    if math.isnan(x) or math.isnan(y):
        return math.isnan(x) and math.isnan(y)
    if math.isinf(x) or math.isinf(y):
        return x == y
    return abs(x - y) <= 1e-12 * max(1.0, abs(x), abs(y))


def _agree_float_rows(got, exp):
    if not isinstance(got, dict) or "rows" not in got or "rows" not in exp:
        return core.canon(got) == core.canon(exp)
    g, e = got["rows"], exp["rows"]
    return len(g) == len(e) and all(len(a) == len(b) and all(_close(x, y) for x, y in zip(a, b)) for a, b in zip(g, e))


def agree(c, got, exp):
    if isinstance(exp, dict) and exp.get("err_any"):
        return isinstance(got, dict) and "err" in got
    if c["op"] == "pwm_old":
        return _agree_float_rows(got, exp)
    if c["op"] in ("seq", "fresh"):
        g = got.get("results") if isinstance(got, dict) else None
        return isinstance(g, list) and len(g) == len(exp["results"]) and \
            all(agree(sub, a, b) for sub, a, b in zip(c["calls"], g, exp["results"]))
    if c["op"] == "pwm":
        return _agree_float_rows(got, exp)
    return core.canon(got) == core.canon(exp)


def agree_spec(c, sp, exp):
    if c["op"] == "count_read":
        return isinstance(sp, dict) and "counts" in sp and core.canon(_read_expect(c, sp)) == core.canon(exp)
    if c["op"] == "count_add":
        return sp.get("counts") == exp.get("counts")
    return core.canon(sp) == core.canon(exp)


def agree_model(c, got, m):
    if c["op"] == "count_read":
        return isinstance(m, dict) and "counts" in m and core.canon(got) == core.canon(_read_expect(c, m))
    if c["op"] == "count_add":
        return isinstance(got, dict) and got.get("counts") == m.get("counts")
    if c["op"] in ("pwm", "pwm_old"):
        return _agree_float_rows(got, m)
    return core.canon(got) == core.canon(m)


def model_request(c):
    op = c["op"]
    if op in ("seq", "fresh", "count_big", "count_weighted"):
        return None      # the Lean model is pure: a sequence of calls is the list of single calls (compared there)
    n = len(c["alpha"])
    k = c.get("k", 1)
    if op == "kmers" and c.get("via") == "ascii" and c["alpha"] == "ACGTN":
        return None      # text input with a foreign letter: the refusal is C06's model; judged against the oracle here
    if op in ("kmers", "minimizers", "count", "kenc") and n ** k > 2 ** 63:
        return None
    if op == "count_read":
        c = dict(c, op="count")
        op = "count"
    if op == "kenc" and not c["kmers"]:
        return None      # outside the model's stated int64 range: implementation vs exact oracle only
    if op == "pwm" and c.get("seq_alpha", c["alpha"])[:n] != c["alpha"]:
        return None
    if sum(len(x) for x in c.get("rows", [])) > 3000:
        return None      # the list model is quadratic in the row length: long rows are judged against the oracle only
    r = dict(c)
    if op == "pwm" and c.get("build"):
        r["matrix"] = [[_bits(x) for x in row] for row in _pwm_matrix(c)]
        for key in ("probs", "bg", "counts", "build"):
            r.pop(key, None)
    r.pop("view", None)      # the model sees the selected rows
    r["alphabet"] = [ord(ch) for ch in c["alpha"]]
    r["n"] = n
    r.pop("alpha")
    if op == "count":
        r["per_row"] = c["axis"] is not None
        r.pop("axis")
    return r


# --------------------------------------------------------------------------- cases

def _rand_rows(rng, n, lens):
    return [[rng.randrange(n) for _ in range(l)] for l in lens]


def _matrix(rng, n, w):
    vals = []
    for _ in range(w):
        row = []
        for _ in range(n):
            r = rng.random()
            row.append(_bits(float("-inf") if r < 0.08 else (0.0 if r < 0.12 else math.log(rng.random() + 1e-3) - math.log(1.0 / n))))
        vals.append(row)
    return vals


def _rand_items(rng, n, w, gaps):
    """a pattern of w positions over letters 0..n-1: letters, classes, dots; optionally gaps (each preceded by a letter/class
    and followed by at least one position, as the code's grammar requires)"""
    items = []
    for i in range(w):
        r = rng.random()
        if r < 0.55:
            items.append([1, rng.randrange(n)])
        elif r < 0.8 and n >= 2:
            k = rng.randint(2, min(n, 3))
            items.append([1] + sorted(rng.sample(range(n), k)))
        else:
            items.append([0])
    if gaps and w >= 2:
        out = []
        for i, it in enumerate(items):
            out.append(it)
            if i < w - 1 and it[0] == 1 and rng.random() < 0.5:
                a = rng.choice([0, 0, 1, 2])
                out.append([2, a, a + rng.choice([0, 1, 2])])
        items = out
    return items


def _regex_cases(rng, alpha, rows, w):
    n = len(alpha)
    if not alpha.isalpha() or not alpha.isupper():
        return
    for gaps in (False, True):
        items = _rand_items(rng, n, w, gaps)
        # make the pattern occur somewhere (also across a row border) half of the time
        flatl = [x for r in rows for x in r]
        fixed = [it for it in items if it[0] != 2]
        if rng.random() < 0.6 and len(flatl) >= len(fixed) and not gaps:
            i = rng.randrange(len(flatl) - len(fixed) + 1)
            for it, x in zip(fixed, flatl[i:]):
                if it[0] == 1 and x not in it[1:]:
                    it[1] = x
                    it[1:] = sorted(set(it[1:]))
        yield {"op": "regex", "alpha": alpha, "rows": rows, "items": items}
        if not gaps:
            yield {"op": "fixedregex", "alpha": alpha, "rows": rows, "items": items}


def _ops_for(rng, alpha, rows, w, big, shape="ragged"):
    """all window functions at window w on these rows"""
    n = len(alpha)
    base = {"alpha": alpha, "rows": rows}
    if shape == "flat":
        base["shape"] = "flat"
    if 1 <= w <= 31:
        yield dict(base, op="kmers", k=w)
        if n ** w <= 4096 and w <= 8 and shape != "flat":
            yield dict(base, op="count", k=w, axis=None)
            yield dict(base, op="count", k=w, axis=-1)
            yield dict(base, op="count_read", k=w, axis=rng.choice([None, -1, -1]))
        for k in sorted({1, max(1, w - 1), w, rng.randint(1, w)}):
            if k <= w:
                yield dict(base, op="minimizers", k=k, w=w)
    flatl = [x for r in rows for x in r]
    pats = []
    if len(flatl) >= w:
        i = rng.randrange(len(flatl) - w + 1)
        pats.append(flatl[i:i + w])           # a pattern that occurs in the flat text (possibly across a row border)
    cand = [r for r in rows if len(r) >= w]
    if cand:
        r = rng.choice(cand)
        i = rng.randrange(len(r) - w + 1)
        pats.append(r[i:i + w])
    if cand and w >= 2:      # near miss: an occurring window with only its last / a late letter changed
        r = rng.choice(cand)
        i = rng.randrange(len(r) - w + 1)
        p = list(r[i:i + w])
        j = rng.choice([w - 1, rng.randrange(w // 2, w)])
        p[j] = (p[j] + 1 + rng.randrange(n - 1)) % n if n > 1 else p[j]
        pats.insert(1, p)
    pats.append([rng.randrange(n) for _ in range(w)])
    for p in pats[: (4 if big else 3)]:
        yield dict(base, op="match", pat=p)
        if w <= 6 or rng.random() < 0.3:
            yield dict(base, op="match_same", pat=p, **({"ws": True} if rng.random() < 0.3 else {}))
        if alpha in ("ACGT", "ACGTN", "AB") and rng.random() < 0.3:
            yield dict(base, op="match", pat=p, via="ascii")
    if w <= 31:
        yield dict(base, op="pwm", matrix=_matrix(rng, n, w), **({"via": "ascii"} if rng.random() < 0.5 else {}))
        if rng.random() < 0.4:
            yield dict(base, op="pwm_old", matrix=_matrix(rng, n, w), **({"entry": "class"} if rng.random() < 0.5 else {}))
    if shape != "flat" and w <= 6 and rng.random() < 0.6:
        yield from _regex_cases(rng, alpha, rows, w)
    if shape != "flat" and n ** w <= 4096 and w <= 8 and len(rows) >= 2 and rng.random() < 0.3:
        cut = rng.randrange(1, len(rows))
        parts = [rows[:cut], rows[cut:]]
        if all(sum(len(r) for r in p) >= w for p in parts):
            yield {"op": "count_add", "alpha": alpha, "k": w, "parts": parts, "how": rng.choice(["add", "sum", "radd"])}


def _seq_pool(rng, n_cases):
    """small single calls used for call sequences and for core's history probe"""
    names = list(ALPHABETS.values())
    out = []
    while len(out) < n_cases:
        alpha = rng.choice(names + ["ACGT", "ACTG", "ACGTN", "ABCDE"])
        n = len(alpha)
        w = rng.choice([1, 2, 2, 3, 4])
        lens = [rng.choice([0, 1, 2, 3, 4, 6, 9]) for _ in range(rng.choice([1, 2, 3, 4]))]
        if sum(lens) < w:
            continue
        rows = _rand_rows(rng, n, lens)
        ops = [c for c in _ops_for(rng, alpha, rows, w, False)]
        out.append(rng.choice(ops))
    return out


def _sequences(rng, n_seq):
    """explicit call sequences: same function, same alphabet size / encoding, the LATER inputs no larger than the
    earlier ones (a shared output buffer is overwritten in place), and mixed sequences"""
    pool = _seq_pool(rng, 4 * n_seq)
    by = {}
    for c in pool:
        by.setdefault((c["op"], len(c["alpha"]), _w(c)), []).append(c)
    size = lambda c: sum(len(r) for r in c.get("rows", c.get("kmers", [])))
    groups = [g for g in by.values() if len(g) >= 2]
    for _ in range(n_seq):
        r = rng.random()
        if r < 0.6 and groups:
            g = rng.choice(groups)
            calls = sorted(rng.sample(g, min(len(g), rng.choice([2, 2, 3]))), key=size, reverse=True)
        elif r < 0.8 and groups:
            g = rng.choice(groups)
            a = rng.choice(g)
            calls = [a, rng.choice(g), dict(a)]          # A, B, A again
        else:
            calls = rng.sample(pool, 3)
        yield {"op": "seq", "calls": calls}
    # label tables of two different alphabets of the same size and the same k, one after the other
    for k in (1, 2, 3):
        for a1, a2 in (("ACGT", "ACTG"), ("ACTG", "ACGT"), ("ACGTN", "ABCDE"), ("AB", "XY")):
            rows = _rand_rows(rng, len(a1), [5, 0, 3])
            yield {"op": "seq", "calls": [{"op": "count", "alpha": a1, "rows": rows, "k": k, "axis": None},
                                          {"op": "count", "alpha": a2, "rows": rows, "k": k, "axis": -1},
                                          {"op": "kmers", "alpha": a1, "rows": rows, "k": k},
                                          {"op": "kmers", "alpha": a2, "rows": rows, "k": k}]}


def cases(tier, rng):
    big = tier in ("thorough", "widen")
    names = list(ALPHABETS.values())
    # 0. call sequences (history) and fresh views as inputs
    yield from _sequences(rng, 1500 if big else 250)
    for c in _seq_pool(rng, 6000 if big else 1200):
        if "rows" in c:
            yield _with_view(rng, c)
    # 0a. sizes at the constants of the code: the flat count works in blocks of 1,000,000 k-mers; 256 / 65536 codes; > 65536 rows
    for tot in ((999999, 1000000, 1000001, 1999999, 2000000, 2000001, 3000000) if big else (1000000, 1000001, 2000000, 3000000)):
        alpha = rng.choice(["ACGT", "ACGTN", "AB"])
        n = len(alpha)
        k = rng.choice([1, 2, 3])
        # rows: one long, one empty, one shorter than k, one making the total number of k-mers exactly `tot`
        first = rng.randrange(tot // 3, 2 * tot // 3)
        lens = [first + k - 1, 0, k - 1, (tot - first) + k - 1]
        units = [[rng.randrange(n) for _ in range(rng.choice([1, 2, 3, 5, 7]))] for _ in range(3)]
        yield {"op": "count_big", "alpha": alpha, "k": k, "units": units, "lens_rle": [[L, 1] for L in lens], "axis": None}
    yield {"op": "count_big", "alpha": "ACGT", "k": 2, "units": [[0, 1, 3], [2]], "lens_rle": [[1000001, 1], [3, 1], [1000000, 1]], "axis": -1}
    yield {"op": "count_big", "alpha": "ACGT", "k": 2, "units": [[0, 1, 3], [2, 2, 1, 0]], "lens_rle": [[3, 40000], [0, 1], [4, 30000]], "axis": None}
    yield {"op": "count_big", "alpha": "ACGT", "k": 8, "units": [[0, 1, 3, 2, 2, 1], [3, 3, 0]], "lens_rle": [[300, 1], [7, 1], [70, 2]], "axis": None}
    yield {"op": "count_big", "alpha": "AB", "k": 8, "units": [[0, 1, 1], [1]], "lens_rle": [[300, 1], [9, 3]], "axis": -1}
    # 0a2. count_encoded with the rarely used `weights` keyword (1-D and 2-D weights over the flat k-mers)
    for _ in range(200 if big else 30):
        alpha = rng.choice(["ACGT", "ACGTN", "AB", "ABC"])
        n = len(alpha)
        k = rng.choice([1, 2, 3])
        lens = [rng.choice([0, 1, k - 1, k, k + 1, 6]) for _ in range(rng.choice([1, 2, 3]))]
        rows = _rand_rows(rng, n, lens)
        nk = sum(max(0, len(r) - k + 1) for r in rows)
        if nk == 0:
            continue
        if rng.random() < 0.6:
            w = [float(rng.choice([0, 1, 2, 3, 10])) for _ in range(nk)]
        else:
            w = [[float(rng.choice([0, 1, 2, 5])) for _ in range(nk)] for _ in range(rng.choice([1, 2, 3]))]
        yield {"op": "count_weighted", "alpha": alpha, "rows": rows, "k": k, "weights": w, "ravel": True}
    # 0a3. call sequences in a NEW interpreter: what the first use in a process initialises must not leak into later uses
    for _ in range(6 if big else 2):
        calls = []
        for alpha in rng.sample(["ACGT", "ACTG", "TGCA", "ACGTN", "ABCDE", "AB", "XY"], 4):
            n = len(alpha)
            k = rng.choice([1, 2])
            rows = _rand_rows(rng, n, [rng.choice([3, 5, 8]), 0, rng.choice([1, 2, 4])])
            calls.append({"op": rng.choice(["count", "kmers"]), "alpha": alpha, "rows": rows, "k": k, **{"axis": None}})
            if calls[-1]["op"] == "kmers":
                calls[-1].pop("axis")
        yield {"op": "fresh", "calls": calls}
    # 0a4. products of (letter code, window, position) past 2^8 / 2^16: big alphabets x wide windows with the highest codes late in
    #      the window, and rows longer than 255 / 65535 letters
    big_alphas = [ALPHABETS["AMINO"], "ABCDEFGHIJKLMNOPQRSTUVWXYZ", "ABCDEFGHIJKLMNOP"]
    for alpha in big_alphas:
        n = len(alpha)
        for w in ((10, 12, 13, 14, 16, 17, 20, 26, 31) if big else (12, 13, 17, 26, 31)):
            rows = _rand_rows(rng, n, [w + 3, w - 1, w, 2 * w + 1])
            rows[0] = [rng.randrange(n) for _ in range(3)] + [n - 1 - (i % 2) for i in range(w)]      # highest codes at every position
            rows[3] = rows[3][:w] + [n - 1] * (w + 1)
            base = {"alpha": alpha, "rows": rows}
            yield dict(base, op="pwm", matrix=_matrix(rng, n, w))
            yield dict(base, op="pwm", matrix=_matrix(rng, n, w), via="ascii") if alpha.isalpha() else dict(base, op="pwm_old", matrix=_matrix(rng, n, w))
            yield dict(base, op="pwm_old", matrix=_matrix(rng, n, w), entry="class")
            yield dict(base, op="match", pat=rows[0][3:3 + w])
            yield dict(base, op="match_same", pat=rows[3][w:2 * w])
            if n ** w <= 2 ** 63:
                yield dict(base, op="kmers", k=w)
                yield dict(base, op="minimizers", k=w - 1, w=w)
        for k in (2, 3):
            if n ** k <= 20000:
                yield {"op": "count", "alpha": alpha, "rows": _rand_rows(rng, n, [9, 0, k, 40]), "k": k, "axis": rng.choice([None, -1])}
    # 0a5. long patterns: windows that agree with the pattern on a long prefix / suffix and differ only in the rest (a fingerprint
    #      of the window instead of its letters would call them equal), alphabets of 2^m and other sizes
    for alpha in ("ABCDEFGH", "ABCDEFGHIJKLMNOP", "ABCDEFGHIJKLMNOPQRSTUVWXYZ012345", ALPHABETS["AMINO"], "ABCDEFGHIJKLMNOPQRSTUVWXYZ", "ACGTN"):
        n = len(alpha)
        for w in ((14, 17, 18, 23, 28, 31) if big else (14, 17, 23, 31)):
            pat = [rng.randrange(n) for _ in range(w)]
            rows = [list(pat) + [rng.randrange(n) for _ in range(3)]]
            for j in sorted({w - 1, w - 2, 22, 16, 13, 11, w // 2} & set(range(1, w))):
                near = list(pat)
                for t in range(j, w):                      # same first j letters, every later letter different
                    near[t] = (near[t] + 1 + rng.randrange(n - 1)) % n
                rows.append([rng.randrange(n)] + near)
                one = list(pat)
                one[j] = (one[j] + 1 + rng.randrange(n - 1)) % n      # a single different letter at position j
                rows.append(one + list(pat[:2]))
            tail = list(pat)
            tail[0] = (tail[0] + 1) % n                    # same last w-1 letters
            rows.append(tail)
            rows.append([])
            base = {"alpha": alpha, "rows": rows}
            yield dict(base, op="match", pat=pat)
            yield dict(base, op="match", pat=pat, via="ascii")
            yield dict(base, op="match_same", pat=pat)
            yield _with_view(rng, dict(base, op="match", pat=pat))
    for alpha in ("ACGT", ALPHABETS["AMINO"], "ACGTN"):
        n = len(alpha)
        for lens in ([300, 0, 255, 256, 257], [70000, 3, 65536] if big or alpha == "ACGT" else [66000]):
            rows = _rand_rows(rng, n, lens)
            w = rng.choice([2, 3])
            yield {"op": "kmers", "alpha": alpha, "rows": rows, "k": w, "text": False}
            yield {"op": "match", "alpha": alpha, "rows": rows, "pat": rows[0][-w:]}
            yield {"op": "pwm", "alpha": alpha, "rows": rows, "matrix": _matrix(rng, n, w)}
            yield {"op": "minimizers", "alpha": alpha, "rows": rows, "k": 2, "w": 4}
            if n ** w <= 4096:
                yield {"op": "count", "alpha": alpha, "rows": rows, "k": w, "axis": -1}
    # 0b. many rows (>= 17) in one call, plain and as views
    for _ in range(300 if big else 40):
        alpha = rng.choice(names)
        w = rng.choice([1, 2, 3, 5])
        lens = [rng.choice([0, 1, w - 1, w, w + 1, 7]) for _ in range(rng.choice([17, 18, 25, 40]))]
        if sum(lens) < w:
            continue
        for c in _ops_for(rng, alpha, _rand_rows(rng, len(alpha), lens), w, False):
            if rng.random() < 0.4:
                yield c if (rng.random() < 0.5 or "rows" not in c) else _with_view(rng, c)
    # 0c. codes >= 2^53 (a float detour would round them): 4 letters k >= 27, 5 letters k >= 23, amino acids k >= 13
    for alpha, ks in (("ACGT", (27, 28, 29, 30, 31)), ("ACTG", (27, 31)), ("ACGTN", (23, 24, 25, 26, 27)), ("ABCDE", (23, 27)),
                      (ALPHABETS["AMINO"], (13, 14))):
        n = len(alpha)
        for k in ks:
            for rep in range(3 if big else 1):
                lens = [k + 2, k, rng.choice([0, k - 1]), k + 5]
                rows = _rand_rows(rng, n, lens)
                rows[0] = [n - 1] * (k + 1) + [rng.randrange(n)]          # top letters set: codes close to n^k
                rows[1] = [rng.randrange(n) for _ in range(k - 1)] + [n - 1]
                yield {"op": "kmers", "alpha": alpha, "rows": rows, "k": k}
                yield {"op": "minimizers", "alpha": alpha, "rows": rows, "k": k, "w": k}
                yield {"op": "minimizers", "alpha": alpha, "rows": rows, "k": k, "w": k + rng.choice([1, 2])}
                yield {"op": "kenc", "alpha": alpha, "k": k, "kmers": [r[:k] for r in rows if len(r) >= k], "as_list": True}
                yield _with_view(rng, {"op": "kmers", "alpha": alpha, "rows": rows, "k": k})
    # 1. exhaustive row-length vectors, N <= 3, M <= 4, w <= 4 (letters random), total >= w
    M = 4
    for nrows in (1, 2, 3):
        for lens in itertools.product(range(M + 1), repeat=nrows):
            for w in (1, 2, 3, 4):
                if sum(lens) < w:
                    continue
                alphas = names if big else [rng.choice(["ACGT", "ACTG"]), rng.choice(["ACGTN", "AB", "ABC", ALPHABETS["AMINO"]])]
                if not big and nrows == 3 and rng.random() < 0.6:
                    continue
                for alpha in alphas:
                    rows = _rand_rows(rng, len(alpha), lens)
                    yield from _ops_for(rng, alpha, rows, w, big)
    # 1b. exhaustive row CONTENTS (every letter assignment), alphabets of size 2, 3, 4, every w <= 5.
    #     k-mers with k = w is an injective code of the window, so the `kmers` op alone observes the whole
    #     flatten/convolve/re-wrap/trim mechanism; the other functions are run on the one- and two-row lists.
    def contents(n, maxlen):
        return [list(x) for l in range(maxlen + 1) for x in itertools.product(range(n), repeat=l)]

    def lists(n, nrows, maxlen):
        return [list(t) for t in itertools.product(contents(n, maxlen), repeat=nrows)]

    if big:
        scopes = [("AB", 1, 4, True), ("AB", 2, 4, True), ("AB", 3, 4, False),
                  ("ABC", 1, 4, True), ("ABC", 2, 3, False), ("ABC", 3, 2, False),
                  ("ACGT", 1, 5, True), ("ACGT", 2, 3, False), ("ACGT", 3, 2, False)]
    else:
        scopes = [("AB", 1, 3, True), ("AB", 2, 3, False), ("AB", 3, 2, False), ("ACGT", 2, 2, False), ("ABC", 2, 2, False)]
    for alpha, nrows, maxlen, full in scopes:
        for rows in lists(len(alpha), nrows, maxlen):
            tot = sum(len(r) for r in rows)
            for w in range(1, 6):
                if tot < w:
                    continue
                if full and (big or rng.random() < 0.5):
                    yield from _ops_for(rng, alpha, rows, w, big)
                else:
                    yield {"op": "kmers", "alpha": alpha, "rows": rows, "k": w, "text": False}
                    if not big and rng.random() < 0.15:
                        yield from _ops_for(rng, alpha, rows, w, big)
    if big:      # a sample of the scopes too large to enumerate (3 rows of length <= 4 over 3 and 4 letters)
        for alpha, nr in (("ABC", 2), ("ABC", 3), ("ACGT", 3)):
            cs = contents(len(alpha), 4)
            for _ in range(10000):
                rows = [rng.choice(cs) for _ in range(nr)]
                w = rng.randint(1, 5)
                if sum(len(r) for r in rows) >= w:
                    yield {"op": "kmers", "alpha": alpha, "rows": rows, "k": w, "text": False}
    # 1c. the packed path across uint64 register borders (32 letters per register)
    for alpha in ("ACGT", "ACTG"):
        for L in ((31, 32, 33, 63, 64, 65, 96, 97) if big else (32, 33, 64, 65)):
            for k in ((1, 2, 3, 15, 16, 17, 30, 31) if big else (1, 2, 16, 31)):
                lens = [L, rng.choice([0, 1, k - 1, k]), rng.choice([k, k + 1, 32, 33])]
                rows = _rand_rows(rng, 4, lens)
                yield {"op": "kmers", "alpha": alpha, "rows": rows, "k": k}
                yield {"op": "kmers", "alpha": alpha, "rows": [[3] * L, [0] * 33, [3] * 2], "k": k, "text": False}
                yield {"op": "count", "alpha": alpha, "rows": rows, "k": min(k, 3), "axis": -1}
    # 2. flat (1-D) inputs
    for L in range(1, 7):
        for w in range(1, L + 1):
            for alpha in (names if big else ["ACGT", "ACGTN"]):
                yield from _ops_for(rng, alpha, _rand_rows(rng, len(alpha), [L]), w, big, shape="flat")
    # 3. ASCII input to get_kmers (change_encoding to DNAEncoding inside)
    for _ in range(200 if big else 30):
        lens = [rng.choice([0, 1, 2, 3, 5, 8]) for _ in range(rng.choice([1, 2, 3]))]
        k = rng.choice([1, 2, 3, 5])
        if sum(lens) >= k:
            yield {"op": "kmers", "alpha": "ACGT", "rows": _rand_rows(rng, 4, lens), "k": k, "via": "ascii"}
    # 3b. ASCII text with a letter that is not DNA: refused
    for _ in range(60 if big else 12):
        lens = [rng.choice([0, 1, 2, 3, 5]) for _ in range(rng.choice([1, 2, 3]))]
        k = rng.choice([1, 2, 3])
        if sum(lens) >= k:
            yield {"op": "kmers", "alpha": "ACGTN", "rows": _rand_rows(rng, 5, lens), "k": k, "via": "ascii"}
    # 3c. PWMs built by the package from probabilities / counts; already-encoded input whose alphabet merely starts with the PWM's
    for _ in range(300 if big else 80):
        alpha = rng.choice(["ACGT", "ACGT", "AB", "ABC"])
        n = len(alpha)
        w = rng.choice([1, 2, 3, 4])
        lens = [rng.choice([0, 1, w - 1, w, w + 1, 6]) for _ in range(rng.choice([1, 2, 3]))]
        if sum(lens) < w:
            continue
        rows = _rand_rows(rng, n, lens)
        perm = lambda: rng.sample(range(n), n)
        if rng.random() < 0.5:
            probs = [[rng.choice([0.0, 0.1, 0.25, 0.5, 0.7, 1.0, rng.random()]) for _ in range(n)] for _ in range(w)]
            bg = [rng.choice([0.25, 0.1, 0.5, 0.05, 0.4]) for _ in range(n)] if rng.random() < 0.7 else None
            c = {"op": "pwm", "alpha": alpha, "rows": rows, "build": "dict", "probs": [[_bits(x) for x in r] for r in probs],
                 "bg": None if bg is None else [_bits(x) for x in bg], "matrix": [[0] * n] * w}
            if bg is not None and rng.random() < 0.7:      # the two dicts need not list the letters in the same order
                c["bg_order"] = perm()
                if rng.random() < 0.3:
                    c.update(bg_extra=[rng.choice("XYZ")], bg_extra_first=rng.random() < 0.5)
            if rng.random() < 0.4:                          # nor in the alphabet's order: sequences then come as plain text
                c.update(key_order=perm(), via="ascii")
            yield c
        else:
            counts = [[rng.choice([0, 0, 1, 2, 5, 17]) for _ in range(n)] for _ in range(w)]
            c = {"op": "pwm", "alpha": alpha, "rows": rows, "build": "counts", "counts": counts, "matrix": [[0] * n] * w}
            if rng.random() < 0.4:
                c.update(key_order=perm(), via="ascii")
            yield c
        if alpha == "ACGT":
            yield {"op": "pwm", "alpha": alpha, "rows": rows, "matrix": _matrix(rng, n, w), "seq_alpha": "ACGTN"}
            yield {"op": "pwm", "alpha": alpha, "rows": rows, "matrix": _matrix(rng, n, w), "seq_alpha": "ACTG"}
    # 4. every k 1..31 on both paths with boundary row lengths (k-1, k, k+1, 0, short last row)
    for k in range(1, 32):
        for alpha in (names if big else ["ACGT", "ACGTN", ALPHABETS["AMINO"], rng.choice(["ACTG", "AB", "ABC"])]):
            n = len(alpha)
            for rep in range(3 if big else 1):
                lens = [k + 1, 0, k - 1, k, rng.choice([k + 3, 2 * k, k + 7]), rng.randrange(0, k)]
                if rep:
                    rng.shuffle(lens)
                rows = _rand_rows(rng, n, lens)
                if rep == 0 and n ** k > 2 ** 63:
                    rows[0] = [n - 1] * len(rows[0])       # the largest k-mer: exceeds int64
                yield {"op": "kmers", "alpha": alpha, "rows": rows, "k": k}
                kk = rng.randint(1, k)
                yield {"op": "minimizers", "alpha": alpha, "rows": rows, "k": kk, "w": k}
                yield {"op": "match", "alpha": alpha, "rows": rows, "pat": rows[3][:k]}
                yield {"op": "kenc", "alpha": alpha, "k": k, "kmers": [r[:k] for r in rows if len(r) >= k][:3], "as_list": True}
                if k <= 10:
                    yield {"op": "pwm", "alpha": alpha, "rows": rows, "matrix": _matrix(rng, n, k)}
    # 5. random ragged
    for _ in range(12000 if big else 500):
        alpha = rng.choice(names)
        n = len(alpha)
        w = rng.choice([1, 1, 2, 2, 3, 4, 5, 7, 11, 16, 31])
        nrows = rng.choice([1, 2, 3, 5, 8])
        lens = [rng.choice([0, 0, max(0, w - 1), w, w + 1, rng.randrange(0, 12), rng.randrange(0, 40)]) for _ in range(nrows)]
        if sum(lens) < w:
            lens.append(w + rng.randrange(3))
        rows = _rand_rows(rng, n, lens)
        for c in _ops_for(rng, alpha, rows, w, big):
            if rng.random() < 0.5:
                yield c
    # 6. KmerEncoding.encode / to_string on explicit k-mers
    for _ in range(400 if big else 60):
        alpha = rng.choice(names)
        n = len(alpha)
        k = rng.choice([1, 2, 3, 4, 8, 13, 14, 15, 27, 28, 31])
        kms = [[rng.randrange(n) for _ in range(k)] for _ in range(rng.choice([1, 2, 4]))]
        yield {"op": "kenc", "alpha": alpha, "k": k, "kmers": kms, "as_list": rng.random() < 0.5}


def _w(c):
    if c["op"] in ("regex", "fixedregex"):
        return len(c["items"])
    if c["op"] in ("count_add", "count_big", "count_weighted"):
        return c["k"]
    return {"kmers": c.get("k"), "minimizers": c.get("w"), "match": len(c.get("pat", [])), "match_same": len(c.get("pat", [])),
            "pwm_old": len(c.get("matrix", [])), "pwm": len(c.get("matrix", [])), "count": c.get("k"), "count_read": c.get("k"), "kenc": c.get("k")}[c["op"]]


def nontrivial(c):
    if c["op"] in ("kenc", "seq", "fresh", "count_add", "count_big", "count_weighted", "regex", "fixedregex"):
        return True
    w = _w(c)
    return w == 1 or len(c["rows"]) >= 2 or any(len(r) in (0, w - 1, w, w + 1) for r in c["rows"])


def _wrap64(x):
    x %= 1 << 64
    return x - (1 << 64) if x >= 1 << 63 else x


def _int64_expectation(c):
    """what a row-local implementation computing in wrapping int64 returns (codes only)"""
    n, op = len(c["alpha"]), c["op"]
    if op == "kenc":
        return [_wrap64(_code(n, km)) for km in c["kmers"]]
    k = c["k"]
    if op == "kmers":
        return [[_wrap64(_code(n, x)) for x in _wins(r, k)] for r in c["rows"]]
    if op == "minimizers":
        return [[min(_wrap64(_code(n, y)) for y in _wins(x, k)) for x in _wins(r, c["w"])] for r in c["rows"]]
    return None


def finding_key(c, got, exp):
    """names the failing input class"""
    op = c["op"]
    if op == "count_big":
        tot = sum(max(0, L - c["k"] + 1) for L in _big_lens(c))
        return f"count:long-input:{'multiple-of' if tot % 1000000 == 0 else 'near'}-1e6-kmers" if tot >= 999000 else "count:many-rows-or-codes"
    if op == "count_weighted":
        return "count_encoded:weights"
    if op == "count_read":
        return "count:read-by-label:" + ("per-sequence" if c["axis"] is not None else "totals")
    if op in ("seq", "fresh"):
        g = got.get("results") if isinstance(got, dict) else None
        if isinstance(g, list) and len(g) == len(c["calls"]):
            for sub, a, b in zip(c["calls"], g, exp["results"]):
                if not agree(sub, a, b):
                    single = impl(sub)
                    if agree(sub, single, b):
                        return f"history:{sub['op']}:result-wrong-only-after-other-calls" + (":fresh-process" if op == "fresh" else "")
                    return finding_key(sub, a, b)
        return "history:sequence"
    if "view" in c:
        plain = {k: v for k, v in c.items() if k != "view"}
        if agree(plain, impl(plain), exp):
            return f"view:{op}:wrong-on-fresh-{c['view']['kind']}-view"
    n = len(c["alpha"])
    w = _w(c)
    err = isinstance(got, dict) and "err" in got
    if op == "regex" and not err and isinstance(got, dict):
        # marked only at positions whose window does not fit in the row?
        g, e = got.get("rows", []), exp["rows"]
        if len(g) == len(e) and all(len(a) == len(b) for a, b in zip(g, e)) and \
                all((not x) or y or True for a, b in zip(g, e) for x, y in zip(a, b)) and \
                all(y <= x for a, b in zip(g, e) for x, y in zip(a, b)):
            return "regex:match-continues-into-the-next-row"
    if op in ("kmers", "minimizers", "kenc") and n ** c["k"] > 2 ** 63 and not err:
        if got.get("codes" if op == "kenc" else "rows") == _int64_expectation(c):
            return f"{op}:int64-overflow(|A|^k>2^63)"     # row-local, but the code itself wrapped
    if w == 1 or (op == "minimizers" and c["k"] == 1):
        return f"{op}:window-1"
    return f"{op}:wrong-result" + (":raises" if err else "")
