"""C01 — chunked reading loses, duplicates or reorders no entry, for any chunk size."""
import dataclasses
import gzip
import io
import itertools
import os
import shutil
import tempfile
import atexit
import numpy as np
from .. import core
from ..core import SKIP

ID = "C01"
PARALLEL = 16
RULE = ("byte level (op=chunks): every well-formed file of 0..N entries over field lengths {1,2,5} for the delimited (k1), two-line FASTA "
        "(k2), FASTQ (k4) and wrapped FASTA formats x EVERY min_chunk_size 1..size+2 x {seek, carry(prepend)} x {final newline, none}, "
        "real NumpyFileReader vs Lean readAll; entry level (op=entries): BED/BED6/bedGraph/narrowPeak/VCF/SAM/GTF/FASTQ/two-line and "
        "wrapped FASTA files x chunk sizes x {plain, gzip} x {newline, none} x {LF, CRLF} x {lazy, eager}, chunked rows vs whole-read rows. "
        "Non-trivial = >= 2 entries and (more than one chunk delivered or an error raised)")
EXHAUSTIVE = {"quick": False, "thorough": False}
MODEL_OPS = {"chunks", "whole"}
ASSUMPTIONS = ["OS/BytesIO read(n) returns min(n, remaining) bytes and relative seek works (external)",
               "gzip.open yields the decompressed byte stream (external); gzip files use the reader's prepend mode",
               "completeness tests of the buffer classes depend only on the concatenation of pending raw chunks (modelled so; exercised per chunk list by the correspondence)"]
MANIFEST = {
    "text": "Lean 4 model of NumpyFileReader.read_chunk/_get_buffer/__add_newline_to_end driven as read_chunks drives it, for an abstract "
            "format (laws: cut is a positive newline-terminated prefix, well-formedness of the remainder is preserved by cutting, the "
            "terminated remainder is consumed whole), both seek and carry(prepend/gzip) modes. Theorem C01.readAll_bytes: for EVERY "
            "well-formed file, EVERY chunk size k>=1, both modes, the concatenation of the delivered chunks is the newline-terminated "
            "file and every chunk is non-empty and ends an entry; instantiated for the delimited, two-line FASTA and FASTQ formats; "
            "wrapped FASTA (fasta_laws, all byte strings); entries_chunks_kLine / readAll_delimited lift it to entries (groups of n lines). A second, well-formedness-free run of the invariant (readAll_bytesT, readAll_kLine_any_file) "
            "covers files that end inside a record: exactly the whole records are delivered, for every chunk size. The shipped end-of-file rule is refuted in Lean (readAll_old_loses) and was "
            "repaired in /repo. Correspondence: real reader vs Lean model on every small file x every chunk size x both modes (bytes), "
            "and chunked-vs-whole entry equality for ten formats x gzip x CRLF x lazy/eager.",
    "note": "The buffer classes' completeness tests are modelled on the concatenation of the pending raw chunks; MultiLineFastaBuffer's "
            "assert on the first byte is outside the model. gzip/OS reads, lazy field parsing, CRLF handling and the formats' value parsing "
            "are exercised by the correspondence only (entry-level chunked-vs-whole equality for ten formats).",
    "technique": "Lean 4 invariant proof over a reader state machine (induction on fuel/remaining bytes) + differential correspondence",
    "design": "§6 C01",
}

_TMP = None


def _tmpdir():
    global _TMP
    if _TMP is None or not os.path.isdir(_TMP):
        _TMP = tempfile.mkdtemp(prefix="c01_")
        atexit.register(shutil.rmtree, _TMP, True)
    return _TMP


# ------------------------------------------------------------------ file construction
def _w(rng, l):
    return "".join(rng.choice("ACGT") for _ in range(l))


def make_entries(fmt, n, lens, rng):
    """list of entry texts (each ending with \\n), header text"""
    out, header = [], ""
    for i in range(n):
        l = lens[i % len(lens)]
        num = str(10 ** (l - 1) + i) if l > 1 else str((i + 1) % 10)      # (l == 0: a record with an EMPTY sequence, fastq / two-line fasta only)
        if fmt in ("k1", "bed"):
            out.append(f"c{num}\t{num}\t{int(num) + 5}\n")
        elif fmt == "bed6":
            # optional-int scores of DIFFERING widths and the '.' placeholder; runs of rows without '.' whose widths are 2,1,3,2:
            # totals that equal rows x (width of the first value) although the widths differ
            score = ['.', f"1{i % 10}", f"{i % 10}", f"1{i % 10}7", f"2{i % 10}"][i % 5] if i % 10 != 7 else str((7 + i) * 10 ** (i % 5))
            out.append(f"c{num}\t{num}\t{int(num) + 5}\tn{'x' * l}\t{score}\t{'+-'[i % 2]}\n")
        elif fmt == "bdg":
            # some values with 16-17 significant digits: parsing a row must not depend on the rows that share its buffer
            # … and exponent notation, leading dot, explicit sign: all valid float texts
            val = [f"{i}.5", f"{i}.5", "0.30000000000000004", f"{i + 1}23456.78901234567", "99999999.99999999",
                   f"{i + 1}.25e-1", f"{i + 1}e2", f"-{i}.5e+1", f".{i + 1}", f"+{i}.25"][(i + len(lens) + l) % 10]
            out.append(f"c{num}\t{num}\t{int(num) + 5}\t{val}\n")
        elif fmt == "bed12":
            blocks = ",".join(str(10 ** (l - 1) + j) for j in range(i % 3 + 1)) + ("," if i % 2 else "")
            out.append(f"c{num}\t{num}\t{int(num) + 5}\tn{i}\t{i}\t{'+-'[i % 2]}\t{num}\t{int(num) + 5}\t0,0,0\t{i % 3 + 1}\t{blocks}\t{blocks}\n")
        elif fmt == "narrowPeak":
            out.append(f"c{num}\t{num}\t{int(num) + 5}\tp{i}\t{[i, i * 100 + 5, '.', 10 ** i][i % 4]}\t.\t{i}.5\t-1\t-1\t{i}\n")
        elif fmt == "vcf":
            out.append(f"c{num}\t{num}\t.\t{_w(rng, l)}\t{_w(rng, 1)}\t.\tPASS\t.\n")
        elif fmt == "vcfinfo":     # INFO keys declared in the header: typed sub-columns (Integer, Float, Flag, String), some keys absent in some rows
            info = [f"DP={10 ** (i % 3) + i};AF=0.{i + 1}5;DB;NM=g{i}", f"AF={i}.5;DP={i}", f"DP={i + 7};NM=xy", f"DB;DP={i}00;AF=1e-{i % 3 + 1}"][i % 4]
            out.append(f"c{num}\t{num}\t.\t{_w(rng, l)}\t{_w(rng, 1)}\t.\tPASS\t{info}\n")
        elif fmt in ("vcfgt", "vcfpgt"):
            sep = "|" if fmt == "vcfpgt" or i % 2 else "/"
            out.append(f"c{num}\t{num}\t.\t{_w(rng, l)}\t{_w(rng, 1)}\t.\tPASS\t.\tGT\t0{sep}1\t{i % 2}{sep}{(i + 1) % 2}\n")
        elif fmt == "sam":
            tags = "\tNM:i:1" if i % 2 else ""
            out.append(f"r{num}\t0\tc1\t{num}\t60\t{l}M\t*\t0\t0\t{_w(rng, l)}\t{'I' * l}{tags}\n")
        elif fmt == "gtf":
            out.append(f"c{num}\tsrc\texon\t{num}\t{int(num) + 5}\t.\t+\t.\tgene_id \"g{i}\"; transcript_id \"t{i}\";\n")
        elif fmt in ("k4", "fastq"):
            z = 0 if l == 0 else l
            # quality lines that START with a marker character ('@' is Phred 31, '+' Phred 10): only the line's position says what it is
            qual = ('I' * z) if i % 3 == 0 or z == 0 else (['@', '+'][i % 2] + 'I' * (z - 1))
            out.append(f"@r{num if l else 'z%d' % i}\n{_w(rng, z)}\n+\n{qual}\n")
        elif fmt in ("k2", "fasta2line"):
            out.append(f">s{num if l else 'z%d' % i}\n{_w(rng, l)}\n")
        elif fmt.startswith("fasta"):
            width = int(fmt[5:] or 80) if fmt != "fasta" else 80
            if l == 0:        # a record WITHOUT any sequence line (only the empty-sequence cases ask for it)
                out.append(f">sz{i}\n")
                continue
            s = _w(rng, l)
            desc = "" if i % 3 else " c.76A>T p.(Arg26>Ter)"      # a '>' inside the description line (HGVS-style names)
            out.append(f">s{num}{desc}\n" + "".join(s[j:j + width] + "\n" for j in range(0, len(s), width)))
        else:
            raise ValueError(fmt)
    if fmt == "vcf":
        header = "##fileformat=VCFv4.2\n#CHROM\tPOS\tID\tREF\tALT\tQUAL\tFILTER\tINFO\n"
    if fmt == "vcfinfo":
        header = ("##fileformat=VCFv4.2\n##INFO=<ID=DP,Number=1,Type=Integer,Description=\"d\">\n##INFO=<ID=AF,Number=1,Type=Float,Description=\"a\">\n"
                  "##INFO=<ID=DB,Number=0,Type=Flag,Description=\"b\">\n##INFO=<ID=NM,Number=1,Type=String,Description=\"n\">\n"
                  "#CHROM\tPOS\tID\tREF\tALT\tQUAL\tFILTER\tINFO\n")
    if fmt in ("vcfgt", "vcfpgt"):
        header = "##fileformat=VCFv4.2\n#CHROM\tPOS\tID\tREF\tALT\tQUAL\tFILTER\tINFO\tFORMAT\tS0\tS1\n"
    if fmt == "sam" and n % 2 == 0:
        header = "@HD\tVN:1.0\n@SQ\tSN:c1\tLN:100000\n"
    return out, header


def _buffer_type(fmt):
    import bionumpy as bnp
    from bionumpy.io import delimited_buffers as db
    from bionumpy.io.one_line_buffer import TwoLineFastaBuffer
    from bionumpy.io.fastq_buffer import FastQBuffer
    from bionumpy.io.multiline_buffer import MultiLineFastaBuffer
    from bionumpy.io.vcf_buffers import VCFBuffer
    from bionumpy.io.buffers.sam import SAMBuffer
    if fmt in ("k1", "bed"):
        return db.BedBuffer, ".bed"
    if fmt == "bed6":
        return db.Bed6Buffer, ".bed"
    if fmt == "bdg":
        return db.BdgBuffer, ".bdg"
    if fmt == "bed12":
        return db.Bed12Buffer, ".bed"
    if fmt == "narrowPeak":
        return db.NarrowPeakBuffer, ".narrowPeak"
    if fmt in ("vcf", "vcfinfo"):
        return VCFBuffer, ".vcf"
    if fmt in ("vcfgt", "vcfpgt"):
        from bionumpy.io.vcf_buffers import VCFMatrixBuffer, PhasedVCFMatrixBuffer
        return (VCFMatrixBuffer if fmt == "vcfgt" else PhasedVCFMatrixBuffer), ".vcf"
    if fmt == "sam":
        return SAMBuffer, ".sam"
    if fmt == "gtf":
        return db.GTFBuffer, ".gtf"
    if fmt in ("k4", "fastq"):
        return FastQBuffer, ".fq"
    if fmt in ("k2", "fasta2line"):
        return TwoLineFastaBuffer, ".fa"
    if fmt.startswith("fasta"):
        return MultiLineFastaBuffer, ".fa"
    raise ValueError(fmt)


# ------------------------------------------------------------------ cases
def _file_grid(fmts, max_n, lens_set, rng):
    for fmt in fmts:
        for n in range(0, max_n + 1):
            for lens in (itertools.product(lens_set, repeat=min(n, 2)) if n else [()]):
                ents, header = make_entries(fmt, n, list(lens) or [1], rng)
                yield fmt, ents, header


def cases(tier, rng):
    big = tier in ("thorough", "widen")
    # --- byte level, every k, both modes, with/without final newline
    max_n = 4 if big else 3
    lens_set = (1, 2, 5) if big else (1, 3)
    for fmt, ents, header in _file_grid(["k1", "k2", "k4", "fasta", "fasta2", "fasta1"], max_n, lens_set, rng):
        real_fmt = "fasta" if fmt.startswith("fasta") else fmt
        if fmt in ("fasta2", "fasta1"):
            ents, header = make_entries(fmt, len(ents), [1, 3, 4], rng)
        text = "".join(ents)
        for nl in (True, False):
            t = text if nl else text[:-1]
            if not nl and not text:
                continue
            data = [ord(c) for c in t]
            longest = max([len(e) for e in ents] or [0])
            ks = range(1, len(data) + 3)
            if not big and len(data) > 40:
                ks = sorted(set(list(range(1, 12)) + [k for k in range(12, len(data) + 3) if len(data) % k in (0, 1) or k >= len(data) - 1]
                                + rng.sample(range(12, len(data) + 3), 6)))
            for k in ks:
                for mode in ("seek", "carry"):
                    yield {"op": "chunks", "fmt": real_fmt, "mode": mode, "file": data, "k": k, "longest": longest, "n": len(ents)}
                    # the same read with max_chunk_size (model: readAllCap; theorem capped_read)
                    if data and (big or rng.random() < 0.25):
                        cap = rng.choice([k, k + 1, longest, longest + 1, 2 * longest, len(data), len(data) + 2, rng.randint(1, len(data) + 3)])
                        if cap >= k:
                            yield {"op": "chunks", "fmt": real_fmt, "mode": mode, "file": data, "k": k, "cap": cap, "longest": longest, "n": len(ents)}
        yield {"op": "whole", "fmt": real_fmt, "file": [ord(c) for c in text[:-1]], "n": len(ents)}
    # --- random larger files, chunk sizes around divisors of the file length and entry boundaries
    for _ in range(300 if big else 60):
        fmt = rng.choice(["k1", "k2", "k4", "fasta"])
        n = rng.randint(3, 9)
        ents, _ = make_entries(fmt if fmt != "fasta" else "fasta" + str(rng.choice([1, 2, 3, 80])), n, [rng.choice([1, 2, 5, 9]) for _ in range(3)], rng)
        text = "".join(ents)
        if rng.random() < 0.5:
            text = text[:-1]
        L = len(text)
        bounds = list(itertools.accumulate(len(e) for e in ents))
        ks = {k for k in range(1, L + 3) if L % k == 0} | {b for b in bounds} | {b + 1 for b in bounds} | {max(1, b - 1) for b in bounds}
        for k in rng.sample(sorted(ks), min(len(ks), 10)):
            yield {"op": "chunks", "fmt": fmt, "mode": rng.choice(["seek", "carry"]), "file": [ord(c) for c in text], "k": k,
                   "longest": max(len(e) for e in ents), "n": n}
    # --- entry level, LONG fields (names / sequences far outside the small enumerated lengths: 100..300 characters)
    for _ in range(120 if big else 24):
        fmt = rng.choice(["bed6", "vcf", "sam", "gtf", "fastq", "fasta2line", "fasta", "fasta3", "fasta80"])
        n = rng.randint(2, 4)
        ents, header = make_entries(fmt if fmt != "fasta80" else "fasta", n, [rng.choice([2, 90, 130, 200, 300]) for _ in range(3)], rng)
        if rng.random() < 0.7:     # a long name / identifier as well
            k0 = rng.randrange(n)
            pad = "N" * rng.choice([100, 127, 128, 129, 200])
            e = ents[k0]
            ents[k0] = e[:2] + pad + e[2:] if e[0] in ">@" else pad + e
        body = "".join(ents)
        L = len(body)
        bounds = list(itertools.accumulate(len(e) for e in ents))
        ks = {128, L, L + 1} | set(bounds) | {b + 1 for b in bounds} | {max(1, b - 1) for b in bounds} | {max(1, L // 2), max(1, L // 3)}
        for k in rng.sample(sorted(ks), min(len(ks), 5)):
            for gz, nl, crlf, lazy in rng.sample(list(itertools.product((False, True), (True, False), (False, True), (True, False))), 3):
                yield {"op": "entries", "fmt": fmt if fmt != "fasta80" else "fasta", "header": header, "ents": ents, "gz": gz, "nl": nl, "crlf": crlf,
                       "lazy": lazy, "k": k, "longest": max(len(e) for e in ents) + 2}
    # --- entry level: formats x gz x nl x crlf x lazy x k
    fmts = ["bed", "bed6", "bed12", "bdg", "narrowPeak", "vcf", "vcfinfo", "vcfgt", "vcfpgt", "sam", "gtf", "fastq", "fasta2line", "fasta", "fasta3"]
    for fmt in fmts:
        for n in ((0, 1, 2, 3, 4) if big else (1, 2, 3)):
            lens_choices = list(itertools.product((1, 2, 5), repeat=min(n, 2))) if n else [()]
            if not big:
                lens_choices = rng.sample(lens_choices, min(2, len(lens_choices)))
            for lens in lens_choices:
                ents, header = make_entries(fmt, n, list(lens) or [1], rng)
                body = "".join(ents)
                if not body:
                    continue
                longest = max(len(e) for e in ents) + (2 if True else 0)
                L = len(body)
                combos = list(itertools.product((False, True), (True, False), (False, True), (True, False)))
                if not big:
                    must = [(False, False, True, True), (True, False, False, False)]   # (gz, nl, crlf, lazy): CRLF without terminator; gzip without newline
                    combos = must + rng.sample([x for x in combos if x not in must], 3)
                for gz, nl, crlf, lazy in combos:
                    all_ks = list(range(1, L + 3))
                    if big and L <= 60:
                        ks = all_ks
                    else:
                        cand = {k for k in all_ks if L % k == 0 or (L - 1) % k == 0} | set(range(1, 4)) | {L, L + 1, L + 2}
                        ks = rng.sample(sorted(cand), min(len(cand), 8 if big else 5))
                    for k in ks:
                        yield {"op": "entries", "fmt": fmt, "header": header, "ents": ents, "gz": gz, "nl": nl, "crlf": crlf,
                               "lazy": lazy, "k": k, "longest": longest, "keep": (k + len(ents)) % 2 == 0}

    # --- records with an EMPTY sequence (the file then holds blank lines, also at its very end)
    for fmt in ("fastq", "fasta2line"):
        for lens in ([0], [2, 0], [0, 3], [1, 0, 0], [0, 2, 0]):
            for n in ((1, 2, 3) if big else (len(lens),)):
                ents, header = make_entries(fmt, n, lens, rng)
                L = len("".join(ents))
                ks = list(range(1, L + 3)) if big else sorted(set(rng.sample(range(1, L + 3), min(6, L + 2)) + [L, L + 1, L - 1 or 1]))
                for k in ks:
                    for gz, nl, lazy in (itertools.product((False, True), (True, False), (True, False)) if big else [(rng.random() < 0.5, True, rng.random() < 0.5), (False, False, False)]):
                        yield {"op": "entries", "fmt": fmt, "header": header, "ents": ents, "gz": gz, "nl": nl, "crlf": False, "lazy": lazy, "k": k,
                               "longest": max(len(e) for e in ents) + 2}
    # --- wrapped FASTA whose records have 0, 1 and several sequence lines (line totals that "look like" another layout)
    for fmt in ("fasta2", "fasta3"):
        for lens in ([2, 0, 4], [0, 5, 0], [5, 0, 1], [0, 0, 6], [3, 0, 7, 0]):
            for n in ((len(lens), len(lens) + 2) if big else (len(lens),)):
                ents, header = make_entries(fmt, n, lens, rng)
                L = len("".join(ents))
                ks = list(range(1, L + 3)) if big else sorted(set(rng.sample(range(1, L + 3), min(8, L + 2)) + [L, L + 1]))
                for k in ks:
                    for gz, nl, lazy in (itertools.product((False, True), (True, False), (True, False)) if big else [(rng.random() < 0.5, True, rng.random() < 0.5), (False, False, False)]):
                        yield {"op": "entries", "fmt": "fasta", "header": header, "ents": ents, "gz": gz, "nl": nl, "crlf": False, "lazy": lazy, "k": k,
                               "longest": max(len(e) for e in ents) + 2}
    # --- bnp.count_entries = number of entries of the whole read (marker characters inside descriptions / quality lines included)
    for fmt in fmts:
        for n in ((1, 3, 6, 9) if big else (3, 7)):
            for lens in ([2, 5, 1], [5, 5, 5]):
                ents, header = make_entries(fmt, n, lens, rng)
                for gz in (False, True):
                    yield {"op": "entries", "fmt": fmt, "header": header, "ents": ents, "gz": gz, "nl": rng.random() < 0.7, "crlf": False, "lazy": False,
                           "k": 500000, "longest": max(len(e) for e in ents) + 2, "count": True}
    # --- the chunks joined as tables (np.concatenate), after a field of only some of them was looked at
    for fmt in fmts:
        for n in ((3, 5, 8) if big else (5,)):
            ents, header = make_entries(fmt, n, [2, 5], rng)
            bounds = list(itertools.accumulate(len(e) for e in ents))
            for k in (sorted(set(b + 1 for b in bounds[:-1])) if big else rng.sample(sorted(set(b + 1 for b in bounds[:-1])), 2)):
                for touched in ([], [0], [1], [0, 2], [0, 1, 2, 3, 4, 5, 6, 7]):
                    yield {"op": "entries", "fmt": fmt, "header": header, "ents": ents, "gz": rng.random() < 0.3, "nl": rng.random() < 0.7, "crlf": False,
                           "lazy": rng.random() < 0.7, "k": k, "longest": max(len(e) for e in ents) + 2, "npcat": touched, "touch": rng.randrange(6)}
                if fmt not in ("vcfgt", "vcfpgt"):
                    for drop in ("mask", "index"):
                        yield {"op": "entries", "fmt": fmt, "header": header, "ents": ents, "gz": rng.random() < 0.3, "nl": True, "crlf": False, "lazy": True,
                               "k": max(k, 2 * max(len(e) for e in ents) + 2), "longest": max(len(e) for e in ents) + 2, "npcat": [], "touch": 0, "drop": drop}
    # --- files larger than one chunk at the chunk sizes people actually use (1 MiB, the 5,000,000-byte default, 8 MiB, 16 MiB):
    #     buffers of earlier chunks must still be intact when they are looked at after later reads. Files above 4 MB are compared by
    #     a streaming checksum per column (data bytes and row lengths) instead of Python rows.
    for fmt in (("fastq", "bed6", "fasta") if big else (rng.choice(["fastq", "bed6"]),)):
        base, header = make_entries(fmt, 40, [90, 130, 200], rng)
        per = len("".join(base))
        sizes = ((1 << 20, 2_400_000), (5_000_000, 11_000_000), (1 << 23, 19_000_000), (1 << 24, 36_000_000)) if big else ((1 << 20, 2_400_000), (1 << 23, 19_000_000))
        for k, total in sizes:
            if total > 12_000_000 and fmt != "fastq":
                continue
            ents = base * (total // per + 1)
            for gz, lazy in (((False, False), (False, True), (True, False)) if (big and total < 12_000_000) else ((False, rng.random() < 0.5),)):
                yield {"op": "entries", "fmt": fmt, "header": header, "ents": ents, "gz": gz, "nl": True, "crlf": False, "lazy": lazy, "k": k,
                       "longest": max(len(e) for e in base) + 2, "keep": rng.random() < 0.5, "digest": total > 4_000_000}
    # --- the documented max_chunk_size keyword: the read may refuse (no complete entry within the cap) but a read that
    #     completes must still deliver every entry
    for fmt in fmts:
        for n in ((2, 3, 5) if big else (3,)):
            ents, header = make_entries(fmt, n, [2, 5], rng)
            L = len(header) + len("".join(ents))
            longest = max(len(e) for e in ents) + 2
            ks = sorted({1, 7, longest // 2 + 1, longest, longest + 3, L // 2 + 1})
            for k in (ks if big else rng.sample(ks, 3)):
                caps = sorted({k, k + 1, 2 * k, longest, longest + 1, 2 * longest, len(header) + longest + 2, L, L + 5, 100})
                for cap in (caps if big else rng.sample(caps, 4)):
                    if cap < k:
                        continue
                    yield {"op": "entries", "fmt": fmt, "header": header, "ents": ents, "gz": rng.random() < 0.4, "nl": rng.random() < 0.7, "crlf": False,
                           "lazy": rng.random() < 0.5, "k": k, "maxk": cap, "longest": longest}
    # --- two readers alive in one process: a second file is read in lockstep with, or previewed and abandoned before, the file under
    #     test (reader state must be per reader; a gzip reader keeps a left-over tail between reads)
    for fmt in fmts:
        for n in ((2, 3, 4) if big else (3,)):
            ents, header = make_entries(fmt, n, [2, 5], rng)
            L = len("".join(ents))
            fmt2 = rng.choice(["fasta", "bed", "fastq", fmt])
            ents2, header2 = make_entries(fmt2, 3, [5, 1], rng)
            L2 = len("".join(ents2))
            bounds = list(itertools.accumulate(len(e) for e in ents))
            cand = sorted({max(1, b - 1) for b in bounds} | {b + 1 for b in bounds} | {L // 2 + 1, L + 1} | set(range(len(ents[0]) + 2, len(ents[0]) + 6)))
            for k in (cand if big else rng.sample(cand, min(len(cand), 4))):
                for gz, gz2 in ((True, True), (True, False), (False, True)):
                    for mode in ("zip", "preview"):
                        yield {"op": "entries", "fmt": fmt, "header": header, "ents": ents, "gz": gz, "nl": rng.random() < 0.7, "crlf": False,
                               "lazy": rng.random() < 0.5, "k": k, "longest": max(len(e) for e in ents) + 2,
                               "other": {"fmt": fmt2, "header": header2, "ents": ents2, "gz": gz2, "mode": mode,
                                         "k": rng.choice([max(len(e) for e in ents2) + 3, L2 // 2 + 2])}}


def nontrivial(c):
    if c["op"] == "whole":
        return c["n"] >= 1
    if c["op"] == "chunks":
        return c["n"] >= 2 and c["k"] < len(c["file"])
    return len(c["ents"]) >= 2 and c["k"] < sum(len(e) for e in c["ents"])


# ------------------------------------------------------------------ implementation runners
def _raw(buff):
    d = buff.data
    d = d.raw() if hasattr(d, "raw") else d
    return [int(x) for x in np.asarray(d).ravel()]


def to_py(v):
    from bionumpy.encoded_array import EncodedArray, EncodedRaggedArray
    from npstructures import RaggedArray
    if dataclasses.is_dataclass(v) and hasattr(v, "shallow_tuple") or hasattr(v, "get_data_object"):
        return table_rows(v)
    if isinstance(v, EncodedRaggedArray):
        return [str(x) for x in v.tolist()]
    if isinstance(v, EncodedArray) and v.ndim == 2:
        return [v[i].to_string() for i in range(v.shape[0])]
    if isinstance(v, EncodedArray):
        return [chr(int(x)) if False else str(x) for x in v.tolist()] if v.ndim else str(v.tolist())
    if isinstance(v, RaggedArray):
        return [[_num(y) for y in row] for row in v.tolist()]
    if isinstance(v, np.ndarray):
        return [_num(x) if not isinstance(x, (list, np.ndarray)) else [_num(y) for y in np.asarray(x).ravel()] for x in v.tolist()] if v.dtype != object else [str(x) for x in v]
    if hasattr(v, "tolist"):
        r = v.tolist()
        return [x if isinstance(x, (int, str)) else (_num(x) if isinstance(x, float) else str(x)) for x in r]
    return str(v)


def _num(x):
    if isinstance(x, float):
        return x.hex()
    if isinstance(x, (bool, np.bool_)):
        return bool(x)
    if isinstance(x, (int, np.integer)):
        return int(x)
    return str(x)


def table_digest(t, state):
    """streaming checksum of every column of a table (raw data bytes and row lengths), composable over chunks"""
    import zlib
    from bionumpy.encoded_array import EncodedArray, EncodedRaggedArray
    from npstructures import RaggedArray
    if hasattr(t, "get_data_object"):
        t = t.get_data_object()
    for f in dataclasses.fields(t):
        v = getattr(t, f.name)
        d, l = state.setdefault(f.name, [0, 0])
        if isinstance(v, (EncodedRaggedArray, RaggedArray)):
            raw = v.ravel()
            raw = raw.raw() if hasattr(raw, "raw") else raw
            state[f.name][0] = zlib.crc32(np.ascontiguousarray(np.asarray(raw)).tobytes(), d)
            state[f.name][1] = zlib.crc32(np.ascontiguousarray(np.asarray(v.lengths, dtype=np.int64)).tobytes(), l)
        elif isinstance(v, np.ndarray) and v.dtype != object and v.ndim == 1:
            state[f.name][0] = zlib.crc32(np.ascontiguousarray(v).tobytes(), d)
        else:
            # padded / fixed-width text (identifiers): the width depends on the chunk, so hash the strings themselves
            items = v.tolist() if hasattr(v, "tolist") else to_py(v)
            state[f.name][0] = zlib.crc32(("\n".join(map(str, items)) + "\n").encode(), d)
    state["__n__"] = state.get("__n__", 0) + len(t)
    return state


def table_rows(t):
    if hasattr(t, "get_data_object"):
        t = t.get_data_object()
    cols = []
    for f in dataclasses.fields(t):
        cols.append(to_py(getattr(t, f.name)))
    n = len(t)
    return [[col[i] if isinstance(col, list) and len(col) == n else str(col) for col in cols] for i in range(n)]


def _errname(e):
    return "err:" + type(e).__name__


def impl(c):
    import bionumpy as bnp
    from bionumpy.io.parser import NumpyFileReader
    op = c["op"]
    if op in ("chunks", "whole"):
        bt, _ = _buffer_type(c["fmt"])
        fobj = io.BytesIO(bytes(c["file"]))
        try:
            r = NumpyFileReader(fobj, bt)
            if op == "whole":
                b = r.read()
                return {"data": _raw(b) if b is not None else []}
            if c["mode"] == "carry":
                r.set_prepend_mode()
            chunks, live = [], []
            for _ in range(len(c["file"]) + 5):
                b = r.read_chunk(min_chunk_size=c["k"], max_chunk_size=c["cap"]) if "cap" in c else r.read_chunk(min_chunk_size=c["k"])
                if b is None:
                    break
                raw = _raw(b)
                if not raw:
                    break
                chunks.append(raw)
                live.append(b)
            if c["k"] % 2 == 0 and [_raw(b) for b in live] != chunks:   # earlier buffers re-read after all reads
                return {"err": "err:ChunkChangedAfterLaterReads"}
            return {"chunks": chunks}
        except Exception as e:
            if "cap" in c:
                return {"err": "cap"}       # with max_chunk_size the read may refuse (whatever the wording of the error); the model decides WHEN
            return {"err": _errname(e)}
    if op == "entries":
        bt, suffix = _buffer_type(c["fmt"])
        text = c["header"] + "".join(c["ents"])
        if not c["nl"]:
            text = text[:-1]
        if c["crlf"]:
            text = text.replace("\n", "\r\n")
        path = os.path.join(_tmpdir(), f"f{os.getpid()}{suffix}" + (".gz" if c["gz"] else ""))
        with (gzip.open if c["gz"] else open)(path, "wb") as fh:
            fh.write(text.encode())
        if c.get("digest"):
            try:
                with bnp.open(path, buffer_type=bt, lazy=c["lazy"]) as f:
                    whole = table_digest(f.read(), {})
                st = {}
                with bnp.open(path, buffer_type=bt, lazy=c["lazy"]) as f:
                    if c.get("keep"):
                        for chunk in list(f.read_chunks(min_chunk_size=c["k"])):
                            table_digest(chunk, st)
                    else:
                        for chunk in f.read_chunks(min_chunk_size=c["k"]):
                            table_digest(chunk, st)
                return {"whole": whole, "chunked": st}
            except Exception as e:
                return {"whole": None, "err": _errname(e)}
        try:
            with bnp.open(path, buffer_type=bt, lazy=c["lazy"]) as f:
                whole = table_rows(f.read())
        except Exception as e:
            return {"whole_err": _errname(e)}
        if c.get("count"):
            # bnp.count_entries (its own loop over fixed 500000-byte chunks of the byte-level reader) must count the entries of the whole read
            try:
                return {"whole": len(whole), "chunked": int(bnp.count_entries(path, buffer_type=bt))}
            except Exception as e:
                return {"whole": len(whole), "err": _errname(e)}
        other = c.get("other")
        if other:
            bt2, suffix2 = _buffer_type(other["fmt"])
            path2 = os.path.join(_tmpdir(), f"g{os.getpid()}{suffix2}" + (".gz" if other["gz"] else ""))
            with (gzip.open if other["gz"] else open)(path2, "wb") as fh:
                fh.write((other["header"] + "".join(other["ents"]))[:-1].encode())
            try:
                rows = []
                f2 = bnp.open(path2, buffer_type=bt2)
                with bnp.open(path, buffer_type=bt, lazy=c["lazy"]) as f:
                    if other["mode"] == "preview":
                        f2.read_chunk(min_chunk_size=other["k"])       # look at the start of the other file, then leave it
                        for chunk in f.read_chunks(min_chunk_size=c["k"]):
                            rows += table_rows(chunk)
                    else:
                        for chunk, _ in itertools.zip_longest(f.read_chunks(min_chunk_size=c["k"]), f2.read_chunks(min_chunk_size=other["k"])):
                            if chunk is not None:
                                rows += table_rows(chunk)
                f2.close()
                return {"whole": whole, "chunked": rows}
            except Exception as e:
                return {"whole": whole, "err": _errname(e)}
        try:
            rows = []
            with bnp.open(path, buffer_type=bt, lazy=c["lazy"]) as f:
                if c.get("keep"):
                    # keep every chunk alive and look at them only after the whole file was read
                    # (a chunk must not change when later chunks are read)
                    chunks = list(f.read_chunks(min_chunk_size=c["k"]))
                    for chunk in chunks:
                        rows += table_rows(chunk)
                elif c.get("npcat") is not None:
                    # the chunks joined with np.concatenate (as tables) instead of row by row — after a field of SOME of the chunks
                    # was looked at (progress messages do that): the joined table must still hold every entry of every column
                    chunks = list(f.read_chunks(min_chunk_size=c["k"]))
                    for i in c["npcat"]:
                        if i < len(chunks):
                            fld = dataclasses.fields(chunks[i])
                            getattr(chunks[i], fld[c["touch"] % len(fld)].name)
                    if c.get("drop"):
                        # … and after SOME ROWS of every chunk but the last were selected away (filtering chunks before joining them):
                        # expected = the same rows taken from the chunks of a second, untouched reading of the file
                        keep = [[j for j in range(len(ch)) if (j + i) % 3 != 0] if i < len(chunks) - 1 else list(range(len(ch))) for i, ch in enumerate(chunks)]
                        with bnp.open(path, buffer_type=bt, lazy=c["lazy"]) as g:
                            fresh = [table_rows(ch) for ch in g.read_chunks(min_chunk_size=c["k"])]
                        whole = [fresh[i][j] for i in range(len(chunks)) for j in keep[i]]
                        chunks = [ch[np.array(kp, dtype=int)] if c["drop"] == "index" else ch[np.isin(np.arange(len(ch)), kp)] for ch, kp in zip(chunks, keep)]
                    try:
                        joined = np.concatenate(chunks) if len(chunks) > 1 else (chunks[0] if chunks else None)
                    except Exception:
                        joined = None          # tables of this format cannot be joined: fall back to the row-wise comparison
                    if joined is None:
                        for chunk in chunks:
                            rows += table_rows(chunk)
                    else:
                        rows = table_rows(joined)
                elif c.get("maxk"):
                    for chunk in f.read_chunks(min_chunk_size=c["k"], max_chunk_size=c["maxk"]):
                        rows += table_rows(chunk)
                else:
                    for chunk in f.read_chunks(min_chunk_size=c["k"]):
                        rows += table_rows(chunk)
            return {"whole": whole, "chunked": rows}
        except Exception as e:
            return {"whole": whole, "err": _errname(e)}


def oracle(c):
    if c["op"] == "chunks":
        f = c["file"]
        return {"flat": (f if (not f or f[-1] == 10) else f + [10])}
    if c["op"] == "whole":
        f = c["file"]
        return {"data": (f if (not f or f[-1] == 10) else f + [10])}
    return {"chunked_equals_whole": True}


def _too_small(c):
    return c["k"] < c["longest"] + 2


def agree(c, got, exp):
    if not isinstance(got, dict):
        return False
    if c["op"] == "whole":
        return got.get("data") == exp["data"]
    if c["op"] == "chunks":
        if "err" in got:
            return _too_small(c) or (got["err"] == "cap" and "cap" in c)     # a capped read may refuse; it must not complete otherwise
        ch = got["chunks"]
        return [b for x in ch for b in x] == exp["flat"] and all(len(x) > 0 for x in ch)
    if "whole_err" in got:
        return True   # whole read fails: not a file this library reads (C02's business)
    if "err" in got:
        return _too_small(c) or bool(c.get("maxk"))      # with a cap the read may refuse; it must not complete with other entries
    return got["chunked"] == got["whole"]


def agree_spec(c, sp, exp):
    if "cap" in c and isinstance(sp, dict) and sp.get("err") == "cap":
        return True        # whether a capped read refuses is the model's business (compared with the implementation exactly)
    return core.canon(sp) == core.canon(exp)


def finding_key(c, got, exp):
    if c["op"] == "entries":
        return f"entries:{c['fmt']}:{'gz' if c['gz'] else 'plain'}:{'crlf' if c['crlf'] else 'lf'}:{'lazy' if c['lazy'] else 'eager'}:" + ("error" if "err" in got else "differs")
    tail = "nl" if (c["file"] and c["file"][-1] == 10) else "no-final-newline"
    return f"{c['op']}:{c['fmt']}:{c.get('mode', '')}:{tail}:" + ("error" if isinstance(got, dict) and "err" in got else "lost-or-changed")


def tags(c, got):
    """input distribution recorded in the evidence"""
    t = ["fmt:" + c["fmt"], "op:" + c["op"]]
    if c["op"] == "entries":
        L = len(c["header"]) + sum(len(e) for e in c["ents"])
        t += ["gz" if c["gz"] else "plain", "final-newline" if c["nl"] else "no-final-newline", "crlf" if c["crlf"] else "lf",
              "lazy" if c["lazy"] else "eager", "entries:%s" % ("0" if not c["ents"] else "1" if len(c["ents"]) == 1 else "2-5" if len(c["ents"]) <= 5 else ">5"),
              "k:" + ("1" if c["k"] == 1 else "<longest-entry" if c["k"] < c["longest"] else "<file" if c["k"] < L else ">=file"),
              "size:" + ("<100B" if L < 100 else "<10kB" if L < 10000 else "<1MB" if L < 1 << 20 else ">=1MB")]
        if c.get("other"):
            t.append("two-readers:" + c["other"]["mode"])
        if c.get("maxk"):
            t.append("max_chunk_size")
        if c.get("keep"):
            t.append("chunks-kept-alive")
        if c.get("count"):
            t.append("count_entries")
        if c.get("npcat") is not None:
            t.append("chunks-joined-with-np.concatenate" + (":after-row-selection" if c.get("drop") else ""))
    else:
        L = len(c["file"])
        t += ["mode:" + c.get("mode", "-"), "final-newline" if (c["file"] and c["file"][-1] == 10) else "no-final-newline"]
        if "k" in c:
            t.append("k:" + ("1" if c["k"] == 1 else "divides-size" if L and L % c["k"] == 0 else "<file" if c["k"] < L else ">=file"))
        if "cap" in c:
            t.append("max_chunk_size")
    if isinstance(got, dict):
        t.append("outcome:" + ("error:" + str(got["err"]) if "err" in got else "whole-read-error" if "whole_err" in got else "completed"))
    return t
