"""C02 — parsed columns mean what the file format says the text means."""
import atexit
import itertools
import os
import re
import shutil
import tempfile

from .. import core
from ..core import SKIP

ID = "C02"
RULE = ("grammar-directed files per format (BED3/6/12, bedGraph, narrowPeak, chrom.sizes, GTF, GFF3 and wig-style bedGraph with "
        "interior comments, pairs, GFA S-lines, SAM with header and 0-3 optional tags, VCF without/with INFO header and 0-4 "
        "genotype columns in 5 buffer flavours, 2-line and wrapped FASTA, FASTQ): 1..N records, field widths 0..18 with "
        "single-character and very unequal widths inside one column, signed ints, '.' placeholders, trailing list commas, "
        "LF/CRLF x {final line terminated, unterminated, ended by a bare LF}, FORMAT sub-fields dropped per sample, floats "
        "without leading zero mixed with '.' missing, typed INFO key FAMILIES (names that are a proper prefix / suffix / case variant of one another or the value of a String key, part of the family undeclared), header/comment lines; two-file HISTORY cases in one process (same INFO "
        "IDs with other Type/Number, same header with another buffer flavour, same column names with other declared types; both "
        "orders); MULTI-STEP READING ROUTES on one reader (chunks with columns looked at on only some of them, joined by np.concatenate; read_chunk then read()); delimited tables with a column-name header line; GTF / GFF3 attribute lookups (gene_id, transcript_id, exon_number, "
        "... per feature type; keys that are the tail of a longer key, quoted values containing ';' / '=' / spaces, rows without the "
        "key); buffer-level row selection (masks, index lists, slices, empty selections) and np.concatenate of buffers before "
        "get_data; integers of up to 19 digits; text fields as arbitrary bytes: multi-byte UTF-8 characters (2-4 bytes), the format's comment "
        "character at the start of fields other than the first, other punctuation - in the FIRST record more often than not, with and "
        "without header lines; exhaustive width vectors {1,2,3,9}^(rows x 3 cols) for BED3 and chrom.sizes. "
        "Non-trivial = >= 2 rows with unequal widths in some column, or a sign / '.' / CRLF / comment line present")
EXHAUSTIVE = {"quick": False, "thorough": False}
MODEL_OPS = {"parse", "parse_x", "attrs"}   # "parse_x" (corpus): VCF flavours with typed INFO / genotype columns, same handling
PARALLEL = 16
ASSUMPTIONS = [
    "NumPy flatnonzero/reshape/fancy indexing and npstructures RaggedView slicing have their list-level meaning (modelled as positions/slices)",
    "files end with a newline except in the final-line variants generated here (last line unterminated, or ended by a bare LF in a CRLF file); chunked reading belongs to C01",
    "float columns: the value is compared with Python float(text) to relative 1e-12 (C18 owns the float conversion); the Lean model keeps float cells as text",
    "VCF INFO header parsing (vcf_header.parse_header) and INFO/genotype extraction are corresponded against the reference parser, only the key lookup / triplet code logic is modelled",
]
TRUSTED_EXTRA = ["reference parser in harness/props/c02.py (str.split based, written from the format definitions)"]

MANIFEST = {
    "text": "Lean 4 model of the delimiter/field-offset table (incl. the column-count validation), CR adjustment, right-aligned "
            "zero-filled digit matrix, right-padded identifier matrix, signed/optional ints, list columns, k-line roles, wrapped-FASTA "
            "seq_lens arithmetic, SAM rest-of-line column, VCF POS-1, typed INFO key lookup, genotype triplet codes, interior-comment "
            "removal. Unbounded theorems: parse_delimited (for every schema of the modelled column types and every LF file, or CRLF "
            "file whose last line may lack its CR, with one field per column: offset table + CR rule + typed extraction = reference parser, one entry per line), "
            "fieldTable_spec, digitMatrix_value (row independence), intColumn_spec (both code paths), typedColumn_spec, idColumn_spec, "
            "listColumn_spec, optIntColumn_spec, crAdjust_crlf, kline_roles, fasta_wrapped_join (records with any number of lines, none "
            "included), commentTable_spec (comment lines anywhere, with or without TABs, never become entries), sam_extra / "
            "sam_rows_spec (whole buffer: first 11 fields + rest of line = remaining fields joined by TAB), "
            "info_subfields_spec / info_lookup_partial / infoLookup_none_iff (fails exactly on a duplicated key), info_relatives_irrelevant / infoFlag_only_name / info_key_family (keys are compared by their whole name: in any row, removing the longer relatives DBX, DBSNP=.. of DB changes neither the lookup nor the flag of DB; a row of relatives only reads as DB absent), genotype_triplets (all 32 "
            "genotypes, int8 wrap included), fasta_seqLens, vcf_pos; characterisations in plain List/Nat terms: delimsFrom_mem_iff / "
            "delimsFrom_sorted (the delimiter array is exactly the increasing list of delimiter positions), splitOn_length, "
            "linesOf_length, chunkF_flatten_take (reshape only regroups), fieldTable_ok_iff (the table is built exactly for buffers whose "
            "lines all have the first line's field count), signedRow_eq_specInt (str_to_int = the standard signed reading on every "
            "non-empty text, rejections included; signedRow_empty pins the one difference), digitMatrixValues_ok_iff (accepted exactly when "
            "all bytes are digits), kline_roles_any (no whole-number-of-records hypothesis), crAdjust_crmode; GTF attribute scan: "
            "gtfScan_value / gtfScan_skip / gtfKeySuffix_example; refutations of the five shipped rules that were repaired (splitRowsOld, "
            "optIntColumnOld, commentTableOld, seqLensOld, gtfKeyOld). Per-format schemas, comment characters, k-line layout and "
            "coordinate shifts are re-extracted from the running package into Gen/C02.lean every run and checked against the "
            "documented formats by decide. Correspondence: real parser vs Lean model vs Lean spec vs pure-Python reference parser on "
            "grammar-generated files of 16 formats and 6 VCF buffer flavours (typed INFO and genotype columns, attribute lookups and row selections also in the model).",
    "note": "floats are compared by value to 1e-12 (conversion itself is C18) and stay text in the Lean model; the header-type "
            "dispatch of INFO keys and the flat-buffer index arithmetic of NamedBufferExtractor are corresponded (info_lookup_partial "
            "names the gap); chunked reading is C01's. Record markers, line offsets and interior-comment tolerance in Gen/C02.lean are observed on public behaviour "
            "(from_data / from_raw_buffer(...).get_data()), no private attribute of the package is read. GTF/GFF3 attribute lookup is "
            "modelled (gtfScan / gffAttr, op attrs); buffer row selection is modelled as pickRows before the typed extraction; "
            "np.concatenate of buffers and the column-name-header tables are implementation-vs-reference only. "
            "Driver-level theorem for the plain delimited family: parseFile_delimited_spec (parseFile = specParse with the selected rows, "
            "header skip, LF/CRLF, row selection; schema hypotheses discharged for the regenerated schemas by gen_delimited_family); "
            "genotype matrix reader tabulated into Gen.C02.gtTable (512 fields) and tied to the model by gen_genotype_table; "
            "genotype_accept_iff, strandColumn_ok_iff, shiftCol_others, parseDelimited_sel_out_of_range. SAM, k-line, FASTA, interior-comment "
            "and VCF-flavour whole-file parses remain correspondence only (audit/review-C01-C10.md). "
            "Twelve defects found and fixed (known_findings.json).",
    "technique": "Lean 4 proof over an executable model + schemas regenerated from source (decide) + differential correspondence with the implementation",
    "design": "§6 C02",
}

# ------------------------------------------------------------------ static format definitions (from the format documents)
# column kinds: id (identifier), str (verbatim text), int (unsigned decimal), sint (optionally signed), oint (int or missing),
# float, strand, ilist (comma separated ints, optional trailing comma)
BED3 = [("chromosome", "id"), ("start", "int"), ("stop", "int")]
BED6 = BED3 + [("name", "id"), ("score", "oint"), ("strand", "strand")]
BED12 = BED6 + [("thick_start", "int"), ("thick_end", "int"), ("item_rgb", "str"), ("block_count", "int"),
                ("block_sizes", "ilist"), ("block_starts", "ilist")]
GTF = [("chromosome", "id"), ("source", "str"), ("feature_type", "id"), ("start", "int"), ("stop", "int"),
       ("score", "str"), ("strand", "strand"), ("phase", "str"), ("atributes", "str")]
FORMATS = {
    "bed3": dict(suffix=".bed", bt="BedBuffer", cols=BED3, comment="#"),
    "bed6": dict(suffix=".bed", bt="Bed6Buffer", cols=BED6, comment="#"),
    "bed12": dict(suffix=".bed", bt="Bed12Buffer", cols=BED12, comment="#"),
    "bdg": dict(suffix=".bdg", bt="BdgBuffer", cols=BED3 + [("value", "float")], comment="#"),
    "narrowpeak": dict(suffix=".narrowPeak", bt="NarrowPeakBuffer",
                       cols=BED6 + [("signal_value", "float"), ("p_value", "float"), ("q_value", "float"), ("summit", "sint")], comment="#"),
    "sizes": dict(suffix=".sizes", bt="ChromosomeSizeBuffer", cols=[("name", "str"), ("size", "int")], comment="#"),
    "gtf": dict(suffix=".gtf", bt="GTFBuffer", cols=GTF, comment="#"),
    "gff": dict(suffix=".gff3", bt="GFFBuffer", cols=GTF, comment="#", interior=True),
    "wig": dict(suffix=".wig", bt="WigBuffer", cols=BED3 + [("value", "float")], comment="#", interior=True),
    "pairs": dict(suffix=".pairs", bt="PairsBuffer",
                  cols=[("read_id", "str"), ("chrom1", "id"), ("pos1", "int"), ("chrom2", "id"), ("pos2", "int"),
                        ("strand1", "strand"), ("strand2", "strand")], comment="#"),
    "sam": dict(suffix=".sam", bt="SAMBuffer",
                cols=[("name", "id"), ("flag", "int"), ("chromosome", "id"), ("position", "int"), ("mapq", "int"),
                      ("cigar", "str"), ("next_chromosome", "str"), ("next_position", "int"), ("length", "sint"),
                      ("sequence", "str"), ("quality", "str"), ("extra", "rest")], comment="@"),
    "gfa": dict(suffix=".gfa", bt="GfaSequenceBuffer", cols=[("name", "id"), ("sequence", "str")], comment="#"),
    "vcf": dict(suffix=".vcf", bt="VCFBuffer", comment="#"),
    # delimited buffers with a column-name header line (get_bufferclass_for_datatype(..., has_header=True)):
    # the same column names, declared with different types
    "csvi": dict(suffix=".tsv", bt="csvi", cols=[("name", "str"), ("size", "int")], comment="#", colheader=True),
    "csvs": dict(suffix=".tsv", bt="csvs", cols=[("name", "str"), ("size", "str")], comment="#", colheader=True),
    "fasta": dict(suffix=".fa", bt="MultiLineFastaBuffer"),
    "fasta2": dict(suffix=".fa", bt="TwoLineFastaBuffer"),
    "fastq": dict(suffix=".fq", bt="FastQBuffer"),
}
VCF_FIXED = [("chromosome", "id"), ("position", "int"), ("id", "str"), ("ref_seq", "str"), ("alt_seq", "str"),
             ("quality", "str"), ("filter", "str")]
VCF_FLAVOURS = ["VCFBuffer", "VCFWithInfoAsStringBuffer", "VCFBuffer2", "VCFMatrixBuffer", "PhasedVCFMatrixBuffer",
                "PhasedHaplotypeVCFMatrixBuffer"]

_TMP = None
_TMP_OWNER = None


def _tmproot():
    """one scratch directory per check run, created in the parent process (cases() runs there, before the worker pool
    is forked) and removed at its exit; forked workers use a sub-directory of it"""
    global _TMP, _TMP_OWNER
    if _TMP is None or not os.path.isdir(_TMP):
        _TMP = tempfile.mkdtemp(prefix="c02-")
        _TMP_OWNER = os.getpid()
        atexit.register(shutil.rmtree, _TMP, True)
    return _TMP


def _tmpdir():
    root = _tmproot()
    if os.getpid() == _TMP_OWNER:
        return root
    d = os.path.join(root, str(os.getpid()))
    os.makedirs(d, exist_ok=True)
    return d


_CSV = {}


def _csv_buffer(name):
    if name not in _CSV:
        from bionumpy.bnpdataclass import bnpdataclass
        from bionumpy.io.delimited_buffers import get_bufferclass_for_datatype

        if name == "csvi":
            @bnpdataclass
            class NameSize:
                name: str
                size: int
        else:
            @bnpdataclass
            class NameSize:
                name: str
                size: str
        _CSV[name] = get_bufferclass_for_datatype(NameSize, delimiter="\t", has_header=True)
    return _CSV[name]


def _buffer_type(name):
    if name in ("csvi", "csvs"):
        return _csv_buffer(name)
    import bionumpy as bnp
    from bionumpy.io import delimited_buffers as db, vcf_buffers as vb, one_line_buffer as ol
    from bionumpy.io import multiline_buffer as ml, fastq_buffer as fq, wig, pairs
    from bionumpy.io.buffers import sam
    for m in (db, vb, ol, ml, fq, wig, pairs, sam):
        if hasattr(m, name):
            return getattr(m, name)
    raise KeyError(name)


# ------------------------------------------------------------------ Gen: schemas tabulated from the running package

def _kind_of(t):
    import typing
    from bionumpy.typing import SequenceID
    from bionumpy.encodings import StrandEncoding, QualityEncoding
    from bionumpy.bnpdataclass import BNPDataClass
    if t is SequenceID:
        return "id"
    if t is str:
        return "str"
    if t is int:
        return "int"
    if t is float:
        return "float"
    if t is bool:
        return "bool"
    if t == typing.Optional[int]:
        return "oint"
    if t == typing.Optional[float]:
        return "ofloat"
    if t == typing.List[int]:
        return "ilist"
    if t == typing.List[float]:
        return "flist"
    if t == typing.List[str]:
        return "slist"
    if t is StrandEncoding:
        return "strand"
    if t is QualityEncoding:
        return "qual"
    if t == typing.Union[BNPDataClass, str]:
        return "info"
    return "other:" + re.sub(r"[^A-Za-z0-9_]", "_", str(t))[:40]


_PROBE_CELL = {"id": "c", "str": "s", "int": "7", "sint": "7", "oint": "7", "float": "1.5", "strand": "+", "ilist": "1,2",
               "rest": "NM:i:0"}


def _probe_interior(fmt, BT, comment):
    """does this buffer type accept a comment line between two records?  Observed on the public behaviour: two valid
    rows with a comment line in between parse to exactly two records (no private attribute is consulted)."""
    import numpy as np
    if not comment:
        return False
    F = FORMATS[fmt]
    def row(k):
        if fmt == "vcf":
            return f"c\t{7 + k}\t.\tA\tC\t.\t.\t."
        return "\t".join(str(7 + k) if kind == "int" else _PROBE_CELL[kind] for _, kind in F["cols"])
    text = row(0) + "\n" + chr(comment) + "x\n" + row(1) + "\n"
    try:                                           # (logging is silenced by regenerate())
        d = BT.from_raw_buffer(np.frombuffer(text.encode(), dtype=np.uint8)).get_data()
        return len(d) == 2
    except Exception:
        return False


def _probe_kline(BT, nl):
    """record marker and per-line offsets (bytes of line i that are not part of the field read from it) of a k-line
    format, observed through the public interface: one record is written with `from_data`, its first byte is the
    marker; the same record is read back with `from_raw_buffer(...).get_data()` and each text field is located as a
    suffix of its line."""
    import dataclasses
    import numpy as np
    dc = BT.dataclass
    vals = {"name": ["nm"], "sequence": ["ACGT"], "quality": [[40, 40, 40, 40]]}
    e = dc(*[vals[f.name] for f in dataclasses.fields(dc)])
    raw = bytes(BT.from_data(e).raw())
    marker = raw[0]
    if not nl or nl <= 1:
        return marker, []
    lines = raw.decode("latin1").split("\n")[:nl]
    d = BT.from_raw_buffer(np.frombuffer(raw, dtype=np.uint8)).get_data()
    texts = []
    for f in dataclasses.fields(d):
        v = _canon_col(getattr(d, f.name))[0]
        if isinstance(v, list) and all(isinstance(x, str) for x in v):
            texts.append("".join(v))
        elif isinstance(v, str):
            texts.append(v)
    offs = []
    for ln in lines:
        m = [len(ln) - len(t) for t in texts if t and ln.endswith(t)]
        offs.append(min(m) if m else 0)
    return marker, offs


def tabulate():
    import dataclasses
    import numpy as np
    out = {}
    for fmt, F in FORMATS.items():
        if F.get("colheader"):
            continue
        BT = _buffer_type(F["bt"])
        dc = BT.dataclass
        cols = [(f.name, _kind_of(f.type)) for f in dataclasses.fields(dc)]
        delim = getattr(BT, "DELIMITER", None)
        comment = getattr(BT, "COMMENT", 0)
        comment = ord(comment) if isinstance(comment, str) and comment else int(comment or 0)
        nl = getattr(BT, "n_lines_per_entry", 0)
        if F.get("cols") is None and fmt != "vcf":
            marker, offs = _probe_kline(BT, nl)
        else:
            marker, offs = 0, []
        out[fmt] = dict(cols=cols, delim=ord(delim) if isinstance(delim, str) else 0, comment=comment,
                        lines=int(nl or 0), offsets=[int(o) for o in offs], marker=int(marker),
                        interior=_probe_interior(fmt, BT, comment))
    # behavioural constants: VCF position shift, SAM/BED/GTF shift (must be 0), FASTA writer width
    def first_int(BT, text, field):
        b = BT.from_raw_buffer(np.frombuffer(text.encode(), dtype=np.uint8))
        return int(getattr(b.get_data(), field)[0])
    consts = {
        "vcfPosShift": first_int(_buffer_type("VCFBuffer"), "c\t7\t.\tA\tC\t.\t.\t.\n", "position") - 7,
        "bedStartShift": first_int(_buffer_type("BedBuffer"), "c\t7\t9\n", "start") - 7,
        "samPosShift": first_int(_buffer_type("SAMBuffer"), "r\t0\tc\t7\t0\t1M\t*\t0\t0\tA\tI\n", "position") - 7,
        "gtfStartShift": first_int(_buffer_type("GTFBuffer"), "c\ts\tf\t7\t9\t.\t+\t.\ta\n", "start") - 7,
        "fastaLineWidth": int(_buffer_type("MultiLineFastaBuffer").n_characters_per_line),
    }
    return out, consts


GT_PROBE_SYMBOLS = "0123.|/A"


def tabulate_genotypes():
    """what the genotype-matrix reader shows for EVERY three-byte sample field over `GT_PROBE_SYMBOLS` (alleles inside
    and outside the supported alphabet, both separators, a letter) - [] when the field is rejected -, observed by parsing
    one one-record VCF text per field through the public buffer type"""
    import itertools
    import numpy as np
    BT = _buffer_type("VCFMatrixBuffer")
    trip = ["".join(t) for t in itertools.product(GT_PROBE_SYMBOLS, repeat=3)]
    out = []
    for t in trip:
        body = f"c\t1\t.\tA\tC\t.\t.\t.\tGT\t{t}\n"
        try:
            d = BT.from_raw_buffer(np.frombuffer(body.encode(), dtype=np.uint8)).get_data()
            got = _canon_col(d.genotypes)
            assert len(got) == 1 and len(got[0]) == 1
            shown = [ord(ch) for ch in got[0][0]]
        except AssertionError:
            raise
        except Exception:
            shown = []                                   # the field is rejected
        out.append(([ord(ch) for ch in t], shown))
    return out


def regenerate():
    import logging
    logging.disable(logging.CRITICAL)      # the VCF probes make the package log "No header data found ..."
    try:
        tabs, consts = tabulate()
        gts = tabulate_genotypes()
    finally:
        logging.disable(logging.NOTSET)
    o = ["import BnpVerif.Model.C02",
         "/-! GENERATED on every run by harness/props/c02.py from the package imported from /repo: per-format column",
         "schemas (dataclasses.fields of each buffer type's dataclass), delimiter, comment character, k-line layout, record",
         "marker, and behaviourally measured coordinate shifts. Do not edit. -/",
         "namespace Gen.C02", "open _root_.C02", ""]
    for fmt, T in tabs.items():
        cols = ", ".join(f'("{n}", "{k}")' for n, k in T["cols"])
        o.append(f"def {fmt} : Schema := {{\n  cols := [{cols}],\n  delim := {T['delim']}, comment := {T['comment']}, "
                 f"linesPerEntry := {T['lines']}, lineOffsets := {T['offsets']}, marker := {T['marker']}, "
                 f"interiorComments := {'true' if T['interior'] else 'false'} }}\n")
    o.append("def all : List (String × Schema) := [" + ", ".join(f'("{f}", {f})' for f in tabs) + "]\n")
    for k, v in consts.items():
        o.append(f"def {k} : Int := {v}")
    o.append("\n/-- genotype matrix reader: (sample field, what the reader shows for it; [] = rejected) for every three-byte field over "
             f"{GT_PROBE_SYMBOLS!r} -/")
    o.append("def gtTable : List (List Nat × List Nat) := [" + ", ".join(f"({a}, {b})" for a, b in gts) + "]")
    o.append("\nend Gen.C02\n")
    return [("BnpVerif/Gen/C02.lean", "\n".join(o))]


# ------------------------------------------------------------------ generators
IDCH = "ABCXYZabcxyz0123456789_.-"
TXCH = IDCH + " ;=:\"/|*,+"
WIDTHS = [1, 1, 1, 2, 2, 3, 3, 5, 9, 18, 19]


def g_ident(rng, w=None):
    w = w or rng.choice(WIDTHS)
    s = "".join(rng.choice(IDCH) for _ in range(w))
    return s


def g_text(rng, allow_empty=True):
    w = rng.choice([0] + WIDTHS) if allow_empty and rng.random() < 0.15 else rng.choice(WIDTHS)
    s = "".join(rng.choice(TXCH) for _ in range(w))
    return s


def g_uint(rng, w=None, lead0=True):
    w = w or rng.choice(WIDTHS)
    if w == 1:
        return rng.choice("0123456789")
    if w >= 19:                          # the largest values an int64 column can hold
        return str(rng.choice([2 ** 63 - 1, 10 ** 18, 10 ** 18 + 1, rng.randrange(10 ** 18, 2 ** 63)]))
    if lead0 and rng.random() < 0.05:
        return "".join(rng.choice("0123456789") for _ in range(w))
    if rng.random() < 0.25:   # powers of ten and their neighbours
        return rng.choice(["1" + "0" * (w - 1), "9" * w])
    return rng.choice("123456789") + "".join(rng.choice("0123456789") for _ in range(w - 1))


def g_sint(rng, signs=True):
    u = g_uint(rng)
    if not signs:
        return u
    r = rng.random()
    return "-" + u if r < 0.35 else ("+" + u if r < 0.45 else u)


def g_float(rng):
    r = rng.random()
    sign = "-" if rng.random() < 0.25 else ("+" if rng.random() < 0.05 else "")
    if rng.random() < 0.15:                  # no leading zero: valid in the VCF / C float grammar
        return sign + "." + "".join(rng.choice("0123456789") for _ in range(rng.choice([1, 1, 2, 3])))
    if r < 0.2:
        return sign + g_uint(rng, rng.choice([1, 2, 3, 5]), lead0=False)
    if r < 0.75:
        return sign + g_uint(rng, rng.choice([1, 1, 2, 3, 6]), lead0=False) + "." + "".join(rng.choice("0123456789") for _ in range(rng.choice([1, 1, 2, 3, 6])))
    mant = rng.choice("123456789") + ("." + "".join(rng.choice("0123456789") for _ in range(rng.choice([1, 2, 5]))) if rng.random() < 0.8 else "")
    return sign + mant + "e" + rng.choice(["", "-", "+"]) + rng.choice(["0", "1", "05", "10", "3"])


def g_ilist(rng, trailing):
    k = rng.choice([1, 1, 2, 3, 5])
    s = ",".join(g_uint(rng, rng.choice([1, 1, 2, 3, 9])) for _ in range(k))
    return s + ("," if trailing else "")


def g_seq(rng, alphabet="ACGTNacgtn", allow_empty=False):
    n = rng.choice(([0] if allow_empty else []) + [1, 1, 2, 3, 5, 9, 30])
    return "".join(rng.choice(alphabet) for _ in range(n))


def g_cell(rng, kind, mode):
    if kind == "id":
        return g_ident(rng)
    if kind == "str":
        return g_text(rng)
    if kind == "int":
        return g_uint(rng)
    if kind == "sint":
        return g_sint(rng, mode.get("signs", True))
    if kind == "oint":
        m = mode["oint"]
        if m == "alldot" or (m == "mixed" and rng.random() < 0.4):
            return "."
        return g_sint(rng, mode.get("signs", True)) if m != "plain" else g_uint(rng)
    if kind == "float":
        return g_float(rng)
    if kind == "strand":
        return rng.choice("+-.")
    if kind == "ilist":
        m = mode["trail"]
        return g_ilist(rng, m == "all" or (m == "mixed" and rng.random() < 0.5))
    raise KeyError(kind)


def g_gtf_attr(rng):
    keys = ["gene_id", "transcript_id", "exon_number", "gene_name", "tag"]
    items = [f'{k} "{g_ident(rng, rng.choice([1, 2, 5, 9]))}";' for k in rng.sample(keys, rng.choice([1, 2, 3, 5]))]
    return " ".join(items)


def g_gff3_attr(rng):
    keys = ["ID", "Name", "Parent", "Dbxref", "Note", "Alias"]
    def val():
        v = g_ident(rng, rng.choice([1, 2, 5, 9]))
        if rng.random() < 0.2:
            v += rng.choice(["%3B", "%2C", "%3D", "%09", ",x", ":y"])
        return v
    return ";".join(f"{k}={val()}" for k in rng.sample(keys, rng.choice([1, 2, 3, 6])))


# multi-byte UTF-8 characters as the bytes they are in a file (2, 3 and 4 bytes per character), written here as the
# latin-1 reading of those bytes: the case text is a byte string in latin-1 clothing throughout this module
NONASCII = [ch.encode("utf-8").decode("latin1") for ch in ("\u00e9", "\u00fc", "\u00df", "\u00b5", "\u03a9", "\u4e2d", "\u2014",
                                                           "\U0001F600", "\u00f1\u00e9")]
PUNCT = "#@%&()!?~<>[]{}'^$`\\"


def spice(rng, fmt, lines, p=0.3):
    """text fields are arbitrary bytes: with probability p one text field of one record (the FIRST record more often
    than not) gets (a) a multi-byte UTF-8 character somewhere, (b) the format's comment character as its first byte
    (never in the first field: that would make the line a comment), or (c) other punctuation somewhere"""
    F = FORMATS[fmt]
    cm = F.get("comment") or ""
    data = [i for i, l in enumerate(lines) if l and not (cm and l.startswith(cm))]
    if not data or rng.random() >= p:
        return lines
    if fmt == "vcf":
        kinds = [k for _, k in VCF_FIXED] + ["str"]
        if any(l.startswith("##INFO") for l in lines):
            kinds[7] = "typed"
    else:
        kinds = [k for _, k in F["cols"]]
        if fmt == "gfa":
            kinds = ["type"] + kinds
    i = data[0] if rng.random() < 0.6 else rng.choice(data)
    f = lines[i].split("\t")
    tcols = [j for j, k in enumerate(kinds) if k in ("id", "str", "rest") and j < len(f)]
    if not tcols:
        return lines
    what = rng.choice(["nonascii", "nonascii", "comment-start", "punct"])
    if what == "comment-start":
        later = [j for j in tcols if j >= 1]
        if not later or not cm:
            return lines
        for j in rng.sample(later, rng.choice([1, 1, min(2, len(later))])):
            f[j] = cm + f[j]
    else:
        j = rng.choice(tcols)
        pos = rng.randrange(len(f[j]) + 1)
        ins = rng.choice(NONASCII) if what == "nonascii" else rng.choice(PUNCT)
        if j == 0 and pos == 0 and cm and ins.startswith(cm):
            pos = len(f[j])
        if j == 0 and pos == 0 and fmt == "sam" and ins == "@":
            pos = len(f[j])
        f[j] = f[j][:pos] + ins + f[j][pos:]
    out = list(lines)
    out[i] = "\t".join(f)
    return out


def g_rows(rng, big):
    return rng.choice([1, 1, 2, 2, 3, 3, 4, 6] + ([10, 25] if big else []))


def g_comments(rng, ch, n, tabs=False):
    out = []
    for _ in range(n):
        t = ch + g_text(rng)
        if tabs and rng.random() < 0.4:      # e.g. a commented-out record
            t += "\t" + "\t".join(g_ident(rng) for _ in range(rng.choice([1, 2, 8])))
        out.append(t)
    return out


def g_delimited(rng, fmt, big):
    F = FORMATS[fmt]
    mode = {"oint": rng.choice(["plain", "plain", "signed", "alldot", "mixed"]), "trail": rng.choice(["none", "none", "all", "mixed"]),
            "signs": rng.random() < 0.6}
    n = g_rows(rng, big)
    rows = [[g_cell(rng, k, mode) for _, k in F["cols"]] for _ in range(n)]
    if fmt in ("gtf", "gff") and rng.random() < 0.7:     # real-looking feature lines
        for r in rows:
            r[2] = rng.choice(["gene", "transcript", "exon", "CDS", "mRNA", "five_prime_UTR"])
            r[5] = rng.choice([".", g_float(rng), g_uint(rng, 2)])
            r[7] = rng.choice([".", "0", "1", "2"])
            r[8] = g_gtf_attr(rng) if fmt == "gtf" else g_gff3_attr(rng)
    if fmt == "pairs" and rng.random() < 0.5:
        head_pairs = ["## pairs format v1.0", "#sorted: chr1-chr2-pos1-pos2", "#chromsize: chr1 1000",
                      "#columns: readID chr1 pos1 chr2 pos2 strand1 strand2"]
    else:
        head_pairs = []
    lines = ["\t".join(r) for r in rows]
    head = head_pairs or g_comments(rng, F["comment"], rng.choice([0, 0, 1, 2]))
    if fmt == "gff" and rng.random() < 0.5:
        head = ["##gff-version 3", "##sequence-region chr1 1 " + g_uint(rng, 5)] + head
    if F.get("interior"):
        out = []
        for l in lines:
            out.append(l)
            if fmt == "gff" and rng.random() < 0.1:
                out.append("###")
            if rng.random() < 0.35:
                out += g_comments(rng, F["comment"], rng.choice([1, 1, 2]), tabs=True)
        lines = out
        if rng.random() < 0.3 and lines and not head:      # comment directly before the first record is header
            pass
    return head + lines


def g_sam(rng, big):
    n = g_rows(rng, big)
    head = []
    if rng.random() < 0.6:
        head = ["@HD\tVN:1.6\tSO:unsorted"] + ["@SQ\tSN:" + g_ident(rng) + "\tLN:" + g_uint(rng, 5) for _ in range(rng.choice([0, 1, 2]))]
    tagmode = rng.choice(["none", "some", "all"])
    lines = []
    for _ in range(n):
        seq = g_seq(rng, "ACGTN") if rng.random() < 0.9 else "*"
        qual = "".join(chr(rng.randrange(33, 127)) for _ in seq) if (seq != "*" and rng.random() < 0.8) else "*"
        f = [g_ident(rng), g_uint(rng, rng.choice([1, 2, 3, 4])), rng.choice([g_ident(rng), "*"]), g_uint(rng), g_uint(rng, rng.choice([1, 2, 3])),
             rng.choice(["*", "4M", "10M2I3D7M", "100M"]), rng.choice(["*", "=", g_ident(rng)]), g_uint(rng), g_sint(rng), seq, qual]
        k = 0 if tagmode == "none" else (rng.choice([0, 1, 2, 3]) if tagmode == "some" else rng.choice([1, 2, 3]))
        f += [rng.choice(["NM:i:", "AS:i:", "XS:A:", "MD:Z:", "RG:Z:"]) + g_ident(rng, rng.choice([1, 2, 5])) for _ in range(k)]
        lines.append("\t".join(f))
    return head + lines


INFO_DEFS = [("DP", "1", "Integer"), ("AF", "A", "Float"), ("DB", "0", "Flag"), ("AC", ".", "Integer"), ("NS", "1", "Integer"),
             ("SV", "1", "String"), ("H2", "0", "Flag"), ("MQ", "1", "Float"), ("CI", "2", "Integer"), ("AA", "1", "String")]


def g_vcf(rng, big, flavour, defs=None, ns=None):
    n = g_rows(rng, big)
    with_info_hdr = rng.random() < 0.7
    if flavour in ("VCFMatrixBuffer", "PhasedVCFMatrixBuffer", "PhasedHaplotypeVCFMatrixBuffer"):
        ns = rng.choice([1, 2, 3, 4]) if ns is None else max(1, ns)
    elif flavour == "VCFBuffer2":
        ns = rng.choice([0, 1, 2, 3, 4]) if ns is None else ns
    else:
        ns0 = rng.choice([0, 0, 1, 2])
        ns = ns0 if ns is None else ns
    if defs is None:
        defs = rng.sample(INFO_DEFS, rng.choice([1, 2, 3, 5])) if with_info_hdr else []
    head = ["##fileformat=VCFv4.2"]
    if rng.random() < 0.5:
        head.append("##contig=<ID=chr1,length=1000>")
    # the other kinds of header lines: structured (FILTER/ALT/FORMAT/contig with extra keys) and free key=value lines
    for extra in rng.sample(['##FILTER=<ID=q10,Description="Quality below 10">', '##FILTER=<ID=s50,Description="Less than 50% of samples">',
                             '##ALT=<ID=DEL,Description="Deletion">', '##source=c02-' + g_ident(rng, 3), "##reference=file:///ref.fa",
                             "##fileDate=20260927", '##contig=<ID=chr2,length=500,assembly=b37,md5=f1,species="Homo sapiens">',
                             "##bcftools_viewCommand=view -h x.vcf", "##phasing=partial"], rng.choice([0, 0, 1, 2, 4])):
        head.append(extra)
    for k, num, t in defs:
        head.append(f'##INFO=<ID={k},Number={num},Type={t},Description="{g_ident(rng)} {g_ident(rng)}">')
    if ns:
        head.append('##FORMAT=<ID=GT,Number=1,Type=String,Description="Genotype">')
        if rng.random() < 0.5:
            head.append('##FORMAT=<ID=DP,Number=1,Type=Integer,Description="Read Depth">')
            head.append('##FORMAT=<ID=PL,Number=G,Type=Integer,Description="Likelihoods">')
    cols = "#CHROM POS ID REF ALT QUAL FILTER INFO".split() + (["FORMAT"] + [f"s{i}" for i in range(ns)] if ns else [])
    head.append("\t".join(cols))
    extra_fmt = ns and rng.random() < 0.5 and flavour != "PhasedVCFMatrixBuffer"
    fmt_keys = rng.choice([["DP"], ["DP", "GQ"], ["DP", "GQ", "PL"]]) if extra_fmt else []
    lines = []
    dotmode = rng.choice(["none", "none", "some"])
    for _ in range(n):
        f = [g_ident(rng), g_uint(rng, lead0=False) if rng.random() < 0.9 else "1", rng.choice([".", "rs" + g_uint(rng, 3)]),
             g_seq(rng, "ACGT"), rng.choice([g_seq(rng, "ACGT"), g_seq(rng, "ACGT") + "," + g_seq(rng, "ACGT"), "."]),
             rng.choice([".", g_uint(rng, 2), g_float(rng)]), rng.choice([".", "PASS", "q10;s50"])]
        if f[1] == "0":
            f[1] = "1"
        if defs:
            items = []
            for k, num, t in rng.sample(defs, rng.randrange(0, len(defs) + 1)):
                if t == "Flag":
                    items.append(k)
                    continue
                cnt = 1 if num == "1" else (2 if num == "2" else rng.choice([1, 2, 3]))
                def one():
                    if dotmode == "some" and t != "String" and rng.random() < 0.3:
                        return "."
                    if t == "Float" and rng.random() < 0.35:
                        return rng.choice([".5", "-.5", "0.5", ".125", "+.25", "5", ".0"])
                    return g_uint(rng, rng.choice([1, 2, 3, 9])) if t == "Integer" else (g_float(rng) if t == "Float" else g_ident(rng))
                items.append(k + "=" + ",".join(one() for _ in range(cnt)))
            f.append(";".join(items) if items else ".")
        else:
            f.append(rng.choice([".", "DP=" + g_uint(rng, 2), "DP=3;AF=0.5;DB"]))
        if ns:
            f.append(":".join(["GT"] + fmt_keys))
            for _ in range(ns):
                if flavour == "PhasedVCFMatrixBuffer":
                    gt = rng.choice("01") + "|" + rng.choice("01")
                elif flavour == "PhasedHaplotypeVCFMatrixBuffer":
                    gt = rng.choice("01234.") + "|" + rng.choice("01234.")
                elif flavour == "VCFBuffer2" and rng.random() < 0.25:
                    gt = rng.choice(["0", "1", ".", "0/1/2", "10|2"])      # haploid / polyploid / two-digit allele calls
                else:
                    gt = rng.choice("012.") + rng.choice("|/") + rng.choice("012.")
                # trailing sub-fields may be dropped per sample (VCF 1.4.2): a bare genotype next to a full one
                keep = rng.choice([0, len(fmt_keys), len(fmt_keys), rng.randrange(0, len(fmt_keys) + 1)]) if fmt_keys else 0
                f.append(":".join([gt] + [g_uint(rng, rng.choice([1, 2, 3])) if k != "PL" else "0,10,100" for k in fmt_keys[:keep]]))
        lines.append("\t".join(f))
    return head + lines


def g_fasta(rng, big, twoline):
    n = g_rows(rng, big)
    W = 10 ** 9 if twoline else rng.choice([1, 2, 3, 5, 7, 60])
    lines = []
    for _ in range(n):
        name = g_ident(rng) + (" " + g_text(rng, False).replace("\t", " ").strip() if rng.random() < 0.3 else "")
        L = rng.choice([1, 2, 3, W - 1, W, W + 1, 2 * W - 1, 2 * W, 2 * W + 1, 3 * W]) if not twoline else rng.choice([1, 2, 5, 30, 100])
        L = max(1, min(L, 200))
        if rng.random() < 0.08:
            L = 0                            # a record without sequence lines
        s = "".join(rng.choice("ACGTNacgtn") for _ in range(L))
        lines.append(">" + name.rstrip())
        lines += [s[i:i + W] for i in range(0, L, W)] if not twoline else [s]
    return lines


def g_fastq(rng, big):
    n = g_rows(rng, big)
    lines = []
    for _ in range(n):
        name = g_ident(rng) + (" " + g_ident(rng) if rng.random() < 0.3 else "")
        s = g_seq(rng, "ACGTN", allow_empty=rng.random() < 0.3)
        q = "".join(chr(rng.randrange(33, 127)) for _ in s)
        lines += ["@" + name, s, "+" + (name if rng.random() < 0.3 else ""), q]
    return lines


def g_colheader(rng, fmt, big):
    n = g_rows(rng, big)
    kinds = [k for _, k in FORMATS[fmt]["cols"]]
    mode = {"oint": "plain", "trail": "none", "signs": True}
    return ["\t".join(nm for nm, _ in FORMATS[fmt]["cols"])] + ["\t".join(g_cell(rng, k, mode) for k in kinds) for _ in range(n)]


def g_vcf_many_alleles(rng, flavour):
    """valid VCF records whose sample genotypes lie partly OUTSIDE the subset the genotype-matrix buffer type supports:
    allele numbers above 2 (above 1 / above 4 for the phased flavours), unphased or missing calls for the phased ones"""
    head = ["##fileformat=VCFv4.2", "#CHROM\tPOS\tID\tREF\tALT\tQUAL\tFILTER\tINFO\tFORMAT\ts1\ts2"]
    inside, outside, seps, badseps = {"VCFMatrixBuffer": ("012.", "3459", "|/", ""),
                                      "PhasedVCFMatrixBuffer": ("01", "23.", "|", "/"),
                                      "PhasedHaplotypeVCFMatrixBuffer": ("01234.", "5678", "|", "")}[flavour]
    rows = []
    n = rng.choice([1, 2, 3])
    bad_row, bad_col = rng.randrange(n), rng.randrange(2)
    for i in range(n):
        gts = [rng.choice(inside) + rng.choice(seps) + rng.choice(inside) for _ in range(2)]
        if i == bad_row:
            g = gts[bad_col]
            k = rng.choice([0, 2] + ([1] if badseps else []))
            gts[bad_col] = g[:k] + (rng.choice(badseps) if k == 1 else rng.choice(outside)) + g[k + 1:]
        rows.append(f"c\t{rng.randrange(1, 10 ** 6)}\t.\tA\tC,G,T,AA,AC,AG,AT,CA,CC\t.\t.\t.\tGT\t" + "\t".join(gts))
    return head + rows


def g_vcf_optional_focus(rng):
    """typed scalar INFO keys (Optional[float] / Optional[int]) whose column mixes: no leading zero ('.5', '-.5'),
    a lone '.' (missing), the key absent, ordinary values — at least two rows"""
    head = ["##fileformat=VCFv4.2",
            '##INFO=<ID=MQ,Number=1,Type=Float,Description="m q">',
            '##INFO=<ID=DP,Number=1,Type=Integer,Description="d p">',
            '##INFO=<ID=AF,Number=A,Type=Float,Description="a f">',
            "#CHROM\tPOS\tID\tREF\tALT\tQUAL\tFILTER\tINFO"]
    lines = []
    for _ in range(rng.choice([2, 3, 4, 6])):
        items = []
        r = rng.random()
        if r < 0.85:
            items.append("MQ=" + rng.choice([".5", "-.5", "0.5", ".125", ".", ".", "+.25", "7", ".0", "1e-3", "-2.5"]))
        if rng.random() < 0.7:
            items.append("DP=" + rng.choice([".", ".", "5", "0", "12", g_uint(rng, 3)]))
        if rng.random() < 0.6:
            items.append("AF=" + ",".join(rng.choice([".5", "0.5", ".125", "-.5", "1"]) for _ in range(rng.choice([1, 2, 3]))))
        rng.shuffle(items)
        lines.append("\t".join([g_ident(rng), g_uint(rng, 3, lead0=False).lstrip("0") or "1", ".", "A", "C", ".", "PASS",
                                 ";".join(items) if items else "."]))
    return head + lines


def g_vcf_key_family(rng):
    """typed INFO keys whose NAMES are related to one another: one key is a proper prefix / suffix / infix of another
    (DB, DBX, XDB, DBDB, D), differs only in letter case (db), or occurs as the VALUE of a String key (SV=DB).  A random
    part of the family is declared in the header with random types (at least one Flag and one key=value kind); the
    records carry items of the WHOLE family (a key that is not declared is simply not a column), in any order, so a
    declared key is regularly absent from a record that holds a relative of it."""
    stem = rng.choice(["DB", "H2", "K1", "AC", "A", "DP", "END"])
    x = rng.choice("XS0_")
    family = [stem, stem + x, rng.choice("XS_") + stem, stem + stem, stem + x + rng.choice("YZ1"), stem.lower() if stem.lower() != stem else stem + "x"]
    if len(stem) > 1:
        family += [stem[:-1], stem[1:]]
    # INFO keys are identifiers ([A-Za-z_][0-9A-Za-z_.]*, VCF 4.2 section 1.6.1): a name cannot start with a digit
    family = [k for k in dict.fromkeys(family) if not k[0].isdigit()]
    kinds = [("0", "Flag"), ("0", "Flag"), ("1", "Integer"), ("1", "String"), ("1", "Float"), (".", "Integer"), ("A", "Float")]
    typ = {k: rng.choice(kinds) for k in family}
    typ[stem] = rng.choice([("0", "Flag"), ("0", "Flag"), ("1", "Integer"), ("1", "String")])
    declared = [stem] + rng.sample(family[1:], rng.randrange(1, len(family)))
    if not any(typ[k][1] == "Flag" for k in declared):
        typ[declared[-1]] = ("0", "Flag")
    if all(typ[k][1] == "Flag" for k in declared):
        typ[declared[-1]] = ("1", "String")
    rng.shuffle(declared)
    head = ["##fileformat=VCFv4.2"]
    for k in declared:
        head.append(f'##INFO=<ID={k},Number={typ[k][0]},Type={typ[k][1]},Description="{g_ident(rng)}">')
    head.append("#CHROM\tPOS\tID\tREF\tALT\tQUAL\tFILTER\tINFO")
    lines = []
    for _ in range(rng.choice([1, 2, 3, 4, 6])):
        items = []
        for k in rng.sample(family, rng.choice([0, 1, 1, 2, 3, len(family)])):
            num, t = typ[k]
            if t == "Flag":
                items.append(k)
            elif t == "String":
                items.append(k + "=" + rng.choice(family + [g_ident(rng)]))        # a value that is itself a key name
            else:
                cnt = 1 if num == "1" else rng.choice([1, 2, 3])
                items.append(k + "=" + ",".join(g_uint(rng, rng.choice([1, 2, 3])) if t == "Integer" else g_float(rng) for _ in range(cnt)))
        lines.append("\t".join([g_ident(rng), g_uint(rng, 3, lead0=False).lstrip("0") or "1", ".", "A", "C", ".", "PASS",
                                 ";".join(items) if items else "."]))
    return head + lines


ATTR_KEYS = {"genes": ["gene_id"], "transcripts": ["transcript_id", "gene_id"], "exons": ["transcript_id", "gene_id", "exon_id"]}
FEATURE = {"genes": "gene", "transcripts": "transcript", "exons": "exon"}


def attr_cases(tier, rng):
    """GTF / GFF3 files whose attribute column is read by key: get_genes / get_transcripts / get_exons"""
    per = {"quick": 40, "thorough": 600, "widen": 150}[tier]
    for fmt in ("gtf", "gff"):
        for _ in range(per):
            lines = []
            for _ in range(rng.choice([1, 2, 3, 5, 8])):
                ft = rng.choice(["gene", "transcript", "exon", "exon", "CDS"])
                need = {"gene": ["gene_id"], "transcript": ["transcript_id", "gene_id"], "exon": ["transcript_id", "gene_id", "exon_id"],
                        "CDS": ["gene_id"]}[ft]
                others = rng.sample(["gene_name", "tag", "level", "ref_gene_id", "havana_gene", "Name", "Note"], rng.choice([0, 1, 2, 3]))
                keys = need + others
                rng.shuffle(keys)
                vals = {k: g_ident(rng, rng.choice([1, 2, 5, 9])) for k in keys}
                if fmt == "gtf":
                    attr = " ".join(f'{k} "{vals[k]}";' for k in keys)
                else:
                    attr = ";".join(f"{k}={vals[k]}" for k in keys)
                lines.append("\t".join([g_ident(rng), "src", ft, g_uint(rng, 3), g_uint(rng, 4), ".", rng.choice("+-."), ".", attr]))
            head = g_comments(rng, "#", rng.choice([0, 1]))
            for which in rng.sample(["genes", "transcripts", "exons"], 2):
                yield {"op": "attrs", "fmt": fmt, "text": "".join(l + "\n" for l in head + lines), "which": which}


def _retype(rng, d):
    """the same INFO ID with another declaration"""
    k, num, t = d
    alts = [(n2, t2) for n2 in ("1", ".", "A", "2") for t2 in ("Integer", "Float", "String") if (n2, t2) != (num, t)]
    if t == "Flag" or rng.random() < 0.15:
        alts += [("0", "Flag")] if t != "Flag" else []
    n2, t2 = rng.choice(alts)
    return (k, n2, t2)


def pair_cases(tier, rng):
    """HISTORY inside one process: file A is read, then file B that looks alike to a careless cache key: the same
    INFO IDs in the same order but other Type/Number; the same header with another buffer flavour; the same column
    names with other declared types. Each file must be parsed by its own declaration. Both orders."""
    per = {"quick": 40, "thorough": 500, "widen": 120}[tier]
    big = tier != "quick"
    for _ in range(per):
        fa = rng.choice(VCF_FLAVOURS)
        fb = fa if rng.random() < 0.6 else rng.choice(VCF_FLAVOURS)
        defs_a = rng.sample(INFO_DEFS, rng.choice([1, 2, 3]))
        defs_b = list(defs_a)
        if fb == fa or rng.random() < 0.5:
            for i in rng.sample(range(len(defs_b)), rng.randrange(1, len(defs_b) + 1)):
                defs_b[i] = _retype(rng, defs_b[i])
        ns = rng.choice([1, 2, 3])
        a = _case("vcf", g_vcf(rng, big, fa, defs=defs_a, ns=ns), False, flavour=fa)
        b = _case("vcf", g_vcf(rng, big, fb, defs=defs_b, ns=ns), False, flavour=fb)
        yield {"op": "parse2", "fmt": "vcf", "first": a, "second": b}
        yield {"op": "parse2", "fmt": "vcf", "first": b, "second": a}
    for _ in range(per // 4):
        a = _case("csvi", g_colheader(rng, "csvi", big), False)
        b = _case("csvs", g_colheader(rng, "csvs", big), False)
        yield {"op": "parse2", "fmt": "csv", "first": a, "second": b}
        yield {"op": "parse2", "fmt": "csv", "first": b, "second": a}


def buffer_op_cases(tier, rng):
    """the parsed buffer row-indexed before get_data (`buffer[idx].get_data()`), and two buffers concatenated
    (`buffer.concatenate([b1, b2]).get_data()`): the table must be the selected / the joined records"""
    per = {"quick": 15, "thorough": 200, "widen": 50}[tier]
    big = tier != "quick"
    for fmt in ("bed3", "bed6", "bed12", "bdg", "narrowpeak", "sizes", "gtf", "pairs", "sam", "fastq", "fasta2"):
        for _ in range(per):
            def body():
                if fmt == "sam":
                    return [l for l in g_sam(rng, big) if not l.startswith("@")]
                if fmt == "fastq":
                    return g_fastq(rng, big)
                if fmt == "fasta2":
                    return g_fasta(rng, big, True)
                return [l for l in g_delimited(rng, fmt, big) if not l.startswith("#")]
            a = body()
            k = FORMATS[fmt].get("k", {"fastq": 4, "fasta2": 2}.get(fmt, 1))
            n = len(a) // k
            if rng.random() < 0.5 or fmt in ("fastq", "fasta2"):     # (k-line buffers have no concatenate)
                r = rng.random()
                if r < 0.4:
                    lo = rng.randrange(0, n + 1)
                    sel = {"slice": [lo, rng.randrange(lo, n + 1), rng.choice([1, 1, 2])]}
                elif r < 0.7:
                    sel = {"mask": [rng.random() < 0.6 for _ in range(n)]}
                elif r < 0.95:
                    sel = {"idx": [rng.randrange(n) for _ in range(rng.choice([1, 2, 3]))]}
                else:                                   # an index just outside the table: IndexError, not a row left out
                    sel = {"idx": [rng.randrange(n) for _ in range(rng.choice([0, 1, 2]))] + [n + rng.choice([0, 0, 1, 5])]}
                c = _case(fmt, a, rng.random() < 0.2, via="raw")
                c["sel"] = sel
                yield c
            else:
                c = _case(fmt, a, False, via="raw")
                c["concat"] = "".join(l + "\n" for l in body())
                yield c


def _case(fmt, lines, crlf, via="open", flavour=None, end="nl"):
    """end: how the FINAL line is terminated: "nl" like every other line, "none" not at all, "lf" by a bare LF (in a
    CRLF file); the last two only for whole-file reads"""
    eol = "\r\n" if crlf else "\n"
    text = "".join(l + eol for l in lines)
    if via == "open" and lines:
        if end == "none":
            text = text[:-len(eol)]
        elif end == "lf" and crlf:
            text = text[:-2] + "\n"
    c = {"op": "parse", "fmt": fmt, "text": text, "via": via}
    if flavour:
        c["flavour"] = flavour
    return c


def cases(tier, rng):
    _tmproot()
    big = tier in ("thorough", "widen")
    mult = {"quick": 1, "thorough": 60, "widen": 4}[tier]
    # 1. exhaustive width vectors, BED3 (id,int,int) and chrom.sizes (str,int)
    ws = [1, 2, 3, 9]
    R = 2
    for widths in itertools.product(ws, repeat=3 * R):
        rows = []
        for r in range(R):
            w = widths[3 * r:3 * r + 3]
            rows.append("\t".join([g_ident(rng, w[0]), g_uint(rng, w[1]), g_uint(rng, w[2])]))
        yield _case("bed3", rows, False, via="raw")
    if big:
        for widths in itertools.product([1, 2, 9], repeat=9):
            rows = ["\t".join([g_ident(rng, widths[3 * r]), g_uint(rng, widths[3 * r + 1]), g_uint(rng, widths[3 * r + 2])]) for r in range(3)]
            yield _case("bed3", rows, rng.random() < 0.2, via="raw")
    for widths in itertools.product([0, 1, 2, 3, 9], [1, 2, 3, 9], repeat=3 if big else 2):
        rows = ["\t".join([g_ident(rng, widths[2 * r]) if widths[2 * r] else "", g_uint(rng, widths[2 * r + 1])]) for r in range(len(widths) // 2)]
        yield _case("sizes", rows, False, via="raw")
    # 2. grammar-directed random files
    per = 60 * mult
    yield from pair_cases(tier, rng)
    yield from attr_cases(tier, rng)
    yield from buffer_op_cases(tier, rng)
    yield from route_cases(tier, rng)
    for _ in range(60 * mult):
        yield _case("vcf", g_vcf_optional_focus(rng), rng.random() < 0.15, flavour="VCFBuffer")
    for _ in range(40 * mult):      # INFO keys whose names are prefixes / suffixes / case variants / values of one another
        yield _case("vcf", g_vcf_key_family(rng), rng.random() < 0.15, flavour=rng.choice(["VCFBuffer", "VCFBuffer", "VCFBuffer2"]),
                    end=rng.choice(["nl", "nl", "none"]))
    for _ in range(4 * mult):       # a handful: the genotype matrix readers on genotypes outside their supported subset
        for fl in ("VCFMatrixBuffer", "PhasedVCFMatrixBuffer", "PhasedHaplotypeVCFMatrixBuffer"):
            yield _case("vcf", g_vcf_many_alleles(rng, fl), False, flavour=fl)
    for fmt, F in FORMATS.items():
        for _ in range(per * 4 if fmt == "vcf" else per):        # six buffer flavours share the VCF budget
            crlf = rng.random() < 0.25
            # how the final line ends (whole-file reads): like the others, not at all, or (CRLF files) by a bare LF
            end = rng.choice(["nl", "nl", "none", "lf"]) if crlf else rng.choice(["nl", "nl", "nl", "none"])
            if fmt == "vcf":
                fl = rng.choice(VCF_FLAVOURS + ["VCFBuffer2", "VCFBuffer2", "VCFBuffer"])
                yield _case(fmt, spice(rng, fmt, g_vcf(rng, big, fl)), crlf, flavour=fl, end=end)
            elif fmt == "sam":
                yield _case(fmt, spice(rng, fmt, g_sam(rng, big)), crlf, end=end)
            elif fmt in ("fasta", "fasta2"):
                yield _case(fmt, g_fasta(rng, big, fmt == "fasta2"), crlf, end=end)
            elif fmt == "fastq":
                yield _case(fmt, g_fastq(rng, big), crlf, end=end)
            elif fmt == "gfa":
                n = g_rows(rng, big)
                yield _case(fmt, spice(rng, fmt, ["S\t" + g_ident(rng) + "\t" + g_seq(rng, "ACGT") for _ in range(n)]), crlf, end=end)
            elif F.get("colheader"):
                yield _case(fmt, g_colheader(rng, fmt, big), crlf, end=end)
            else:
                lines = spice(rng, fmt, g_delimited(rng, fmt, big))
                if F.get("interior") and lines and lines[-1].startswith(F["comment"]) and end != "nl":
                    end = "nl"
                via = "raw" if (not any(l.startswith(F["comment"]) for l in lines[:1]) and rng.random() < 0.3) else "open"
                yield _case(fmt, lines, crlf, via=via, end=end)


# ------------------------------------------------------------------ observation of the real code

def _fl(x):
    x = float(x)
    return "f:" + ("nan" if x != x else x.hex())


def _is_haplotype_encoding(enc):
    try:
        from bionumpy.encodings.vcf_encoding import PhasedHaplotypeRowEncoding
    except ImportError:
        return False
    return enc is PhasedHaplotypeRowEncoding or type(enc) is type(PhasedHaplotypeRowEncoding)


def _canon_col(v):
    import numpy as np
    import dataclasses
    from bionumpy.encoded_array import EncodedArray, EncodedRaggedArray
    from bionumpy.string_array import StringArray
    from npstructures import RaggedArray
    if dataclasses.is_dataclass(v):
        return {f.name: _canon_col(getattr(v, f.name)) for f in dataclasses.fields(v)}
    if isinstance(v, StringArray):
        raw = np.asarray(v.raw())
        def dec(b):
            return b.decode("latin1") if isinstance(b, bytes) else [dec(x) for x in b]
        return dec(raw.tolist())
    if isinstance(v, EncodedRaggedArray):
        if v.encoding.is_numeric():
            return [[int(x) for x in row] for row in v.raw().tolist()]
        return ["".join(chr(int(c)) for c in v.encoding.decode(row).raw()) if hasattr(v.encoding, "decode") else row.to_string() for row in v]
    if isinstance(v, EncodedArray):
        if v.ndim == 1:
            d = v.encoding.decode(v).raw() if hasattr(v.encoding, "decode") else v.raw()
            return [chr(int(c)) for c in np.asarray(d)]
        if _is_haplotype_encoding(v.encoding):
            return [[int(x) for x in r] for r in np.asarray(v.raw()).tolist()]     # allele codes, one per haplotype
        d = np.asarray(v.encoding.decode(v.raw()))
        return ["".join(chr(int(c)) for c in row).split("\t") for row in d]
    if isinstance(v, RaggedArray):
        rows = v.tolist()
        return [[_fl(x) if isinstance(x, float) else int(x) for x in r] for r in rows]
    a = np.asarray(v)
    if a.dtype.kind == "f":
        return [_fl(x) for x in a.tolist()]
    if a.dtype.kind == "b":
        return [bool(x) for x in a.tolist()]
    if a.dtype.kind in "iu":
        return [int(x) for x in a.tolist()] if a.ndim == 1 else a.tolist()
    if a.dtype.kind == "S":
        return [x.decode("latin1") for x in a.tolist()] if a.ndim == 1 else [[y.decode("latin1") for y in x] for x in a.tolist()]
    return [str(x) for x in a.tolist()]


def _err(e):
    from bionumpy.io.exceptions import FormatException, ParsingException
    from bionumpy.encodings.exceptions import EncodingError
    if isinstance(e, (FormatException, ParsingException)):
        return {"err": "format"}
    if isinstance(e, EncodingError):
        return {"err": "encoding"}
    return {"err": "other:" + type(e).__name__}


def _impl_attrs(c):
    import logging
    import numpy as np
    import bionumpy as bnp
    logging.disable(logging.CRITICAL)
    F = FORMATS[c["fmt"]]
    p = os.path.join(_tmpdir(), "a" + F["suffix"])
    with open(p, "wb") as fh:
        fh.write(c["text"].encode("latin1"))
    try:
        r = bnp.open(p)
        try:
            d = getattr(r.read(), "get_" + c["which"])()
        finally:
            r.close()
        return {"n": int(len(d)), "start": [int(x) for x in np.asarray(d.start)],
                "ids": {k: _canon_col(getattr(d, k)) for k in ATTR_KEYS[c["which"]]}}
    except Exception as e:
        return _err(e)


def _join_canon(a, b):
    if isinstance(a, dict):
        return {k: _join_canon(a[k], b[k]) for k in a}
    return list(a) + list(b)


def _impl_route(c, route, p, BT):
    """the same file reached by a MULTI-STEP reading route on one reader (the result must be the whole file's table):
    "chunks_concat": read in chunks (lazily unless route["lazy"] is False), some columns looked at on SOME of the chunks
    (so that a column is parsed and cached in part of the operands only), the chunks joined with np.concatenate, then
    every column read from the joined table; "head_rest": one read_chunk(...) then read() for the remainder, the two
    tables' columns put side by side"""
    import dataclasses
    import numpy as np
    import bionumpy as bnp
    kw = {} if route.get("lazy", True) else {"lazy": False}
    r = bnp.open(p, buffer_type=BT, **kw)
    try:
        if route["kind"] == "chunks_concat":
            chunks = list(r.read_chunks(min_chunk_size=route["size"]))
            for i, j in route["touch"]:
                ch = chunks[i % len(chunks)]
                names = [f.name for f in dataclasses.fields(ch)]
                getattr(ch, names[j % len(names)])
            d = np.concatenate(chunks) if len(chunks) > 1 else chunks[0]
            return {"n": int(len(d)), "cols": [_canon_col(getattr(d, f.name)) for f in dataclasses.fields(d)]}
        head = r.read_chunk(min_chunk_size=route["size"])
        out = {"n": int(len(head)), "cols": [_canon_col(getattr(head, f.name)) for f in dataclasses.fields(head)]}
        if out["n"] < route["n_records"]:                    # something is left for read()
            rest = r.read()
            out = {"n": out["n"] + int(len(rest)),
                   "cols": [_join_canon(x, _canon_col(getattr(rest, f.name))) for x, f in zip(out["cols"], dataclasses.fields(rest))]}
        return out
    finally:
        r.close()


def route_cases(tier, rng):
    """well-formed files of every chunk-readable format, read by a multi-step route (see _impl_route)"""
    per = {"quick": 8, "thorough": 150, "widen": 30}[tier]
    fmts = [f for f, F in FORMATS.items() if not F.get("colheader")]
    for fmt in fmts:
        F = FORMATS[fmt]
        for _ in range(per):
            crlf = rng.random() < 0.15
            flavour = None
            if fmt == "vcf":
                flavour = rng.choice(["VCFBuffer", "VCFBuffer", "VCFBuffer2", "VCFWithInfoAsStringBuffer"])
                lines = g_vcf(rng, True, flavour)
            elif fmt == "sam":
                lines = g_sam(rng, True)
            elif fmt in ("fasta", "fasta2"):
                lines = g_fasta(rng, True, fmt == "fasta2")
            elif fmt == "fastq":
                lines = g_fastq(rng, True)
            elif fmt == "gfa":
                lines = ["S\t" + g_ident(rng) + "\t" + g_seq(rng, "ACGT") for _ in range(g_rows(rng, True))]
            else:
                lines = g_delimited(rng, fmt, True)
            c = _case(fmt, lines, crlf, flavour=flavour)
            exp = oracle(c)
            if not isinstance(exp, dict) or "n" not in exp or exp["n"] < 2:
                continue
            eol = 2 if crlf else 1
            if fmt == "fasta":
                starts = [m.start() for m in re.finditer(r"(?m)^>", c["text"])] + [len(c["text"])]
                maxrec = max(b - a for a, b in zip(starts, starts[1:]))
            else:
                maxrec = {"fastq": 4, "fasta2": 2}.get(fmt, 1) * max(len(l) + eol for l in lines)
            body = sum(len(l) + eol for l in lines if not l.startswith(("#", "@HD", "@SQ", "@PG")) or fmt in ("fastq",))
            size = max(2 * maxrec + 2, body // rng.choice([2, 3, 4, 6]))
            if rng.random() < 0.65:
                touch = [[rng.randrange(8), rng.randrange(12)] for _ in range(rng.choice([1, 1, 2, 3]))]
                if rng.random() < 0.5:
                    touch[0][0] = 0                       # the first operand is the one NumPy dispatches on
                c["route"] = {"kind": "chunks_concat", "size": size, "touch": touch, "lazy": rng.random() < 0.85}
            else:
                c["route"] = {"kind": "head_rest", "size": size, "lazy": rng.random() < 0.6, "n_records": exp["n"]}
            yield c


def impl(c):
    if c["op"] == "parse2":
        return {"first": impl(c["first"]), "second": impl(c["second"])}
    if c["op"] == "attrs":
        return _impl_attrs(c)
    import dataclasses
    import logging
    import numpy as np
    import bionumpy as bnp
    logging.disable(logging.CRITICAL)
    F = FORMATS[c["fmt"]]
    BT = _buffer_type(c.get("flavour") or F["bt"])
    data = c["text"].encode("latin1")
    try:
        if c.get("via") == "raw":
            buf = BT.from_raw_buffer(np.frombuffer(data, dtype=np.uint8))
            if "sel" in c:                                   # rows of the buffer picked before parsing
                sel = c["sel"]
                buf = buf[slice(*sel["slice"])] if "slice" in sel else (
                    buf[np.array(sel["mask"], dtype=bool)] if "mask" in sel else buf[np.array(sel["idx"], dtype=int)])
            if "concat" in c:                                # a second buffer joined to the first one
                buf2 = BT.from_raw_buffer(np.frombuffer(c["concat"].encode("latin1"), dtype=np.uint8))
                buf = buf.concatenate([buf, buf2])
            d = buf.get_data()
        else:
            p = os.path.join(_tmpdir(), "f" + F["suffix"])
            with open(p, "wb") as fh:
                fh.write(data)
            route = c.get("route")
            if route:
                return _impl_route(c, route, p, BT)
            r = bnp.open(p, buffer_type=BT, lazy=False)
            try:
                d = r.read()
            finally:
                r.close()
        cols = [_canon_col(getattr(d, f.name)) for f in dataclasses.fields(d)]
        return {"n": int(len(d)), "cols": cols}
    except Exception as e:
        return _err(e)


# ------------------------------------------------------------------ reference parser (independent of bionumpy)
_INT = re.compile(r"^[0-9]+$")
_SINT = re.compile(r"^[+-]?[0-9]+$")
_FLOAT = re.compile(r"^[-+]?[0-9]*\.?[0-9]+(e[+-]?[0-9]+)?$")


class _Unsupported(Exception):
    pass


class _Bad(Exception):
    pass


def _ref_cell(kind, t):
    if kind in ("id", "str", "rest"):
        return t
    if kind == "int":
        if not _INT.match(t):
            raise _Bad
        return int(t)
    if kind == "sint":
        if not _SINT.match(t):
            raise _Bad
        return int(t)
    if kind == "oint":
        if t in (".", ""):
            return 0                     # bionumpy's documented missing value for Optional[int]
        if not _SINT.match(t):
            raise _Bad
        return int(t)
    if kind == "float":
        if not _FLOAT.match(t):
            raise _Bad
        return "t:" + t                 # the text; compared by value (see agree)
    if kind == "strand":
        if t not in ("+", "-", "."):
            raise _Bad
        return t
    if kind == "ilist":
        items = t.split(",")
        if items and items[-1] == "":
            items = items[:-1]           # one optional trailing comma (UCSC / GA4GH BED)
        if not items or not all(_INT.match(x) for x in items):
            raise _Bad
        return [int(x) for x in items]
    raise _Bad


def _ref_lines(text):
    if text == "":
        raise _Bad
    lines = (text[:-1] if text.endswith("\n") else text).split("\n")
    # CRLF text: every line but possibly the last (unterminated, or ended by a bare LF) ends in CR
    crlf = all(l.endswith("\r") for l in lines[:-1]) and any(l.endswith("\r") for l in lines)
    if crlf:
        lines = [l[:-1] if l.endswith("\r") else l for l in lines]
    if any("\r" in l for l in lines):
        raise _Bad
    return lines


def _ref_delimited(c, F):
    lines = _ref_lines(c["text"])
    cm = F["comment"]
    i = 0
    if c.get("via") != "raw":
        while i < len(lines) and lines[i].startswith(cm):
            i += 1
    lines = lines[i:]
    if F.get("interior"):
        lines = [l for l in lines if not l.startswith(cm)]
    if F.get("colheader"):
        if not lines or lines[0].split("\t") != [nm for nm, _ in F["cols"]]:
            raise _Bad
        lines = lines[1:]
    if not lines or any(l.startswith(cm) for l in lines):
        raise _Bad
    cols = F["cols"]
    rows = [l.split("\t") for l in lines]
    fmt = c["fmt"]
    if fmt == "sam":
        if any(len(r) < 11 for r in rows):
            raise _Bad
        rows = [r[:11] + ["\t".join(r[11:])] for r in rows]
    elif fmt == "gfa":
        if any(len(r) != 3 or r[0] != "S" for r in rows):
            raise _Bad
        rows = [r[1:] for r in rows]
    elif any(len(r) != len(cols) for r in rows):
        raise _Bad
    out = [[_ref_cell(k, r[j]) for r in rows] for j, (_, k) in enumerate(cols)]
    return {"n": len(rows), "cols": out}


def _ref_info_types(header_lines):
    defs = []
    for l in header_lines:
        m = re.match(r'^##INFO=<ID=([^,]+),Number=([^,]+),Type=([^,]+),', l)
        if m:
            defs.append(m.groups())
    return defs


def _ref_vcf(c):
    lines = _ref_lines(c["text"])
    head = [l for l in lines if l.startswith("#")]
    body = lines[len(head):]
    if not body or any(l.startswith("#") for l in body):
        raise _Bad
    fl = c.get("flavour") or "VCFBuffer"
    rows = [l.split("\t") for l in body]
    ncol = len(rows[0])
    if ncol < 8 or any(len(r) != ncol for r in rows) or ncol == 9:
        raise _Bad
    out = []
    for j, (_, k) in enumerate(VCF_FIXED):
        col = [_ref_cell(k, r[j]) for r in rows]
        if j == 1:
            col = [x - 1 for x in col]      # VCF POS is 1-based, entries are 0-based
        out.append(col)
    defs = _ref_info_types(head) if fl != "VCFWithInfoAsStringBuffer" else []
    if not defs:
        out.append([r[7] for r in rows])
    else:
        info = {}
        for key, num, typ in defs:
            is_list = num not in ("0", "1")
            col = []
            for r in rows:
                items = {}
                if r[7] != ".":
                    for it in r[7].split(";"):
                        k, _, v = it.partition("=")
                        items[k] = (v, "=" in it)
                if typ == "Flag":
                    col.append(key in items)
                    continue
                v = items.get(key, ("", False))[0]
                if typ == "Integer":
                    if is_list:
                        col.append([int(x) for x in v.split(",") if x not in ("", ".")] if not any(x == "." for x in v.split(",")) else None)
                    else:
                        col.append(0 if v in ("", ".") else int(v))
                elif typ == "Float":
                    if is_list:
                        col.append([_fl(float(x)) for x in v.split(",") if x != ""] if "." not in v.split(",") else None)
                    else:
                        col.append(_fl(float("nan") if v in ("", ".") else float(v)))
                else:
                    col.append(v)
            if any(x is None for x in col):
                raise _Bad               # '.' inside a list-valued key: no agreed value, outside the grammar
            info[key] = col
        out.append(info)
    ns = ncol - 9 if ncol > 9 else 0
    if fl == "VCFBuffer2":
        out.append([[g.split(":")[0] for g in r[9:]] for r in rows] if ns else [[] for _ in rows])
    elif fl in ("VCFMatrixBuffer", "PhasedVCFMatrixBuffer", "PhasedHaplotypeVCFMatrixBuffer"):
        if not ns:
            raise _Bad
        gts = [[g[:3] for g in r[9:]] for r in rows]
        pat = {"VCFMatrixBuffer": r"^[012.][|/][012.]$", "PhasedVCFMatrixBuffer": r"^[01]\|[01]$",
               "PhasedHaplotypeVCFMatrixBuffer": r"^[01234.]\|[01234.]$"}[fl]
        if any(not re.match(pat, g) for r in gts for g in r):
            if all(re.match(r"^[0-9.][|/][0-9.]$", g) for r in gts for g in r):
                # valid VCF genotypes outside the subset this buffer type supports (allele numbers, '/' or '.' for the
                # phased flavours): must be REPORTED, never shown as some other genotype
                raise _Unsupported
            raise _Bad
        if fl == "PhasedHaplotypeVCFMatrixBuffer":
            out.append({"haplotypes": [[g[0] for g in r for g in (g[0], g[2])] for r in gts]})
        else:
            out.append(gts)
    return {"n": len(rows), "cols": out}


def _ref_fasta(c):
    lines = _ref_lines(c["text"])
    if not lines or not lines[0].startswith(">"):
        raise _Bad
    names, seqs = [], []
    for l in lines:
        if l.startswith(">"):
            names.append(l[1:])
            seqs.append("")
        else:
            seqs[-1] += l
    if c["fmt"] == "fasta2" and len(lines) != 2 * len(names):
        raise _Bad
    return {"n": len(names), "cols": [names, seqs]}


def _ref_fastq(c):
    lines = _ref_lines(c["text"])
    if len(lines) % 4 or not lines:
        raise _Bad
    names, seqs, quals = [], [], []
    for i in range(0, len(lines), 4):
        h, s, p, q = lines[i:i + 4]
        if not h.startswith("@") or not p.startswith("+") or len(q) != len(s):
            raise _Bad
        names.append(h[1:])
        seqs.append(s)
        quals.append([ord(ch) - 33 for ch in q])
    return {"n": len(names), "cols": [names, seqs, quals]}


def _ref_attrs(c):
    base = _ref_delimited(dict(c, op="parse", via="open"), FORMATS[c["fmt"]])
    cols = base["cols"]
    rows = [i for i, ft in enumerate(cols[2]) if ft == FEATURE[c["which"]]]
    ids = {k: [] for k in ATTR_KEYS[c["which"]]}
    for i in rows:
        text = cols[8][i]
        if c["fmt"] == "gtf":
            items = [x.strip() for x in text.split(";") if x.strip()]
            kv = []
            for it in items:
                m = re.match(r'^(\S+) "([^"]*)"$', it)
                if not m:
                    raise _Bad
                kv.append(m.groups())
        else:
            kv = []
            for it in text.split(";"):
                k, eq, v = it.partition("=")
                if not eq:
                    raise _Bad
                kv.append((k, v))
        for k in ids:
            vs = [v for kk, v in kv if kk == k]
            if len(vs) != 1:
                raise _Bad
            ids[k].append(vs[0])
    return {"n": len(rows), "start": [cols[3][i] for i in rows], "ids": ids}


def _apply_sel(c, res):
    """the reference table with the same rows picked / a second file's records appended"""
    if "sel" in c:
        n = res["n"]
        sel = c["sel"]
        idx = list(range(n))[slice(*sel["slice"])] if "slice" in sel else (
            [i for i, m in enumerate(sel["mask"]) if m] if "mask" in sel else list(sel["idx"]))
        if any(i >= n for i in idx):
            return {"unsupported": "index out of range"}          # must be reported (IndexError)
        pick = lambda col: [col[i] for i in idx]
        return {"n": len(idx), "cols": [pick(col) for col in res["cols"]]}
    return res


def oracle(c):
    if c["op"] == "parse2":
        a, b = oracle(c["first"]), oracle(c["second"])
        if a is SKIP or b is SKIP:
            return SKIP
        return {"first": a, "second": b}
    if c["op"] == "attrs":
        try:
            return _ref_attrs(c)
        except (_Bad, ValueError):
            return SKIP
    try:
        fmt = c["fmt"]
        if any(ord(ch) > 255 or ord(ch) == 127 or (ord(ch) < 32 and ch not in "\t\n\r") for ch in c["text"]):
            return SKIP                       # (bytes 128..255 are ordinary text bytes: UTF-8 names, ids, attribute values)
        if fmt == "vcf":
            try:
                return _ref_vcf(c)
            except _Unsupported:
                return {"unsupported": "genotype"}
        if fmt in ("fasta", "fasta2"):
            res = _ref_fasta(c)
        elif fmt == "fastq":
            res = _ref_fastq(c)
        else:
            res = _ref_delimited(c, FORMATS[fmt])
        if "concat" in c:
            other = oracle({"op": "parse", "fmt": fmt, "text": c["concat"], "via": "raw"})
            if other is SKIP:
                return SKIP
            res = {"n": res["n"] + other["n"], "cols": [a + b for a, b in zip(res["cols"], other["cols"])]}
        return _apply_sel(c, res)
    except (_Bad, ValueError):
        return SKIP


# ------------------------------------------------------------------ comparison

def _feq(a, b):
    if a == b:
        return True
    try:
        x = float("nan") if a[2:] == "nan" else float.fromhex(a[2:])
        y = float("nan") if b[2:] == "nan" else float.fromhex(b[2:])
    except ValueError:
        return False
    if x != x or y != y:
        return x != x and y != y
    return abs(x - y) <= 1e-12 * max(abs(x), abs(y))


def _same(a, b):
    if isinstance(a, str) and isinstance(b, str) and a.startswith("f:") and b.startswith("f:"):
        return _feq(a, b)
    if isinstance(a, dict) and isinstance(b, dict):
        return a.keys() == b.keys() and all(_same(a[k], b[k]) for k in a)
    if isinstance(a, list) and isinstance(b, list):
        return len(a) == len(b) and all(_same(x, y) for x, y in zip(a, b))
    if isinstance(a, bool) or isinstance(b, bool):
        return a is b
    return a == b


def _norm_special(c, got):
    """haplotype matrices are compared as allele symbols"""
    if c.get("flavour") == "PhasedHaplotypeVCFMatrixBuffer" and isinstance(got, dict) and "cols" in got and got["cols"]:
        last = got["cols"][-1]
        if isinstance(last, list) and last and isinstance(last[0], list) and last[0] and isinstance(last[0][0], int):
            sym = "01234."
            got = dict(got, cols=got["cols"][:-1] + [{"haplotypes": [[sym[x] if 0 <= x < 6 else "?" for x in r] for r in last]}])
    return got


def _conv(x):
    """float cells given as text ("t:<text>") -> value"""
    if isinstance(x, str) and x.startswith("t:"):
        try:
            return _fl(float(x[2:]))
        except ValueError:
            return x
    if isinstance(x, list):
        return [_conv(y) for y in x]
    if isinstance(x, dict):
        return {k: _conv(v) for k, v in x.items()}
    return x


def agree(c, got, exp):
    if c["op"] == "attrs":
        return _same(got, exp)
    if c["op"] == "parse2":
        return isinstance(got, dict) and agree(c["first"], got.get("first"), exp["first"]) and \
            agree(c["second"], got.get("second"), exp["second"])
    if isinstance(exp, dict) and "unsupported" in exp:
        return isinstance(got, dict) and "err" in got
    return _same(_norm_special(c, got), _conv(exp))


def agree_model(c, got, m):
    """Lean model keeps float cells as text ("t:<text>"): compare those by value; error classes are C15's business"""
    if isinstance(got, dict) and isinstance(m, dict) and "err" in got and "err" in m:
        return True
    def conv(x):
        if isinstance(x, str) and x.startswith("t:"):
            try:
                return _fl(float(x[2:]))
            except ValueError:
                return x
        if isinstance(x, list):
            return [conv(y) for y in x]
        if isinstance(x, dict):
            return {k: conv(v) for k, v in x.items()}
        return x
    return _same(got, conv(m))


MODEL_FMTS = {"bed3", "bed6", "bed12", "bdg", "narrowpeak", "sizes", "gtf", "gff", "wig", "pairs", "sam", "gfa", "fasta", "fasta2", "fastq"}


def _info_kind(num, typ):
    """header declaration -> column kind (written from the VCF spec: Number 0/1 scalar, everything else a list)"""
    is_list = num not in ("0", "1")
    if typ == "Flag":
        return "flag"
    if typ == "Integer":
        return "ilist" if is_list else "oint"
    if typ == "Float":
        return "flist" if is_list else "ofloat"
    return "str"


def _sel_indices(c, n):
    sel = c["sel"]
    if "slice" in sel:
        return list(range(n))[slice(*sel["slice"])]
    if "mask" in sel:
        return [i for i, m in enumerate(sel["mask"]) if m]
    return list(sel["idx"])


def model_request(c):
    if c["op"] == "parse2" or FORMATS.get(c["fmt"], {}).get("colheader") or "concat" in c:
        return None                      # implementation vs reference parser only
    if c["op"] == "attrs":
        return dict(c, feature=FEATURE[c["which"]], keys=ATTR_KEYS[c["which"]])
    if "sel" in c:
        k = {"fastq": 4, "fasta2": 2}.get(c["fmt"], 1)
        n = (c["text"].count("\n")) // k
        return dict(c, sel_idx=_sel_indices(c, n))
    if c["fmt"] == "vcf":
        fl = c.get("flavour") or "VCFBuffer"
        head = [l.rstrip("\r") for l in c["text"].split("\n") if l.startswith("##INFO")]
        defs = _ref_info_types(head) if fl != "VCFWithInfoAsStringBuffer" else []
        return dict(c, op="parse", flavour=fl, info_defs=[[k, _info_kind(num, typ)] for k, num, typ in defs])
    return c


def nontrivial(c):
    if c["op"] in ("parse2", "attrs"):
        return True
    t = c["text"]
    if "\r" in t or "\n#" in t or t.startswith(("#", "@HD")) or "\t." in t or "\t-" in t or "\t+" in t:
        return True
    rows = [l.split("\t") for l in t.split("\n") if l]
    if len(rows) < 2:
        return False
    for j in range(min(len(r) for r in rows)):
        if len({len(r[j]) for r in rows}) > 1:
            return True
    return len({len(r) for r in rows if False}) > 1 or len({len(l) for l in t.split("\n") if l}) > 1


def finding_key(c, got, exp):
    if c["op"] == "parse2":
        which = "first" if not (isinstance(got, dict) and agree(c["first"], got.get("first"), exp["first"])) else "second"
        fl = (c["first"].get("flavour"), c["second"].get("flavour"))
        return f"history:{c['fmt']}:{'same-flavour' if fl[0] == fl[1] else 'other-flavour'}:{which}-file-misparsed"
    fmt = c["fmt"]
    if c["op"] == "attrs":
        return f"attributes:{fmt}:{c['which']}:{'raises' if isinstance(got, dict) and 'err' in got else 'wrong-value'}"
    if c.get("route"):
        F = FORMATS[fmt]
        raises = isinstance(got, dict) and "err" in got
        if raises and F.get("interior") and re.search(r"\n" + re.escape(F["comment"]), c["text"]):
            return "chunked-read:interior-comments:chunk-of-comment-lines-only:raises"
        return f"route:{c['route']['kind']}:{fmt}:{'raises' if raises else 'wrong-value'}"
    if "sel" in c or "concat" in c:
        return f"buffer-{'row-selection' if 'sel' in c else 'concatenate'}:{fmt}:{'raises' if isinstance(got, dict) and 'err' in got else 'wrong-value'}"
    t = c["text"]
    F = FORMATS[fmt]
    kinds = [k for _, k in F.get("cols", [])]
    body = [l.rstrip("\r").split("\t") for l in t.split("\n") if l and not l.startswith(F.get("comment", "#"))]
    if "ilist" in kinds:
        idx = [j for j, k in enumerate(kinds) if k == "ilist"]
        if any(len(r) > j and r[j].endswith(",") for r in body for j in idx):
            return "list-column:trailing-comma"
    if "oint" in kinds:
        j = kinds.index("oint")
        vals = [r[j] for r in body if len(r) > j]
        if "." in vals and any(v != "." for v in vals):
            return "optional-int:dot-mixed-with-values"
    if isinstance(exp, dict) and "unsupported" in exp:
        return f"vcf-genotype-matrix:{c.get('flavour')}:unsupported-genotype-shown-as-another"
    if c.get("flavour") == "VCFWithInfoAsStringBuffer" and "##INFO" in t:
        return "vcf:info-as-string-buffer-with-info-header"
    if fmt == "vcf" and re.search(r"=\.[;\t,]|,\.[;\t,]", t):
        return "optional-int:dot-mixed-with-values"
    if F.get("interior") and any(l.startswith(F["comment"]) and "\t" in l for l in t.split("\n")):
        return "interior-comment-buffer:tab-in-comment"
    if "\r" in t and fmt in ("gff", "wig"):
        return "interior-comment-buffer:crlf"
    if "\r" in t and fmt == "sam":
        return "sam:crlf"
    if fmt == "fasta" and re.search(r"(^|\n)>[^\n]*\r?\n(>|$)", t):
        return "fasta-read:record-without-sequence-line"
    kind = "raises" if isinstance(got, dict) and "err" in got else "wrong-value"
    return f"{fmt}{':' + c['flavour'] if c.get('flavour') else ''}:{kind}"
