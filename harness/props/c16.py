"""C16 — BAM records decode to the values the BAM specification defines.

Files are produced WITHOUT the library under test: `encode_record`/`encode_header`/`bgzf` below are
written from SAMv1 §4.2 (the Lean side has its own encoder, `C16.encodeRec`; both are cross-checked
through a byte hash on every case).  The library reads them (`bnp.open(...).read()`,
`read_chunks(k)`, `BamIntervalBuffer`, `alignment_to_interval`, write back) and the result is compared
with (a) the records themselves (oracle = the property), (b) the Lean model of the decoder run on the
Lean-encoded bytes, (c) the Lean spec view.
"""
import atexit
import gzip
import os
import shutil
import struct
import tempfile
import zlib

import numpy as np

from .. import core
from ..core import SKIP

ID = "C16"
RULE = ("random spec-level alignment records (0..4 references, refID -1, read names 1..254 chars, 0..12 CIGAR ops of all nine "
        "kinds with lengths up to 2^28-1 (occasionally >= 16384 ops), sequence length 0..40 odd and even over the 16-letter code "
        "(occasionally > 65535), qualities 0..93, optional tag bytes, random BGZF block sizes) encoded by an independent encoder; "
        "x whole read / every (small files) or sampled chunk size >= largest record / interval via BamIntervalBuffer and "
        "alignment_to_interval / {whole, every mask of five, permutations and repetitions of equal-sized records, chunk-stream} write "
        "back / read a field, write the selection, read all fields again / selection programs (selections of selections, writes between "
        "selections, reads after writes) / trees of tables (the parent read or written after a slice / mask / index child was written) / "
        "max_chunk_size / eager reading (lazy=False) / count_entries / write of a chunk with replaced values (must be refused) / writer sessions (several calls on one open "
        "writer: valid, refused and empty ones in any order; the file decodes to the records of the successful calls) / selections of "
        "300..2100 records with index arrays in file order with repeats, tiled, permuted, reversed. Non-trivial = >= 2 records with "
        "different name-length / CIGAR-count / sequence-parity shapes")
EXHAUSTIVE = {"quick": False, "thorough": False}
MODEL_OPS = {"decode", "chunked", "interval", "write", "count", "program", "tree", "session"}
PARALLEL = 16
ASSUMPTIONS = ["gzip.open(...).read(n) returns min(n, remaining) bytes of the concatenated members (BGZF = gzip members)",
               "NumPy fancy indexing / .view(dtype) / ragged_slice are modelled as list slices and little-endian sums",
               "np.int32/uint16 arithmetic is modelled over unbounded integers inside the record validity bounds "
               "(the uint16 wrap of n_cigar_op*4 is modelled explicitly as cigarBytes old)"]
TRUSTED_EXTRA = ["C16: Python spec-level BAM encoder/decoder in harness/props/c16.py (cross-checked byte-for-byte with the Lean encoder by hash on every case)"]

MANIFEST = {
    "text": "Lean 4: an independent spec-level BAM encoder (SAMv1 §4.2) and a model of bionumpy's decoder (_find_starts chaining, "
            "fixed/derived offsets, nibble unpack+trim, split_cigar, reference naming, reference length, strand bit, "
            "__getitem__/_make_contigous write back, prepend-mode chunked reader). Theorems for ALL lists of valid records: "
            "decode(encode recs) = recs field by field (odd and even l_seq), unmapped records decode to '*', reference interval = "
            "pos + sum of reference-consuming op lengths with the consuming set tabulated from the running code, chunked reading "
            "with every chunk size >= largest record = whole read (records AND the chunks' own bytes), write back of any selection = encoding of "
            "the selected records; header round trip (magic, l_text, n_ref, name/length records) for every valid header, whole-file "
            "round trip through BGZF members, write_file / write_chunks (header replayed byte for byte + selected records / chunk stream "
            "+ EOF block reads back as the same file), alignment_to_interval column-wise over ragged CIGAR arrays = per-record intervals. "
            "Fixed offsets, CIGAR/sequence alphabets, consuming set/codes, the 28-byte EOF block and the two repaired rules are re-extracted from /repo on every "
            "run into Gen/C16.lean and re-checked by the kernel. Correspondence: files from an independent Python encoder, "
            "impl vs Lean model vs Lean spec vs oracle.",
    "note": "gzip/BGZF decompression, NumPy indexing and npstructures ragged slicing are modelled as list operations and exercised "
            "by the correspondence; int32 wrap-around outside the validity bounds (pos + reference length >= 2^31, l_seq >= 2^31) "
            "is outside the modelled domain. Measured (16 cores, seeds 0-3): quick 15-30 s / ~3.7k cases, thorough 3-5 min / ~59k cases "
            "(every chunk size from the largest record to file size + 2 for the small files). Defects found and fixed in /repo: "
            "ebaee36 (unmapped -> last reference name; zero-reference BAM unreadable), d080e2f (uint16 wrap of n_cigar_op*4), "
            "9afb68d (count_entries on BAM raised NameError), 4c831e1 (stale cached offsets after a selection was written). 54 audited theorems incl. a complete spec-level decoder inverting the encoder.",
    "technique": "Lean 4 proof (induction over the record list) over an executable decoder model + spec-level encoder; tables regenerated "
                 "from source (decide); differential correspondence with the implementation on independently encoded files",
    "design": "§6 C16",
}

SEQ = "=ACMGRSVTWYHKDBN"
OPS = "MIDNSHP=X"
CONSUMING = "MDN=X"
EOF_BLOCK = bytes.fromhex("1f8b08040000000000ff0600424302001b0003000000000000000000")
MOD = 1000000007

_TMP = tempfile.mkdtemp(prefix="c16_")
atexit.register(lambda: shutil.rmtree(_TMP, ignore_errors=True))
_counter = [0]


def _path(tag="f"):
    _counter[0] += 1
    return os.path.join(_TMP, f"{os.getpid()}_{_counter[0]}_{tag}.bam")


# ------------------------------------------------------------------ independent encoder / decoder (SAMv1 §4.2)

def encode_record(r):
    name = r["name"].encode("latin-1") + b"\0"
    seq = r["seq"]
    nib = [SEQ.index(c) for c in seq] + ([0] if len(seq) % 2 else [])
    sb = bytes((nib[2 * i] << 4) | nib[2 * i + 1] for i in range(len(nib) // 2))
    cig = b"".join(struct.pack("<I", (n << 4) | OPS.index(o)) for o, n in r["cigar"])
    body = struct.pack("<iiBBHHHiiii", r["ref"], r["pos"], len(name), r["mapq"], r["bin"], len(r["cigar"]), r["flag"],
                       len(seq), r["nref"], r["npos"], r["tlen"])
    body += name + cig + sb + bytes(r["qual"]) + bytes(r["tags"])
    return struct.pack("<I", len(body)) + body


def encode_header(refs, text):
    h = b"BAM\1" + struct.pack("<I", len(text)) + bytes(text) + struct.pack("<I", len(refs))
    for n, l in refs:
        nb = n.encode("latin-1") + b"\0"
        h += struct.pack("<I", len(nb)) + nb + struct.pack("<I", l)
    return h


def bgzf_block(data):
    co = zlib.compressobj(6, zlib.DEFLATED, -15)
    comp = co.compress(data) + co.flush()
    bsize = 12 + 6 + len(comp) + 8
    return (b"\x1f\x8b\x08\x04\x00\x00\x00\x00\x00\xff\x06\x00BC\x02\x00" + struct.pack("<H", bsize - 1) + comp
            + struct.pack("<II", zlib.crc32(data) & 0xffffffff, len(data) & 0xffffffff))


def bgzf(data, blk, eof=True):
    blk = max(blk, len(data) // 1500 + 1)      # at most ~1500 members per file
    out = b"".join(bgzf_block(data[i:i + blk]) for i in range(0, len(data), blk))
    return out + (EOF_BLOCK if eof else b"")


def decode_file_bytes(raw):
    """independent decoder of an (uncompressed) BAM byte string: (text, refs, full records)"""
    assert raw[:4] == b"BAM\1"
    p = 4
    lt, = struct.unpack_from("<I", raw, p); p += 4
    text = raw[p:p + lt]; p += lt
    nref, = struct.unpack_from("<I", raw, p); p += 4
    refs = []
    for _ in range(nref):
        ln, = struct.unpack_from("<I", raw, p); p += 4
        nm = raw[p:p + ln - 1].decode("latin-1"); p += ln
        l, = struct.unpack_from("<I", raw, p); p += 4
        refs.append([nm, l])
    hdr_end = p
    recs = []
    while p < len(raw):
        bs, = struct.unpack_from("<I", raw, p)
        e = p + 4 + bs
        ref, pos, ln, mapq, bin_, ncig, flag, lseq, nref_, npos, tlen = struct.unpack_from("<iiBBHHHiiii", raw, p + 4)
        q = p + 36
        name = raw[q:q + ln - 1].decode("latin-1"); q += ln
        cig = []
        for i in range(ncig):
            w, = struct.unpack_from("<I", raw, q); q += 4
            cig.append([OPS[w & 15] if (w & 15) < 9 else "?", w >> 4])
        sb = raw[q:q + (lseq + 1) // 2]; q += (lseq + 1) // 2
        seq = "".join(SEQ[b >> 4] + SEQ[b & 15] for b in sb)[:lseq]
        qual = list(raw[q:q + lseq]); q += lseq
        tags = list(raw[q:e])
        recs.append({"ref": ref, "pos": pos, "mapq": mapq, "bin": bin_, "flag": flag, "nref": nref_, "npos": npos, "tlen": tlen,
                     "name": name, "cigar": cig, "seq": seq, "qual": qual, "tags": tags})
        p = e
    return bytes(text), refs, recs, hdr_end


def bhash(b):
    """[length, sum of (byte+1), sum of position*(byte+1)] mod MOD — the same fold as Drv/C16.lean `bhash`"""
    x = np.frombuffer(bytes(b), dtype=np.uint8).astype(np.int64) + 1
    n = len(x)
    return [n, int(x.sum() % MOD), int(((np.arange(1, n + 1, dtype=np.int64) * x) % MOD).sum() % MOD)]


def view(refs, r):
    """the decoded record the specification defines"""
    return [None if r["ref"] < 0 else refs[r["ref"]][0], r["name"], r["flag"], r["pos"], r["mapq"],
            "".join(o for o, _ in r["cigar"]), [n for _, n in r["cigar"]], r["seq"], list(r["qual"])]


def ref_len(r):
    return sum(n for o, n in r["cigar"] if o in CONSUMING)


def interval(refs, r):
    return [None if r["ref"] < 0 else refs[r["ref"]][0], r["pos"], r["pos"] + ref_len(r), r["name"], r["mapq"],
            "-" if r["flag"] & 0x10 else "+"]


def write_file(c, tag="in"):
    body = b"".join(encode_record(r) for r in c["recs"])
    raw = encode_header(c["refs"], bytes(c["text"])) + body
    p = _path(tag)
    with open(p, "wb") as f:
        f.write(bgzf(raw, c["blk"], c.get("eof", True)))
    return p, body


# ------------------------------------------------------------------ reading through the library

def _none_chrom(s):
    return None if s == "*" else s


def _rows(d):
    n = len(d)
    if n == 0:
        return []
    chrom = d.chromosome.tolist()
    name = d.name.tolist()
    flag = np.asarray(d.flag).tolist()
    pos = np.asarray(d.position).tolist()
    mapq = np.asarray(d.mapq).tolist()
    op = d.cigar_op.tolist()
    ln = d.cigar_length.tolist()
    seq = d.sequence.tolist()
    qual = d.quality.tolist()
    return [[_none_chrom(chrom[i]), name[i], int(flag[i]), int(pos[i]), int(mapq[i]), op[i], [int(x) for x in ln[i]], seq[i],
             [int(x) for x in qual[i]]] for i in range(n)]


def _irows(d):
    if len(d) == 0:
        return []
    chrom = d.chromosome.tolist()
    name = d.name.tolist()
    strand = d.strand.tolist()
    return [[_none_chrom(chrom[i]), int(d.start[i]), int(d.stop[i]), name[i], int(d.score[i]), strand[i]] for i in range(len(d))]


def _err(e):
    return {"err": "other:" + type(e).__name__}


def impl(c):
    import bionumpy as bnp
    from bionumpy.io.bam import BamIntervalBuffer
    from bionumpy.alignments import alignment_to_interval
    op = c["op"]
    p, body = write_file(c)
    out = None
    try:
        kw = {"lazy": False} if c.get("lazy") is False else {}
        if op == "count":
            try:
                return {"n": int(bnp.count_entries(p))}
            except Exception as e:
                return _err(e)
        if op == "program":
            # any sequence of selections, writes and field reads on one table; every observation is recorded
            out = _path("out")
            try:
                cur = bnp.open(p).read()
                obs = []
                for st in c["steps"]:
                    if st[0] == "mask":
                        m = np.zeros(len(cur), dtype=bool)
                        m[st[1]] = True
                        cur = cur[m]
                    elif st[0] == "index":
                        cur = cur[np.array(st[1], dtype=int)]
                    elif st[0] == "slice":
                        cur = cur[st[1]:st[2]]
                    elif st[0] == "write":
                        with bnp.open(out, "w") as f:
                            f.write(cur)
                        raw = gzip.decompress(open(out, "rb").read())
                        text, refs, recs, hdr_end = decode_file_bytes(raw)
                        obs.append({"w": bhash(raw[hdr_end:]), "recs": [_full(r) for r in recs]})
                    else:
                        obs.append({"r": _rows(cur)})
                return obs
            except Exception as e:
                return _err(e)
        if op == "tree":
            # several tables alive at once: tabs[0] is the file, every selection appends a table; writes / reads name a table
            out = _path("out")
            try:
                tabs = [bnp.open(p).read()]
                obs = []
                for st in c["steps"]:
                    if st[0] == "sel":
                        src, kind = tabs[st[1]], st[2]
                        if kind == "mask":
                            m = np.zeros(len(src), dtype=bool)
                            m[st[3]] = True
                            tabs.append(src[m])
                        elif kind == "index":
                            tabs.append(src[np.array(st[3], dtype=int)])
                        else:
                            tabs.append(src[slice(*st[3])])
                    elif st[0] == "write":
                        with bnp.open(out, "w") as f:
                            f.write(tabs[st[1]])
                        raw = gzip.decompress(open(out, "rb").read())
                        text, refs, recs, hdr_end = decode_file_bytes(raw)
                        obs.append({"w": bhash(raw[hdr_end:]), "recs": [_full(r) for r in recs]})
                    else:
                        obs.append({"r": _rows(tabs[st[1]])})
                return obs
            except Exception as e:
                return _err(e)
        if op == "session":
            # ONE open writer, several write calls — valid ones (whole / selections / empty tables / a chunk stream) and calls the
            # writer documents it REFUSES (entries with replaced values -> ValueError, raised after the header has gone out):
            # the file decodes to the records of the calls that succeeded, in order (a failed call leaves no state behind)
            out = _path("out")
            try:
                d = bnp.open(p).read()
                outcome = []
                with bnp.open(out, "w") as f:
                    for st in c["steps"]:
                        try:
                            if st[0] == "whole":
                                f.write(d)
                            elif st[0] == "empty":
                                f.write(d[0:0])
                            elif st[0] == "stream":
                                f.write(bnp.open(p).read_chunks(min_chunk_size=st[1]))
                            elif st[0] == "sel":
                                f.write(_select(d, st[1], st[2]))
                            else:
                                t = d if st[2] is None else _select(d, "index", st[2])
                                f.write(bnp.replace(t, **{st[1]: np.asarray(getattr(t, st[1])) + 1}))
                            outcome.append("ok")
                        except Exception as e:
                            outcome.append("raised:" + type(e).__name__)
                rawz = open(out, "rb").read()
                try:
                    text, refs, recs, hdr_end = decode_file_bytes(gzip.decompress(rawz))
                    dec = [_full(r) for r in recs]
                except Exception as e:
                    dec = "undecodable:" + type(e).__name__
                try:
                    lib = _rows(bnp.open(out).read())
                except Exception as e:
                    lib = "unreadable:" + type(e).__name__
                try:
                    fh = bhash(gzip.decompress(rawz))
                except Exception:
                    fh = None
                return {"steps": outcome, "recs": dec, "lib": lib, "eof": rawz.endswith(EOF_BLOCK), "file": fh}
            except Exception as e:
                return _err(e)
        if op == "write_then_read":
            out = _path("out")
            try:
                d = bnp.open(p, **kw).read()
                if c["sel"] == "mask":
                    m = np.zeros(len(c["recs"]), dtype=bool)
                    m[c["idx"]] = True
                    fsel = d[m]
                elif c["sel"] == "slice":
                    fsel = d[c["idx"][0]:c["idx"][-1] + 1] if c["idx"] else d[0:0]
                else:
                    fsel = d[np.array(c["idx"], dtype=int)]
                first = getattr(fsel, c["first"])
                with bnp.open(out, "w") as f:
                    f.write(fsel)
                raw = gzip.decompress(open(out, "rb").read())
                text, refs, recs, hdr_end = decode_file_bytes(raw)
                return {"written": [_full(r) for r in recs], "after": _rows(fsel)}
            except Exception as e:
                return _err(e)
        if op == "write_modified":
            out = _path("out")
            try:
                d = bnp.open(p).read()
                d2 = bnp.replace(d, **{c["field"]: np.asarray(getattr(d, c["field"])) + 1})
                try:
                    with bnp.open(out, "w") as f:
                        f.write(d2)
                except Exception as e:
                    return {"refused": type(e).__name__}
                text, refs, recs, hdr_end = decode_file_bytes(gzip.decompress(open(out, "rb").read()))
                return {"recs": [_full(r) for r in recs]}
            except Exception as e:
                return _err(e)
        if op == "decode":
            try:
                d = bnp.open(p, **kw).read()
                info = d.get_context("header").info if (len(c["recs"]) and not kw) else [tuple(x) for x in c["refs"]]
                return {"enc": bhash(body), "hdr": bhash(encode_header(c["refs"], bytes(c["text"]))),
                        "refs": [[str(n), int(l)] for n, l in info], "recs": _rows(d)}
            except Exception as e:
                return dict(_err(e), enc=bhash(body), hdr=bhash(encode_header(c["refs"], bytes(c["text"]))))
        if op == "chunked":
            try:
                chunks = []
                mk = {"max_chunk_size": c["max"]} if "max" in c else {}
                for i, ch in enumerate(bnp.open(p, **kw).read_chunks(min_chunk_size=c["k"], **mk)):
                    chunks.append(_rows(ch))
                    if i > len(c["recs"]) + 2:
                        return {"err": "nonterminating"}
                return {"recs": [r for ch in chunks for r in ch], "chunks": [len(ch) for ch in chunks]}
            except Exception as e:
                return _err(e)
        if op == "interval":
            try:
                a = _irows(bnp.open(p, buffer_type=BamIntervalBuffer, **kw).read())
                b = _irows(alignment_to_interval(bnp.open(p, **kw).read()))
                return {"buf": a, "fn": b}
            except Exception as e:
                return _err(e)
        if op == "write":
            out = _path("out")
            try:
                mode = c["mode"]
                with bnp.open(out, "w") as f:
                    if mode == "chunks":
                        f.write(bnp.open(p).read_chunks(min_chunk_size=c["k"]))
                    else:
                        d = bnp.open(p).read()
                        if mode == "whole":
                            f.write(d)
                        elif mode == "mask":
                            m = np.zeros(len(c["recs"]), dtype=bool)
                            m[c["idx"]] = True
                            f.write(d[m])
                        else:
                            f.write(d[np.array(c["idx"], dtype=int)])
                rawz = open(out, "rb").read()
                raw = gzip.decompress(rawz)
                text, refs, recs, hdr_end = decode_file_bytes(raw)
                return {"eof": rawz.endswith(EOF_BLOCK) and gzip.decompress(EOF_BLOCK) == b"", "text": list(text), "refs": refs,
                        "recs": [_full(r) for r in recs], "body": bhash(raw[hdr_end:]), "file": bhash(raw)}
            except Exception as e:
                return _err(e)
    finally:
        for q in (p, out):
            if q and os.path.exists(q):
                os.remove(q)


def _select(d, kind, idx):
    if kind == "mask":
        m = np.zeros(len(d), dtype=bool)
        m[idx] = True
        return d[m]
    if kind == "slice":
        return d[slice(*idx)]
    return d[np.array(idx, dtype=int)]


def _session_parts(c):
    """per step of a writer session: (records a successful call adds, is the step one the writer may refuse)"""
    recs = c["recs"]
    out = []
    for st in c["steps"]:
        if st[0] in ("whole", "stream"):
            out.append((list(recs), False))
        elif st[0] == "empty":
            out.append(([], False))
        elif st[0] == "sel":
            out.append(([recs[i] for i in st[2]] if st[1] != "slice" else recs[slice(*st[2])], False))
        else:
            key = {"position": "pos", "mapq": "mapq", "flag": "flag"}[st[1]]
            sel = list(recs) if st[2] is None else [recs[i] for i in st[2]]
            out.append(([dict(r, **{key: r[key] + 1}) for r in sel], True))
    return out


def _full(r):
    return {k: r[k] for k in ("ref", "pos", "mapq", "flag", "nref", "npos", "tlen", "name", "cigar", "seq", "qual", "tags")}


def _sel(c):
    if c["mode"] in ("whole", "chunks"):
        return list(range(len(c["recs"])))
    return list(c["idx"])


def max_rec(c):
    return max([len(encode_record(r)) for r in c["recs"]] + [0])


def oracle(c):
    op = c["op"]
    refs, recs = c["refs"], c["recs"]
    body = b"".join(encode_record(r) for r in recs)
    if op == "count":
        return {"n": len(recs)}
    if op == "tree":
        tabs, obs = [list(recs)], []
        for st in c["steps"]:
            if st[0] == "sel":
                src = tabs[st[1]]
                tabs.append([src[i] for i in st[3]] if st[2] in ("mask", "index") else src[slice(*st[3])])
            elif st[0] == "write":
                cur = tabs[st[1]]
                obs.append({"w": bhash(b"".join(encode_record(r) for r in cur)), "recs": [_full(dict(r, cigar=[list(x) for x in r["cigar"]])) for r in cur]})
            else:
                obs.append({"r": [view(refs, r) for r in tabs[st[1]]]})
        return obs
    if op == "program":
        cur, obs = list(recs), []
        for st in c["steps"]:
            if st[0] in ("mask", "index"):
                cur = [cur[i] for i in st[1]]
            elif st[0] == "slice":
                cur = cur[st[1]:st[2]]
            elif st[0] == "write":
                obs.append({"w": bhash(b"".join(encode_record(r) for r in cur)), "recs": [_full(dict(r, cigar=[list(x) for x in r["cigar"]])) for r in cur]})
            else:
                obs.append({"r": [view(refs, r) for r in cur]})
        return obs
    if op == "session":
        return {"parts": [{"recs": [_full(dict(r, cigar=[list(x) for x in r["cigar"]])) for r in part], "rows": [view(refs, r) for r in part],
                           "may_refuse": mr} for part, mr in _session_parts(c)]}
    if op == "write_then_read":
        idx = c["idx"] if c["sel"] != "slice" else (list(range(c["idx"][0], c["idx"][-1] + 1)) if c["idx"] else [])
        sel = [recs[i] for i in idx]
        return {"written": [_full(dict(r, cigar=[list(x) for x in r["cigar"]])) for r in sel], "after": [view(refs, r) for r in sel]}
    if op == "write_modified":
        key = {"position": "pos", "mapq": "mapq", "flag": "flag"}[c["field"]]
        return {"refused_or": [_full(dict(r, cigar=[list(x) for x in r["cigar"]], **{key: r[key] + 1})) for r in recs]}
    if op == "decode":
        return {"enc": bhash(body), "hdr": bhash(encode_header(refs, bytes(c["text"]))), "refs": [[n, l] for n, l in refs],
                "recs": [view(refs, r) for r in recs]}
    if op == "chunked":
        if c["k"] < max_rec(c) or c["k"] < 1:
            return SKIP
        return {"recs": [view(refs, r) for r in recs]}
    if op == "interval":
        iv = [interval(refs, r) for r in recs]
        return {"buf": iv, "fn": iv}
    if op == "write":
        if c["mode"] == "chunks" and c["k"] < max_rec(c):
            return SKIP
        sel = [recs[i] for i in _sel(c)]
        return {"eof": True, "text": list(c["text"]), "refs": [list(x) for x in refs],
                "recs": [_full(dict(r, cigar=[list(x) for x in r["cigar"]])) for r in sel],
                "body": bhash(b"".join(encode_record(r) for r in sel))}


def agree(c, got, exp):
    if c["op"] in ("program", "tree") and isinstance(got, list):
        if len(got) != len(exp):
            return False
        return all((core.canon(g.get("recs")) == core.canon(e["recs"])) if "w" in e else (core.canon(g) == core.canon(e)) for g, e in zip(got, exp))
    if not isinstance(got, dict) or "err" in got:
        return False
    if c["op"] == "program":
        if not isinstance(got, list) or len(got) != len(exp):
            return False
        return all(core.canon(g.get("recs")) == core.canon(e["recs"]) if "w" in e else core.canon(g) == core.canon(e) for g, e in zip(got, exp))
    if c["op"] == "session":
        # every call that must succeed succeeded; a call the writer may refuse either raised or wrote the NEW values; the file
        # decodes (by the spec-level decoder and by the library) to the records of the successful calls, in order
        if len(got.get("steps", [])) != len(exp["parts"]) or got.get("eof") is not True:
            return False
        recs, rows = [], []
        for o, part in zip(got["steps"], exp["parts"]):
            if o == "ok":
                recs += part["recs"]
                rows += part["rows"]
            elif not part["may_refuse"]:
                return False
        return core.canon(got.get("recs")) == core.canon(recs) and core.canon(got.get("lib")) == core.canon(rows)
    if c["op"] == "write_modified":
        # a BAM chunk with replaced values must be written with the new values or refused; never silently as it was read
        return "refused" in got or core.canon(got.get("recs")) == core.canon(exp["refused_or"])
    if c["op"] == "chunked":
        return core.canon(got.get("recs")) == core.canon(exp["recs"])
    if c["op"] == "write":
        # the property asks for a BAM that decodes to the same records (byte layout is compared with the model only)
        return all(core.canon(got.get(k)) == core.canon(exp[k]) for k in ("eof", "refs", "recs"))
    return core.canon(got) == core.canon(exp)


def agree_spec(c, s, exp):
    if c["op"] in ("program", "tree"):
        return core.canon(s) == core.canon([{"w": e["w"]} if "w" in e else e for e in exp])
    return core.canon(s) == core.canon(exp)


def agree_model(c, got, m):
    if c["op"] in ("program", "tree"):
        return isinstance(got, list) and core.canon([{"w": g["w"]} if "w" in g else g for g in got]) == core.canon(m)
    if c["op"] == "session":
        # the model is the writer as shipped: replaced values are refused. (Were they accepted one day, the bytes are the oracle's business.)
        if not isinstance(got, dict) or "steps" not in got:
            return False
        if any(o == "ok" and st[0] == "mod" for o, st in zip(got["steps"], c["steps"])):
            return True
        return got.get("file") == m.get("file")
    if c["op"] == "write" and isinstance(got, dict) and "body" in got:
        return all(core.canon(got[k]) == core.canon(m.get(k)) for k in ("body", "file", "eof"))
    return core.canon(got) == core.canon(m)


def live_cases(tier, rng):
    for _ in range(600 if tier in ("thorough", "widen") else 120):
        yield dict(rand_file(rng, nrec=rng.choice([1, 2, 3, 5])), op="decode")


def impl_live(c):
    """history probe: the (lazily decoded) table of one file must read the same after another file has been read"""
    import bionumpy as bnp
    p, body = write_file(c)
    try:
        d = bnp.open(p).read()
    finally:
        os.remove(p)
    hdr = bhash(encode_header(c["refs"], bytes(c["text"])))
    return d, (lambda d: {"enc": bhash(body), "hdr": hdr, "refs": [[n, l] for n, l in c["refs"]], "recs": _rows(d)})


def _jrec(r):
    return {"ref": r["ref"], "pos": r["pos"], "mapq": r["mapq"], "bin": r["bin"], "flag": r["flag"], "nref": r["nref"],
            "npos": r["npos"], "tlen": r["tlen"], "name": list(r["name"].encode("latin-1")),
            "cigar": [[OPS.index(o), n] for o, n in r["cigar"]], "seq": [SEQ.index(ch) for ch in r["seq"]],
            "qual": list(r["qual"]), "tags": list(r["tags"])}


def model_request(c):
    q = {"op": c["op"], "names": [list(n.encode("latin-1")) for n, _ in c["refs"]], "lens": [l for _, l in c["refs"]],
         "text": list(c["text"]), "recs": [_jrec(r) for r in c["recs"]]}
    if "k" in c:
        q["k"] = c["k"]
    if c["op"] == "write":
        q["idx"] = _sel(c)
        q["mode"] = c["mode"]
    if c["op"] == "session":
        n, steps = len(c["recs"]), []
        for st in c["steps"]:
            if st[0] in ("whole", "stream"):
                steps.append(["ok", list(range(n))])
            elif st[0] == "empty":
                steps.append(["ok", []])
            elif st[0] == "sel":
                steps.append(["ok", list(range(n))[slice(*st[2])] if st[1] == "slice" else list(st[2])])
            else:
                steps.append(["refused"])
        q["steps"] = steps
    if c["op"] == "tree":
        lens, steps = [len(c["recs"])], []
        for st in c["steps"]:
            if st[0] == "sel":
                idx = list(st[3]) if st[2] in ("mask", "index") else list(range(lens[st[1]]))[slice(*st[3])]
                steps.append(["sel", st[1], idx])
                lens.append(len(idx))
            else:
                steps.append([st[0], st[1]])
        q["steps"] = steps
    if c["op"] == "program":
        n, steps = len(c["recs"]), []
        for st in c["steps"]:
            if st[0] in ("mask", "index"):
                steps.append(["select", list(st[1])])
                n = len(st[1])
            elif st[0] == "slice":
                idx = list(range(n))[st[1]:st[2]]
                steps.append(["select", idx])
                n = len(idx)
            else:
                steps.append([st[0]])
        q["steps"] = steps
    return q


def nontrivial(c):
    shapes = {(len(r["name"]), len(r["cigar"]), len(r["seq"]) % 2) for r in c["recs"]}
    return len(c["recs"]) >= 2 and len(shapes) >= 2


def finding_key(c, got, exp):
    op = c["op"]
    recs, refs = c["recs"], c["refs"]
    if isinstance(got, dict) and "err" in got:
        if not refs:
            return f"{op}:no-references:{got['err']}"
        return f"{op}:{got['err']}"
    if op in ("decode", "chunked"):
        g = got.get("recs") if isinstance(got, dict) else None
        e = exp["recs"]
        if isinstance(g, list) and len(g) == len(e):
            cols = ["chromosome", "name", "flag", "position", "mapq", "cigar_op", "cigar_length", "sequence", "quality"]
            bad = [(i, j) for i in range(len(e)) for j in range(9) if g[i][j] != e[i][j]]
            if bad:
                i, j = bad[0]
                if all(recs[a]["ref"] < 0 and b == 0 for a, b in bad):
                    return f"{op}:unmapped-record-gets-reference-name"
                if any(len(r["cigar"]) >= 16384 for r in recs):
                    return f"{op}:n_cigar>=16384:{cols[j]}"
                return f"{op}:wrong-{cols[j]}"
        if op == "decode" and isinstance(got, dict) and got.get("enc") != exp.get("enc"):
            return "decode:encoder-hash"
        return f"{op}:wrong-record-count"
    if op == "interval":
        for which in ("buf", "fn"):
            g = got.get(which)
            e = exp[which]
            if g != e:
                if isinstance(g, list) and len(g) == len(e):
                    bad = [(i, j) for i in range(len(e)) for j in range(6) if g[i][j] != e[i][j]]
                    if all(recs[a]["ref"] < 0 and b == 0 for a, b in bad):
                        return "interval:unmapped-record-gets-reference-name"
                    if any(len(r["cigar"]) >= 16384 for r in recs):
                        return "interval:n_cigar>=16384"
                    return f"interval:{which}:wrong-" + ["chromosome", "start", "stop", "name", "score", "strand"][bad[0][1]]
                return f"interval:{which}:wrong-count"
    if op == "tree":
        kinds = "-".join(st[0] + (str(st[2]) if st[0] == "sel" else "") + str(st[1]) for st in c["steps"])
        return "tree:" + ("error:" + got["err"] if isinstance(got, dict) and "err" in got else "wrong-observation") + ":" + kinds[:70]
    if op == "program":
        kinds = "-".join(st[0] for st in c["steps"])
        return "program:" + ("error:" + got["err"] if isinstance(got, dict) and "err" in got else "wrong-observation") + ":" + kinds[:60]
    if op == "write_then_read":
        if isinstance(got, dict) and got.get("written") == exp["written"]:
            return "write_then_read:selection-reads-differently-after-being-written"
        return "write_then_read:wrong-file"
    if op == "count":
        return "count_entries:wrong-count"
    if op == "write_modified":
        return "write:modified-values-silently-dropped"
    if op == "write":
        for k in ("eof", "refs", "recs"):
            if core.canon(got.get(k)) != core.canon(exp[k]):
                return f"write:{c['mode']}:{k}"
    return op


# ------------------------------------------------------------------ generators

NAMECH = [chr(x) for x in range(33, 127) if chr(x) != "@"]


def rand_tags(rng):
    """valid BAM auxiliary fields: A, c/C/s/S/i/I, f, Z (NUL-terminated), H, B arrays; NUL bytes occur naturally"""
    out = b""
    for _ in range(rng.choice([1, 1, 2, 3])):
        tag = (rng.choice("NXMYRBCZ") + rng.choice("MGSZ019")).encode()
        t = rng.choice("AcCsSiIfZHB")
        if t == "A":
            v = bytes([rng.randrange(33, 127)])
        elif t in "cCsSiI":
            v = struct.pack("<" + {"c": "b", "C": "B", "s": "h", "S": "H", "i": "i", "I": "I"}[t],
                            rng.choice([0, 1, 10, 127]) if t in "cC" else rng.choice([0, 1, 256, 32767]))
        elif t == "f":
            v = struct.pack("<f", rng.choice([0.0, -1.5, 1e-3, 3.25]))
        elif t == "Z":
            v = "".join(rng.choice("ACGT:;=\t 09az*") for _ in range(rng.choice([0, 1, 5, 20]))).encode() + b"\0"
        elif t == "H":
            v = "".join(rng.choice("0123456789ABCDEF") for _ in range(2 * rng.choice([0, 1, 4]))).encode() + b"\0"
        else:
            sub = rng.choice("cCsSiIf")
            n = rng.choice([0, 1, 3, 10])
            fmt = {"c": "b", "C": "B", "s": "h", "S": "H", "i": "i", "I": "I", "f": "f"}[sub]
            vals = [rng.choice([0, 1, 10, 100]) for _ in range(n)]
            v = sub.encode() + struct.pack("<I", n) + struct.pack("<" + fmt * n, *[float(x) if sub == "f" else x for x in vals])
        out += tag + t.encode() + v
    return list(out)


def rand_rec(rng, nref, giant=None):
    ref = -1 if (nref == 0 or rng.random() < 0.2) else rng.randrange(nref)
    nl = rng.choice([1, 1, 2, 3, 5, 8, 13, 254, rng.randrange(1, 41), rng.randrange(1, 255)])
    name = "".join(rng.choice(NAMECH) for _ in range(nl))
    ncig = rng.choice([0, 1, 1, 2, 3, 5, rng.randrange(0, 13), rng.randrange(0, 13), rng.randrange(60, 300)])
    if giant == "cigar":
        ncig = rng.choice([16383, 16384, 16385, 20000, 32768, 40000, 65535])
    big = [1, 1, 2, 3, 7, 100, 65535, 65536, (1 << 28) - 1]
    cigar = [[rng.choice(OPS), rng.choice(big + [rng.randrange(1, 1 << 28), rng.randrange(1, 300)])] for _ in range(ncig)]
    # keep pos + reference length inside int32 (validity bound of the format)
    pos = rng.choice([-1, 0, 0, 1, 255, 256, 65536, rng.randrange(0, 1 << 20), rng.randrange(0, (1 << 31) - 1)])
    lim = (1 << 31) - 1
    if giant == "cigar":
        cigar = [[o, rng.choice([1, 2, 3, 300, 65535])] for o, _ in cigar]
    while pos + sum(n for o, n in cigar if o in CONSUMING) >= lim:
        i = max(range(len(cigar)), key=lambda j: cigar[j][1])
        if cigar[i][1] <= 65535:
            pos = rng.randrange(0, 1000)
            if pos + sum(n for o, n in cigar if o in CONSUMING) >= lim:
                cigar = [[o, min(n, 300)] for o, n in cigar]
        else:
            cigar[i][1] = rng.randrange(1, 300)
    ls = rng.choice([0, 0, 1, 2, 3, 4, 5, 7, 8, rng.randrange(0, 41), rng.randrange(0, 41), rng.randrange(250, 600)])
    if giant == "seq":
        ls = rng.choice([255, 256, 257, 65535, 65536, 65537, 70001])
    seq = "".join(rng.choice(SEQ) for _ in range(ls))
    qual = [rng.choice([0, 93, rng.randrange(94)]) for _ in range(ls)]
    tags = [rng.randrange(256) for _ in range(rng.choice([0, 0, 1, 3, 4, 12]))] if rng.random() < 0.5 else rand_tags(rng)
    flag = rng.choice([0, 4, 16, 20, 0x10 | 0x1, 0xffef, 0xffff, rng.randrange(1 << 16)])
    i32 = lambda: rng.choice([-1, 0, rng.randrange(-(1 << 31), 1 << 31)])
    return {"ref": ref, "pos": pos, "mapq": rng.choice([0, 255, rng.randrange(256)]), "bin": rng.randrange(1 << 16), "flag": flag,
            "nref": i32(), "npos": i32(), "tlen": i32(), "name": name, "cigar": cigar, "seq": seq, "qual": qual, "tags": tags}


def rand_file(rng, nrec=None, giant=None, small=False):
    nref = rng.choice([0, 1, 2, 3, 4, 4, 30, 300])
    refs = [[rng.choice(["chr", "c", "scaffold_", "X", "HLA-A*01:01:01:0", "k" * 120 + "_"]) + str(i + 1) + rng.choice(["", "_alt", ".1"]),
             rng.choice([1, 1000, (1 << 31) - 1, rng.randrange(1, 1 << 31)])]
            for i in range(nref)]
    text = [rng.choice([64, 72, 68, 9, 10, 0, 255, rng.randrange(256)]) for _ in range(rng.choice([0, 0, 5, 17, 40, 300, 70000 if rng.random() < 0.05 else 1]))]
    if nrec is None:
        nrec = rng.choice([0, 1, 2, 2, 3, 4, 5, 8])
    recs = []
    for i in range(nrec):
        r = rand_rec(rng, nref, giant if i == nrec // 2 else None)
        if small:
            r["name"] = r["name"][:rng.choice([1, 2, 3])]
            r["cigar"] = r["cigar"][:2]
            r["seq"], r["qual"], r["tags"] = r["seq"][:3], r["qual"][:3], r["tags"][:1]
        recs.append(r)
    return {"refs": refs, "text": text, "recs": recs, "blk": rng.choice([1, 7, 36, 37, 64, 200, 4096, 65280]),
            "eof": rng.random() < 0.8}


def _ks(rng, c, every):
    sizes = [len(encode_record(r)) for r in c["recs"]]
    if not sizes:
        return [1, 50]
    lo, tot = max(sizes), sum(sizes)
    if every:
        return list(range(lo, tot + 3))
    cand = {lo, lo + 1, lo + 2, lo + 3, lo + 4, tot - 1, tot, tot + 1, 2 * lo, 5000000}
    pre = 0
    for s in sizes:     # chunk sizes that end exactly on / one off a record boundary
        pre += s
        cand |= {pre, pre + 1, pre - 1, pre + 3, pre + 4, pre + 5}
    cand = sorted(k for k in cand if k >= lo)
    extra = [rng.randrange(lo, tot + 3) for _ in range(4)]
    return sorted(set(rng.sample(cand, min(len(cand), 10)) + extra))


def cases(tier, rng):
    big = tier in ("thorough", "widen")
    f = 10 if big else 1
    # the smallest unmapped / no-reference / many-cigar-op situations first (deterministic)
    base = {"ref": 0, "pos": 10, "mapq": 30, "bin": 0, "flag": 0, "nref": -1, "npos": -1, "tlen": 0, "name": "r1",
            "cigar": [["M", 5], ["I", 2], ["D", 3]], "seq": "ACGTNAC", "qual": [1, 2, 3, 4, 5, 6, 7], "tags": []}
    unm = dict(base, ref=-1, pos=-1, flag=4, name="u", cigar=[], seq="ACG", qual=[9, 9, 9])
    rv = dict(base, ref=1, flag=16, name="x", cigar=[["S", 1], ["=", 3], ["X", 1], ["N", 10], ["H", 2], ["P", 1]], seq="ACGT",
              qual=[93, 0, 1, 2], tags=[1, 2, 3])
    two = [["chr1", 1000], ["chrX", 500]]
    for op in ("decode", "interval"):
        yield {"op": op, "refs": two, "text": [], "recs": [base, unm, rv], "blk": 4096, "eof": True}
        yield {"op": op, "refs": [], "text": [], "recs": [unm], "blk": 4096, "eof": True}
    yield {"op": "chunked", "refs": two, "text": [], "recs": [base, unm, rv], "blk": 50, "eof": True, "k": 64}
    for n in (16383, 16384, 20000):
        g = dict(base, cigar=[["M", 1], ["I", 1]] * (n // 2) + [["D", 1]] * (n % 2))
        yield {"op": "decode", "refs": two, "text": [], "recs": [g, rv], "blk": 65280, "eof": True}
    yield {"op": "interval", "refs": two, "text": [], "recs": [dict(base, cigar=[["M", 1], ["I", 1]] * 8192), rv], "blk": 65280, "eof": True}
    # extremes of every variable-length part in one file: empty seq / no cigar / name lengths 1 and 254 / 65535 ops
    ex = [dict(base, name="a", cigar=[], seq="", qual=[], tags=[]),
          dict(base, name="n" * 254, cigar=[["M", 1]], seq="A", qual=[0]),
          dict(unm, name="z" * 254, seq="AC", qual=[93, 93], tags=rand_tags(rng)),
          dict(base, name="g", cigar=[[OPS[i % 9], 1 + i % 7] for i in range(65535)], seq="ACG", qual=[1, 2, 3], tags=rand_tags(rng)),
          dict(rv, tags=list(b"XZZ\0") + list(b"YBBC") + [0, 0, 0, 0] + list(b"NMi") + [0, 0, 0, 0])]
    for op in ("decode", "interval"):
        yield {"op": op, "refs": two, "text": [0, 10, 0], "recs": ex, "blk": 65280, "eof": True}
    yield {"op": "write", "refs": two, "text": [], "recs": ex, "blk": 65280, "eof": True, "mode": "index", "idx": [4, 0, 3, 1]}
    # write back of integer-array selections of EQUAL-SIZED records: permutations that keep the first and the last record in
    # place, repetitions whose byte lengths add up to the spanned range, and the same with unequal sizes
    def eq_rec(i, extra=""):
        return dict(base, name="q%02d" % i + extra, pos=100 + i, flag=(16 if i % 2 else 0), mapq=i, cigar=[["M", 3 + (i % 3)], ["S", 1]],
                    seq="ACGTACG"[:5], qual=[i, 1, 2, 3, 4], tags=[65 + i])
    eq = [eq_rec(i) for i in range(6)]
    assert len({len(encode_record(r)) for r in eq}) == 1
    uneq = [eq_rec(i, "x" * (i % 3)) for i in range(6)]
    fixed_idx = [[0, 2, 1, 3, 4, 5], [1, 3, 2, 4], [0, 0, 2], [0, 1, 1, 3], [0, 3, 2, 1, 4, 5], [2, 2, 4], [0, 4, 3, 2, 1, 5], [1, 1, 3, 3, 5],
                 [0, 5], [5, 0], [0, 2, 4], [3, 3, 3, 3], [0, 1, 2, 3, 4, 5], [4, 5, 5], [0, 0, 1, 1, 2, 2]]
    for recs_ in (eq, uneq):
        for idx in fixed_idx:
            yield {"op": "write", "refs": two, "text": [], "recs": recs_, "blk": 4096, "eof": True, "mode": "index", "idx": idx}
        for _ in range(12 * f):
            n = rng.choice([4, 5, 6])
            if rng.random() < 0.5:      # permutation keeping both ends
                mid = list(range(1, n - 1))
                rng.shuffle(mid)
                idx = [0] + mid + [n - 1]
            else:                        # repetitions inside a span
                lo, hi = sorted(rng.sample(range(n), 2))
                idx = sorted(rng.choice(range(lo, hi + 1)) for _ in range(hi - lo + 1))
                idx[0] = lo
                if rng.random() < 0.5:
                    idx[-1] = hi
            yield {"op": "write", "refs": two, "text": [], "recs": recs_[:n], "blk": 4096, "eof": True, "mode": "index", "idx": idx}
    for bits in range(32):      # every boolean-mask selection of five records
        yield {"op": "write", "refs": two, "text": [], "recs": (eq if bits % 2 else uneq)[:5], "blk": 4096, "eof": True, "mode": "mask",
               "idx": [i for i in range(5) if bits >> i & 1]}
    # 28-bit CIGAR lengths >= 2^27, and files ending with zero-op records after a record whose last op consumes the reference
    bigc = dict(base, pos=5, cigar=[["S", (1 << 28) - 1], ["M", 1 << 27], ["I", (1 << 27) + 1], ["N", (1 << 27) + 3], ["H", 1 << 27]])
    tail0 = [dict(base, cigar=[["S", 2], ["M", 7]]), dict(base, name="z1", cigar=[]), dict(unm, name="z2", cigar=[])]
    for op in ("decode", "interval"):
        yield {"op": op, "refs": two, "text": [], "recs": [bigc, rv], "blk": 4096, "eof": True}
        yield {"op": op, "refs": two, "text": [], "recs": tail0, "blk": 4096, "eof": True}
        yield {"op": op, "refs": two, "text": [], "recs": [rv, dict(base, cigar=[["I", 3], ["D", 1 << 27]]), dict(base, name="e", cigar=[])], "blk": 4096, "eof": True}
    yield {"op": "chunked", "refs": two, "text": [], "recs": tail0, "blk": 64, "eof": True, "k": max(len(encode_record(r)) for r in tail0)}
    # two record sizes differing by one, chunk sizes around them
    for _ in range(30 * f):
        c = rand_file(rng, nrec=0)
        a = rand_rec(rng, len(c["refs"]))
        if len(a["name"]) >= 254:
            a["name"] = a["name"][:100]
        b = dict(rand_rec(rng, len(c["refs"])), name=a["name"] + "x", cigar=a["cigar"], seq=a["seq"], qual=a["qual"], tags=a["tags"])
        s = len(encode_record(a))
        assert len(encode_record(b)) == s + 1
        c["recs"] = rng.choice([[a, b], [b, a], [b, a, b], [a, b, a], [a, a, b, b]])
        for k in sorted({s + 1, s + 2, 2 * s, 2 * s + 1, 2 * s + 2, 2 * s + 3, 3 * s + 1, 3 * s + 2}):
            yield dict(c, op="chunked", k=k)
        yield dict(c, op="write", mode="chunks", idx=[], k=rng.choice([s + 1, s + 2, 2 * s + 1]))
    # a selection of a chunk: read one field, WRITE the selection (compacts it in place), read every field again
    FIELDS = ["chromosome", "name", "flag", "position", "mapq", "cigar_op", "cigar_length", "sequence", "quality"]
    for fld in FIELDS:
        for sel, idx in (("mask", [0, 2, 3]), ("index", [3, 0, 2]), ("slice", [1, 2, 3])):
            yield {"op": "write_then_read", "refs": two, "text": [], "recs": uneq[:5], "blk": 4096, "eof": True, "sel": sel, "idx": idx, "first": fld}
    for _ in range(30 * f):
        c = rand_file(rng, nrec=rng.choice([2, 3, 5]))
        n = len(c["recs"])
        sel = rng.choice(["mask", "index", "slice"])
        idx = sorted(rng.sample(range(n), rng.randrange(1, n + 1))) if sel != "index" else [rng.randrange(n) for _ in range(rng.choice([1, n, n + 1]))]
        yield dict(c, op="write_then_read", sel=sel, idx=idx, first=rng.choice(FIELDS))
    # selection PROGRAMS: selections of selections, writes between selections, reads after writes
    def rand_steps(n):
        steps, obs = [], 0
        for _ in range(rng.choice([2, 3, 3, 4, 6])):
            kind = rng.choice(["mask", "index", "slice", "slice", "write", "write", "fields"])
            if len(steps) == 1 and steps[0][0] in ("mask", "index") and rng.random() < 0.5:
                kind = rng.choice(["slice", "write"])      # a selection of a selection / a selection after a write
            if kind == "mask":
                idx = sorted(rng.sample(range(n), rng.randrange(0, n + 1))) if n else []
                steps.append(["mask", idx]); n = len(idx)
            elif kind == "index":
                idx = [rng.randrange(n) for _ in range(rng.choice([0, 1, n, n + 1]))] if n else []
                if n and rng.random() < 0.4:
                    idx = sorted(range(n), key=lambda i: -i)
                steps.append(["index", idx]); n = len(idx)
            elif kind == "slice":
                a = rng.randrange(0, n + 1); b = rng.randrange(a, n + 1)
                steps.append(["slice", a, b]); n = b - a
            else:
                steps.append([kind]); obs += 1
        if steps[-1][0] != "write":
            steps.append(["write"])
        return steps
    fixed_progs = [[["mask", [0, 1, 3, 4, 5]], ["slice", 1, 4], ["write"]], [["index", [5, 4, 3, 2, 1, 0]], ["slice", 0, 3], ["write"], ["fields"]],
                   [["mask", [1, 3, 4]], ["write"], ["mask", [0, 2]], ["write"], ["fields"]], [["index", [4, 0, 2]], ["write"], ["index", [2, 0]], ["write"]],
                   [["mask", [0, 2, 4]], ["write"], ["slice", 1, 3], ["write"]], [["slice", 1, 5], ["mask", [0, 3]], ["fields"], ["write"], ["slice", 1, 2], ["write"], ["fields"]],
                   [["index", [3, 3, 1]], ["fields"], ["write"], ["index", [1, 0, 0]], ["fields"], ["write"]]]
    for recs_ in (eq, uneq):
        for steps in fixed_progs:
            yield {"op": "program", "refs": two, "text": [], "recs": recs_, "blk": 4096, "eof": True, "steps": steps}
    for _ in range(160 * f):
        c = rand_file(rng, nrec=rng.choice([3, 4, 6, 8]))
        yield dict(c, op="program", steps=rand_steps(len(c["recs"])))
    # TREES of tables: a selection keeps its parent; the parent is read / selected from / written AFTER a child was written, etc.
    def rand_tree(n):
        lens, steps = [n], []
        for _ in range(rng.choice([3, 4, 5, 7])):
            kind = rng.choice(["sel", "sel", "write", "write", "fields"])
            i = rng.randrange(len(lens))
            if kind == "sel":
                m = lens[i]
                how = rng.choice(["mask", "index", "slice", "slice", "slice"])
                if how == "mask":
                    idx = sorted(rng.sample(range(m), rng.randrange(0, m + 1))) if m else []
                    steps.append(["sel", i, "mask", idx]); lens.append(len(idx))
                elif how == "index":
                    idx = [rng.randrange(m) for _ in range(rng.choice([1, m, m + 1]))] if m else []
                    steps.append(["sel", i, "index", idx]); lens.append(len(idx))
                else:
                    sl = rng.choice([[1, None, None], [None, -1, None], [None, None, 2], [None, None, -1], [1, None, 2],
                                     [rng.randrange(0, m + 1), rng.randrange(0, m + 1), None], [2, 5, None]])
                    steps.append(["sel", i, "slice", sl]); lens.append(len(range(m)[slice(*sl)]))
            else:
                steps.append([kind, i])
        steps.append(["fields", 0])
        steps.append(["write", rng.randrange(len(lens))])
        return steps
    fixed_trees = [[["sel", 0, "slice", [2, 5, None]], ["write", 1], ["fields", 0], ["sel", 0, "mask", [0, 3, 5]], ["write", 2]],
                   [["sel", 0, "slice", [None, None, 2]], ["write", 1], ["fields", 0], ["write", 0]],
                   [["sel", 0, "slice", [None, None, -1]], ["write", 1], ["fields", 0], ["fields", 1]],
                   [["sel", 0, "mask", [1, 2, 4]], ["sel", 1, "slice", [1, None, None]], ["write", 2], ["fields", 1], ["write", 1], ["fields", 0]],
                   [["sel", 0, "index", [5, 0, 3]], ["sel", 0, "slice", [1, 4, None]], ["write", 2], ["write", 1], ["fields", 0], ["fields", 2]],
                   [["sel", 0, "slice", [1, None, None]], ["sel", 1, "slice", [1, None, None]], ["write", 2], ["fields", 1], ["fields", 0], ["write", 1]]]
    for recs_ in (eq, uneq):
        for steps in fixed_trees:
            yield {"op": "tree", "refs": two, "text": [], "recs": recs_, "blk": 4096, "eof": True, "steps": steps}
    for _ in range(120 * f):
        c = rand_file(rng, nrec=rng.choice([3, 4, 6, 8]))
        yield dict(c, op="tree", steps=rand_tree(len(c["recs"])))
    # writer SESSIONS: several write calls on one open writer, among them calls the writer refuses (replaced values) and empty
    # tables — before, between and after valid writes: state left behind by a failed / empty call must not reach the file
    def rand_session(n, c):
        steps = []
        for _ in range(rng.choice([2, 2, 3, 4, 5])):
            kind = rng.choice(["whole", "sel", "sel", "mod", "mod", "empty", "stream"])
            if kind == "sel":
                how = rng.choice(["mask", "index", "slice"])
                if how == "mask":
                    steps.append(["sel", "mask", sorted(rng.sample(range(n), rng.randrange(0, n + 1)))])
                elif how == "index":
                    steps.append(["sel", "index", [rng.randrange(n) for _ in range(rng.choice([1, n, n + 1]))]])
                else:
                    steps.append(["sel", "slice", rng.choice([[1, None, None], [None, -1, None], [None, None, 2], [None, None, -1], [0, 0, None]])])
            elif kind == "mod":
                steps.append(["mod", rng.choice(["position", "mapq", "flag"]), rng.choice([None, None, [rng.randrange(n) for _ in range(rng.choice([1, n]))]])])
            elif kind == "stream":
                steps.append(["stream", rng.choice(_ks(rng, c, every=False))])
            else:
                steps.append([kind])
        if rng.random() < 0.5:      # a refused call FIRST (the header goes out with it), or between two valid ones
            steps.insert(rng.choice([0, 0, 1]), ["mod", rng.choice(["position", "mapq", "flag"]), None])
        if steps[-1][0] in ("mod", "empty"):
            steps.append(rng.choice([["whole"], ["sel", "index", [n - 1, 0]]]))
        return steps
    fixed_sessions = [[["mod", "position", None], ["whole"]], [["whole"], ["mod", "flag", None], ["whole"]], [["empty"], ["mod", "mapq", None], ["sel", "mask", [0, 2]]],
                      [["mod", "position", [1, 0]], ["mod", "position", None], ["sel", "index", [3, 3, 1]], ["empty"], ["whole"]],
                      [["empty"], ["empty"], ["whole"]], [["mod", "flag", None]], [["sel", "slice", [None, None, -1]], ["mod", "mapq", None], ["empty"]]]
    for recs_ in (eq, uneq):
        for steps in fixed_sessions:
            yield {"op": "session", "refs": two, "text": [], "recs": recs_[:4], "blk": 4096, "eof": True, "steps": steps}
    for _ in range(60 * f):
        c = rand_file(rng, nrec=rng.choice([1, 2, 3, 5]))
        for r in c["recs"]:
            r["pos"], r["mapq"], r["flag"] = min(r["pos"], 10 ** 6), min(r["mapq"], 200), min(r["flag"], 60000)
        yield dict(c, op="session", steps=rand_session(len(c["recs"]), c))
    # selections of HUNDREDS to a few thousand records (between the handful above and whole real files): index arrays as users
    # get them from np.repeat / np.searchsorted / sorted sampling with replacement (in file order WITH repeats), np.tile, strided and
    # reversed slices, masks, permutations — written back (and read after the write)
    def many(n):
        return [dict(base, name="m%d" % i + "x" * (i % 3), pos=7 * i, flag=(16 if i % 2 else 0), mapq=i % 200, cigar=[["M", 1 + i % 4]] + ([["S", 1]] if i % 5 == 0 else []),
                     seq="ACGT"[:1 + i % 4], qual=[i % 90] * (1 + i % 4), tags=[]) for i in range(n)]
    for how in ["repeat", "searchsorted", "sample_sorted", "tile", "every_other_twice", "perm", "reverse"] * (3 if big else 1):
        n = rng.choice([300, 520, 700, 1100, 2100])
        if how == "repeat":
            idx = [i for i in range(0, n, rng.choice([1, 2, 3])) for _ in range(rng.choice([1, 2, 2, 3]))]
        elif how == "searchsorted":
            q = sorted(rng.randrange(0, 7 * n) for _ in range(rng.choice([n, n + n // 2])))
            idx = [min(n - 1, x // 7) for x in q]
        elif how == "sample_sorted":
            idx = sorted(rng.randrange(n) for _ in range(rng.choice([n // 2 + 300, n])))
        elif how == "tile":
            idx = list(range(0, n, 2)) * 2
        elif how == "every_other_twice":
            idx = [i for i in range(0, n, 2) for _ in (0, 1)]
        elif how == "perm":
            idx = rng.sample(range(n), n)
        else:
            idx = list(range(n - 1, -1, -1))
        c = {"refs": two, "text": [], "recs": many(n), "blk": 65280, "eof": True}
        if rng.random() < 0.5:
            yield dict(c, op="write", mode="index", idx=idx)
        else:
            yield dict(c, op="write_then_read", sel="index", idx=idx, first=rng.choice(FIELDS))
    for n in (520, 1030):
        yield {"op": "write", "refs": two, "text": [], "recs": many(n), "blk": 65280, "eof": True, "mode": "mask", "idx": [i for i in range(n) if i % 3]}
    # eager reading (BamBuffer.get_data / BamIntervalBuffer.get_data), count_entries, writing a chunk with replaced values
    yield {"op": "count", "refs": two, "text": [], "recs": [base, unm, rv], "blk": 4096, "eof": True}
    for _ in range(40 * f):
        c = rand_file(rng)
        yield dict(c, op=rng.choice(["decode", "interval"]), lazy=False)
        yield dict(rand_file(rng), op="count")
    for _ in range(15 * f):
        c = rand_file(rng, nrec=rng.choice([1, 2, 3, 4]), small=True)
        for k in _ks(rng, c, every=False)[:4]:
            yield dict(c, op="chunked", k=k, lazy=False)
    for _ in range(20 * f):
        c = rand_file(rng, nrec=rng.choice([1, 2, 4]))
        fld = rng.choice(["position", "mapq", "flag"])
        for r in c["recs"]:
            r["pos"], r["mapq"], r["flag"] = min(r["pos"], 10 ** 6), min(r["mapq"], 200), min(r["flag"], 60000)
        yield dict(c, op="write_modified", field=fld)
    # random files
    for _ in range(500 * f):
        yield dict(rand_file(rng), op="decode")
    for g in ("cigar", "seq") * (4 if big else 1):
        yield dict(rand_file(rng, nrec=rng.choice([1, 2, 3]), giant=g), op="decode")
    for _ in range(250 * f):
        yield dict(rand_file(rng), op="interval")
    for _ in range(40 * f):
        c = rand_file(rng, nrec=rng.choice([1, 2, 3, 4]), small=True)
        for k in _ks(rng, c, every=big):
            yield dict(c, op="chunked", k=k)
    for _ in range(120 * f):
        c = rand_file(rng, nrec=rng.choice([2, 3, 4, 5, 8, 12]))
        for k in _ks(rng, c, every=False):
            yield dict(c, op="chunked", k=k)
        k = rng.choice(_ks(rng, c, every=False))     # the documented max_chunk_size keyword, large enough never to bind
        yield dict(c, op="chunked", k=k, max=2 * k + max_rec(c) + rng.choice([0, 1, 1000]))
    for _ in range(5 * f):     # chunk sizes below the largest record: outside the domain (oracle SKIP), model still compared
        c = rand_file(rng, nrec=3)
        if c["recs"]:
            yield dict(c, op="chunked", k=max(1, max_rec(c) - rng.choice([1, 2, 30])))
    for _ in range(200 * f):
        c = rand_file(rng, nrec=rng.choice([1, 2, 3, 4, 6]))
        n = len(c["recs"])
        mode = rng.choice(["whole", "mask", "index", "index", "chunks"])
        if mode == "mask":
            idx = sorted(rng.sample(range(n), rng.randrange(0, n + 1)))
        elif mode == "index":
            idx = [rng.randrange(n) for _ in range(rng.choice([0, 1, n, n + 2]))] if rng.random() < 0.5 else rng.sample(range(n), n)
        else:
            idx = []
        c = dict(c, op="write", mode=mode, idx=idx)
        if mode == "chunks":
            c["k"] = rng.choice(_ks(rng, c, every=False))
        yield c


# ------------------------------------------------------------------ tabulation of the running code -> Gen/C16.lean

PROBE_PAD = 1100
PROBE_OFFSETS = [4, 8, 9, 10, 11, 12, 13, 14, 15, 16, 17, 18, 19, 20, 21] + list(range(24, 36))


def _read_raw(refs, body):
    import bionumpy as bnp
    p = _path("gen")
    try:
        with open(p, "wb") as f:
            f.write(bgzf(encode_header(refs, b"") + body, 60000))
        return bnp.open(p).read()
    finally:
        if os.path.exists(p):
            os.remove(p)


def tabulate():
    from bionumpy.alignments import alignment_to_interval
    two = [["a", 10], ["b", 10]]
    base = {"ref": 0, "pos": 0, "mapq": 0, "bin": 0, "flag": 0, "nref": 0, "npos": 0, "tlen": 0, "name": "n", "cigar": [],
            "seq": "", "qual": [], "tags": []}
    # alphabets: one record with all nine ops and all sixteen sequence codes
    d = _read_raw(two, encode_record(dict(base, cigar=[[o, 1] for o in OPS], seq=SEQ, qual=[0] * 16)))
    cig_letters = [ord(ch) for ch in d.cigar_op.tolist()[0]]
    seq_letters = [ord(ch) for ch in d.sequence.tolist()[0]]
    # consuming set: nine records with a single op of length 1
    d = _read_raw(two, b"".join(encode_record(dict(base, cigar=[[o, 1]])) for o in OPS))
    iv = alignment_to_interval(d)
    consumes = [bool(int(e) - int(s)) for s, e in zip(iv.start, iv.stop)]
    # the two repaired rules
    d = _read_raw(two, encode_record(dict(base, ref=-1)))
    old_chrom = d.chromosome.tolist()[0] == "b"
    d = _read_raw(two, encode_record(dict(base, cigar=[["M", 1]] * 16384, seq="AC", qual=[1, 2])))
    old_cig = len(d.cigar_length.tolist()[0]) != 16384
    # fixed-offset probe
    probe = []
    tmpl = bytearray(struct.pack("<I", 32 + PROBE_PAD) + bytes(8) + b"\x01" + bytes(23 + PROBE_PAD))
    for o in PROBE_OFFSETS:
        t = bytearray(tmpl)
        t[o] += 1
        d = _read_raw(two, bytes(t))
        chrom = d.chromosome.tolist()[0]
        probe.append([{"a": 0, "b": 1}.get(chrom, -1), int(d.position[0]), len(d.name.tolist()[0]), int(d.mapq[0]),
                      len(d.cigar_op.tolist()[0]), int(d.flag[0]), len(d.sequence.tolist()[0]), len(d.quality.tolist()[0])])
    # the EOF block the writer appends: last 28 bytes of a written file
    import bionumpy as bnp
    d = _read_raw(two, encode_record(base))
    out = _path("geneof")
    try:
        with bnp.open(out, "w") as f:
            f.write(d)
        eof = list(open(out, "rb").read()[-28:])
    finally:
        if os.path.exists(out):
            os.remove(out)
    return cig_letters, seq_letters, consumes, old_chrom, old_cig, probe, eof


def regenerate():
    cig_letters, seq_letters, consumes, old_chrom, old_cig, probe, eof = tabulate()
    b = lambda x: "true" if x else "false"
    out = ["import BnpVerif.Model.C16",
           "/-! GENERATED on every run by harness/props/c16.py from the package imported from /repo (behavioural tabulation",
           "through `bnp.open(file).read()` / `alignment_to_interval` on files written by the independent encoder). Do not edit. -/",
           "namespace Gen.C16", "",
           "/-- letters shown for CIGAR op codes 0..8 -/",
           f"def cigarLetters : List Nat := {cig_letters}",
           "/-- letters shown for sequence codes 0..15 -/",
           f"def seqLetters : List Nat := {seq_letters}",
           "/-- does a single op of this code advance the reference? (codes 0..8) -/",
           f"def consumes : List Bool := [{', '.join(b(x) for x in consumes)}]",
           "/-- the op codes that advance the reference (positions of `true` above): what `count_reference_length` compares with -/",
           f"def consumingCodes : List Nat := {[i for i, x in enumerate(consumes) if x]}",
           "/-- last 28 bytes of a file written by `bnp.open(f, 'w')` -/",
           f"def eofMarker : List Nat := {eof}",
           "/-- does refID = -1 select the LAST reference name (shipped rule)? -/",
           f"def oldChrom : Bool := {b(old_chrom)}",
           "/-- does `n_cigar_op * 4` wrap at 2^16 (shipped rule)? -/",
           f"def oldCig : Bool := {b(old_cig)}",
           f"def probePad : Nat := {PROBE_PAD}",
           f"def probeOffsets : List Nat := {PROBE_OFFSETS}",
           "/-- per incremented byte offset: (ref index, pos, name length, mapq, #cigar ops, flag, seq length, qual length) -/",
           "def probe : List (List Int) := [" + ", ".join("[" + ", ".join(str(v) for v in row) + "]" for row in probe) + "]",
           "", "end Gen.C16", ""]
    return [("BnpVerif/Gen/C16.lean", "\n".join(out))]
