"""C11 — streamed evaluation equals in-memory evaluation for every chunking."""
import itertools
from fractions import Fraction

import numpy as np

from .. import core
from ..core import SKIP

ID = "C11"
PARALLEL = 16
CASE_TIMEOUT_S = 30
RULE = ("exhaustive: every dataset of n <= 10 (quick: n <= 7) sorted entries x all 2^(n-1) ways of cutting it into consecutive "
        "chunks: group-by on every key pattern (which neighbours share a key; key texts ordinary names and, as a second dimension, "
        "neighbouring keys differing only by edge blanks / case / control characters / number spelling) for the encoded-ragged key column (first=last "
        "shortcut; every (pattern, chunking) pair for n <= 9 / 7, a seeded 15% of the 4^9 pairs for n = 10) and for string and "
        "integer key columns (n <= 8 / 5); an empty chunk at every position of every chunking of n <= 4; mean (1-d, axis 0, "
        "axis 1) / bincount / quantile / histogram (explicit edges, bins+range) / k-mer counts (k=1,2,3; 4- and 5-letter "
        "alphabets) / chunk_entries / chunk_lines (n_entries 0..n+1) on fixed datasets, chunks made as fresh tables, slices, "
        "index arrays or masks; > 10^6 k-mers in one chunk and chunkings around the 1,000,000 block of count_encoded; "
        "computation graphs (shared streams, unused nodes, stream roots, comparisons, node[mask_node], sum / mean / histogram "
        "reductions alone and joined, several roots, dict and pass-through compute) on all chunkings of n <= 6 / 5; seeded "
        "random larger datasets (n <= 40) and random graphs; stream=True genome pipelines (1-4 chromosomes, some empty): "
        "pile-up histogram / sum / mask / data, values under windows (plain, stranded incl. '.'), their mean / max / sum / "
        "row sums / column means, merged, chromosome_map merge, bedgraph track, extended_to_size, ufuncs on tracks; history "
        "pairs (a result must survive a later call). Non-trivial = at least 2 chunks and (a cut inside a group, an empty or "
        "single-entry chunk, or a short last chunk)")
EXHAUSTIVE = {"quick": True, "thorough": True}
MODEL_OPS = {"mean_axis0", "rowmean", "quantile", "mean", "bincount", "histogram", "count_kmers", "groupby", "chunk_entries", "chunk_lines", "graph", "graph_many", "pipeline"}
ASSUMPTIONS = [
    "per-chunk functions are NumPy externals (np.bincount, np.histogram with explicit edges, np.sum) modelled by their list-level meaning",
    "itertools.groupby / itertools.chain merge consecutive equal keys (modelled as joinGroups)",
    "np.concatenate of table chunks = list append; table slicing data[a:b] = drop/take",
    "float results: data is exactly representable (integers, quarters), so re-association does not round; IEEE rounding is runtime",
    "chunks are built as fresh tables (integer row indexing of *sliced* ragged columns raises TypeError inside npstructures 0.2.19 "
    "under NumPy 2.5, outside /repo)",
]
TRUSTED_EXTRA = ["k-mer windows per row are taken at specification level here (row-locality of the rolling window is C13's subject)",
                 "per-chromosome pileup/mask arithmetic is C08-C10's subject; here only streamed == in-memory == dense oracle"]
MANIFEST = {
    "text": "Lean 4 theorems for every stream (list of chunks) = every chunking of its concatenation, by induction over the chunk "
            "list: mean as (sum,n) pairs, padded in-place bincount addition, histogram addition for explicit edges, k-mer count "
            "sums, group-by (change points + first=last shortcut, joined across chunks) = runs of the whole data for contiguous "
            "keys — with the shortcut exactly when every chunk with equal end keys is constant (groupby_fast_iff) —, "
            "chunk_entries/chunk_lines = the canonical cut into pieces of exactly n (last 1..n), idempotent, raising iff n = 0; "
            "refutations of the shipped "
            "chunk_entries ([10], n=3 -> [3,7]), chunk_lines (empty trailing chunk) and StreamNode.compute (first chunk lost). "
            "Computation graph: an interpreter with per-node (buffer index, current buffer, pull count) state mirrors "
            "computation_graph.py; proved for every graph in construction order (shared streams, unused nodes), for one root and "
            "for several roots computed together: one round keeps all needed nodes at the same index, no assertion fires, each "
            "stream is pulled once per index (graph_lockstep[_many]); get_iter yields the per-buffer values and stops cleanly; "
            "compute() of element-wise expressions = the expression in memory on the concatenated streams for every common "
            "cutting (graph_value[_many]); np.sum / np.mean (sum,n) / np.histogram(edges) reduction nodes, alone or joined, fold to "
            "their in-memory value (graph_reduced_value); node[mask_node] = the filter of the concatenation "
            "(graph_filter_value); any composition of element-wise nodes and mask selections, and reductions over them "
            "(a[m] + 1, np.sum(a[m]), a[m1][m2]: graph_value_sel, graph_reduced_filter_value, under buffer-wise shape "
            "correctness of the streamed run). The streamed reductions are error-valued where the code raises: no chunks -> "
            "TypeError / StopIteration (meanStream_error_iff, bincountStream_none_iff, histogramStream_stop_iff, "
            "quantileStream_emptyStream_iff), no data -> quantile IndexError in both modes (quantileMem_noData_iff), decreasing "
            "histogram edges -> ValueError in both modes (histogramMem_error_iff). stream=True genome pipelines: chunks -> group-by -> iter_chromosomes "
            "(model of the genome-order walk) -> per-chromosome pile-up / mask / sum / values under chromosome-sorted peaks, "
            "concatenated, = the whole-genome in-memory result of C10 (per_chromosome, per_chromosome_data_hist, per_chromosome_windows "
            "[get_location('start').get_windows(flank= | window_size=), even and odd sizes], per_chromosome_values; uses C10.cover_local "
            "and C10.extract_reversed). Correspondence: all 2^(n-1) chunkings of every small sorted dataset x every computation, "
            "graphs / reductions / multi-root / pipelines, impl vs Lean model vs Lean spec vs pure-Python oracle vs the "
            "implementation's own in-memory result; lazily read file chunks (six formats) through the re-chunking helpers are also "
            "observed by the bytes they write.",
    "note": "mean_chunks_partial: exact integer arithmetic, float rounding is runtime (data exactly representable). histogram is "
            "claimed for explicit edges / range; NumPy's data-dependent default bins are run every check and reported as the known "
            "finding histogram:default-bins. Graph node functions are the element-wise binary ufuncs with scalar constants and the "
            "three reductions; the joining node's own buffer index is not modelled (only its own iterator advances it). In the "
            "pipeline theorems get_pileup / slicing per chromosome are NumPy/npstructures externals at list level; stranded "
            "extraction, merged() and means of values under intervals are corresponded only. The n = 10 group-by scope is a "
            "seeded 15% of the 4^9 (key pattern, chunking) pairs in the thorough tier; n <= 9 is exhaustive.",
    "technique": "Lean 4 proofs by induction over the chunk list / interpreter invariants + executable model run against the implementation on all chunkings of small datasets",
    "design": "§6 C11",
}

LABELS = ["chr1", "chr10", "chr11", "x", "chr2", "chrY", "c", "chr12", "z9", "w", "chr3", "q"]   # neighbours that are prefixes of each other first
# the TEXT of the group keys is a case dimension ("lab"): besides the ordinary names, neighbouring keys that a tidy-up of the
# key (strip / rstrip / lower / collapse blanks / int() / float()) would identify — different keys are different groups
LABELSETS = [
    LABELS,
    ["t cell", "t cell ", " t cell", "T cell", "t  cell", "t cell\t", "t_cell", "t cell x", "t cell\r", "T CELL", "t cell.", "tcell"],
    ["1", "01", "1 ", "1.0", "+1", "1e0", "001", " 1", "0x1", "1.", "1,0", "10"],
    ["a", "a ", "A", " a", "a\r", "\ta", "a.", "a  ", "a\x0b", "a_", "a;", "aa"],
]
VALS = [3, 0, 5, 5, 1, 7, 2, 0, 9, 4, 6, 1]
VALS2 = [0, 0, 2, 1, 8, 8, 3, 12, 0, 5]
SEQS5 = ["ACGTN", "NNA", "A", "", "NACN", "TTN", "GNNG", "N", "ACGT", "NN"]
SEQS = ["ACGT", "AC", "GGTA", "A", "TTTT", "CAGT", "", "ACG", "TGCA", "CC", "GATTACA", "AAC"]

_CACHE = {}


def _mods():
    if "m" in _CACHE:
        return _CACHE["m"]
    import bionumpy as bnp
    from bionumpy.bnpdataclass import bnpdataclass
    from bionumpy.typing import SequenceID
    from bionumpy.streams import NpDataclassStream, BnpStream
    from bionumpy.streams.chunk_entries import chunk_entries
    from bionumpy.io.parser import chunk_lines
    from bionumpy.sequence import count_kmers
    from bionumpy import computation_graph as cg
    from bionumpy.datatypes import Interval

    @bnpdataclass
    class E:
        name: str
        chrom: SequenceID
        key: int
        id: int

    @bnpdataclass
    class Er:
        name: str
        id: int

    @bnpdataclass
    class Es:
        chrom: SequenceID
        id: int

    @bnpdataclass
    class Ei:
        key: int
        id: int

    @bnpdataclass
    class V:
        val: int

    @bnpdataclass
    class F:
        val: float

    m = dict(bnp=bnp, E=E, Er=Er, Es=Es, Ei=Ei, V=V, F=F, NpDataclassStream=NpDataclassStream, BnpStream=BnpStream, chunk_entries=chunk_entries,
             chunk_lines=chunk_lines, count_kmers=count_kmers, cg=cg, Interval=Interval)
    _CACHE["m"] = m
    return m


# ---------------------------------------------------------------- cases

def _cut(xs, mask):
    """cut list xs after position i when bit i of mask is set"""
    out, cur = [], []
    for i, x in enumerate(xs):
        cur.append(x)
        if i == len(xs) - 1 or (mask >> i) & 1:
            out.append(cur)
            cur = []
    return out


def _keys_from_pattern(n, pat):
    ks, k = [], 0
    for i in range(n):
        if i and (pat >> (i - 1)) & 1:
            k += 1
        ks.append(k)
    return ks


def _graphs_fixed():
    """expression shapes over streams 0 (a) and 1 (b): shared streams, constants, unused nodes, stream root"""
    N, C = (lambda i: {"node": i}), (lambda c: {"const": c})
    return [
        ([("add", N(0), N(1))], 2),
        ([("add", N(0), N(1)), ("mul", N(2), N(0))], 3),                       # a shared by two parents
        ([("add", N(0), C(1)), ("mul", N(0), C(2)), ("add", N(2), N(3))], 4),     # diamond on a
        ([("sub", C(10), N(1)), ("mul", N(0), N(0)), ("add", N(3), N(2))], 4),
        ([("add", N(0), N(1)), ("mul", N(0), C(3))], 3),                        # node 2 is never used
        ([("add", N(0), N(1))], 0),                                             # root is a stream node
        ([("add", N(0), C(5)), ("sub", N(2), N(1)), ("mul", N(3), N(3)), ("add", N(4), N(2))], 5),
    ]


def _many_fixed():
    """(comps over streams 0 (a) and 1 (b), roots, mode): reductions (alone / several together, sharing
    sub-expressions, created before and after other nodes) and several roots computed together"""
    N, C = (lambda i: {"node": i}), (lambda c: {"const": c})
    R = lambda f, i, **kw: dict({"f": f, "a": N(i), "b": C(0)}, **kw)
    E = [0, 2, 4, 6, 8]
    return [
        ([("mul", N(0), C(2)), ("add", N(2), C(1)), R("sum", 3)], [4], "reduce"),
        ([("add", N(0), C(1)), R("sumN", 2)], [3], "reduce"),
        ([R("hist", 0, edges=E)], [2], "reduce"),
        ([R("hist", 0, edges=E), R("sum", 0)], [2, 3], "reduce"),
        ([R("hist", 0, edges=E), ("add", N(0), N(1)), R("sum", 3), R("sumN", 1), R("hist", 3, edges=[0, 50, 100, 200])],
         [2, 4, 5, 6], "reduce"),
        ([("add", N(0), C(1)), ("mul", N(0), C(2)), ("add", N(3), N(2))], [2, 3, 4], "concat"),
        ([("add", N(0), N(1)), ("mul", N(2), N(0))], [3, 0, 2], "concat"),
        ([("sub", N(1), N(0))], [2], "concat"),
        # boolean-mask indexing of a node by a node, comparisons
        ([("add", N(0), C(0)), ("gt", N(0), C(2)), ("sel", N(2), N(3))], [4], "concat"),
        ([("add", N(0), N(1)), ("gt", N(1), N(2)), ("sel", N(2), N(3)), ("gt", N(0), C(4))], [4, 5, 2], "concat"),
        ([("mul", N(0), C(2)), ("gt", C(5), N(0)), ("sel", N(2), N(3))], [4], "concat"),
        # compositions with a selection BELOW other nodes (graph_value_sel, graph_reduced_filter_value), x = a + 0, y = b * 1
        # (a StreamNode itself has no __getitem__): np.sum(x[x > 2]); x[x > 2] + 1; x[m] + y[m]; mean / histogram of x[m1][m2]
        ([("add", N(0), C(0)), ("gt", N(2), C(2)), ("sel", N(2), N(3)), R("sum", 4)], [5], "reduce"),
        ([("add", N(0), C(0)), ("gt", N(0), C(2)), ("sel", N(2), N(3)), ("add", N(4), C(1))], [5], "concat"),
        ([("add", N(0), C(0)), ("mul", N(1), C(1)), ("gt", N(0), C(2)), ("sel", N(2), N(4)), ("sel", N(3), N(4)), ("add", N(5), N(6))],
         [7, 5], "concat"),
        ([("add", N(0), C(0)), ("gt", N(0), C(2)), ("sel", N(2), N(3)), ("gt", N(4), C(4)), ("sel", N(4), N(5)), R("sumN", 6),
          R("hist", 4, edges=E)], [7, 8], "reduce"),
    ]


def _mk_many(chunks_a, chunks_b, comps, roots, mode):
    nodes = [{"k": "stream", "chunks": chunks_a}, {"k": "stream", "chunks": chunks_b}]
    for cdef in comps:
        if isinstance(cdef, dict):
            nodes.append(dict({"k": "comp"}, **cdef))
        else:
            nodes.append({"k": "comp", "f": cdef[0], "a": cdef[1], "b": cdef[2]})
    return {"op": "graph_many", "nodes": nodes, "roots": roots, "mode": mode}


def _mk_graph(chunks_a, chunks_b, comps, root):
    nodes = [{"k": "stream", "chunks": chunks_a}, {"k": "stream", "chunks": chunks_b}]
    for f, a, b in comps:
        nodes.append({"k": "comp", "f": f, "a": a, "b": b})
    return {"op": "graph", "nodes": nodes, "root": root}


def cases(tier, rng):
    big = tier in ("thorough", "widen")
    N = 10 if big else 7
    NS = 8 if big else 5          # string / int key columns
    NG = 6 if big else 5
    # 0. NumPy's data-dependent default bins (domain note of the design): run every check
    for data in ([1, 3, 0, 2, 4], [0, 0, 7, 1]):
        for mask in range(2 ** (len(data) - 1)):
            yield {"op": "histogram_default", "chunks": _cut(data, mask)}
    # 0b. scale thresholds: count_encoded counts in blocks of 1,000,000 values. One chunk / the in-memory data holding exactly
    #     the block size, one more, 1.08 block, exactly two blocks; chunkings with a chunk above and one below the block size
    for nreads, rlen, cuts in ((25000, 44, []), (25001, 44, []), (30000, 40, []), (50000, 44, []), (30000, 40, [29000]),
                               (30000, 40, [1000]), (30000, 40, [10000, 20000]), (56000, 40, [28000])):
        yield {"op": "count_kmers_big", "nreads": nreads, "rlen": rlen, "k": 5, "cuts": cuts, "seed": 7 + nreads % 5,
               "chunks": [[0]] * (len(cuts) + 1)}
    # 0d. re-chunking to n < 1 entries is refused (ValueError), never an endless stream of empty chunks
    for ch in ([[0, 1, 2]], [[0], [1, 2]], []):
        yield {"op": "chunk_entries", "chunks": ch, "n": 0}
        yield {"op": "chunk_lines", "chunks": ch, "n": 0}
    # 0c. empty chunks (an empty table in the stream: a filtered-out chunk, an empty file part) at every position of
    #     every chunking of n <= 4 entries (groupby returns no groups for an empty table since 5241510)
    for n in range(1, 5):
        for mask in range(2 ** (n - 1)):
            for pos in range(0, n + 1):
                def ins(ch):
                    ch = list(ch)
                    k = min(pos, len(ch))
                    return ch[:k] + [[]] + ch[k:] + ([[]] if pos == n else [])
                vals = VALS[:n]
                yield {"op": "mean", "chunks": ins(_cut(vals, mask)), "scale": 1}
                yield {"op": "bincount", "chunks": ins(_cut(vals, mask)), "minlength": 0}
                yield {"op": "histogram", "chunks": ins(_cut(vals, mask)), "edges": [0, 2, 4, 6, 8], "how": "edges"}
                yield {"op": "chunk_entries", "chunks": ins(_cut(list(range(n)), mask)), "n": 2}
                yield {"op": "chunk_lines", "chunks": ins(_cut(list(range(n)), mask)), "n": 2}
                seqs = [[("ACGT".index(ch_)) for ch_ in s_] for s_ in SEQS[:n]]
                yield {"op": "count_kmers", "chunks": ins(_cut(seqs, mask)), "k": 2}
                for kt in ("ragged", "str", "int"):
                    ks = _keys_from_pattern(n, (mask * 5 + pos) % (2 ** (n - 1)) if n > 1 else 0)
                    yield {"op": "groupby", "kt": kt, "fast": kt == "ragged",
                           "chunks": ins(_cut([[k, i] for i, k in enumerate(ks)], mask))}
                    if kt != "int":
                        yield {"op": "groupby", "kt": kt, "fast": kt == "ragged", "lab": 1 + (mask + pos + n) % 3,
                               "chunks": ins(_cut([[k, i] for i, k in enumerate(ks)], mask))}
    # 0d. the borders of the reductions' domain (audit review #1-#3): the stream WITHOUT chunks (zero chunks is a
    #     chunking of the empty array: in memory mean -> nan, bincount -> minlength zeros, histogram -> zero counts,
    #     quantile -> IndexError), streams whose chunks are ALL empty, edges that decrease / are equal / are fewer than two
    for ch in ([], [[]], [[], []], [[], [], []]):
        yield {"op": "mean", "chunks": ch, "scale": 1}
        yield {"op": "bincount", "chunks": ch, "minlength": 0}
        yield {"op": "bincount", "chunks": ch, "minlength": 3}
        yield {"op": "histogram", "chunks": ch, "edges": [0, 2, 4], "how": "edges"}
        yield {"op": "histogram", "chunks": ch, "edges": [4, 2], "how": "edges"}
        yield {"op": "quantile", "chunks": ch, "qp": 1, "qd": 2}
        yield {"op": "mean_axis0", "chunks": ch, "w": 2}
    for ch in ([[1, 2, 1]], [[1, 2], [1]], [[1], [], [2, 1]], [[], [1, 2, 1]]):
        for edges in ([], [3], [1], [3, 1], [1, 3, 2], [0, 2, 1, 5], [1, 1], [1, 1, 2], [0, 2, 2, 5], [2, 2, 2]):
            yield {"op": "histogram", "chunks": ch, "edges": edges, "how": "edges"}
    # 1. exhaustive chunkings
    for n in range(1, N + 1):
        for mask in range(2 ** (n - 1)):
            if n <= (8 if big else 6):
                for w in (1, 3):
                    rows2 = [[VALS[(i + j) % len(VALS)] - 2 * j for j in range(w)] for i in range(n)]
                    yield {"op": "mean_axis0", "chunks": _cut(rows2, mask), "w": w}
                    yield {"op": "rowmean", "chunks": _cut(rows2, mask), "w": w}
                for p_, d_ in ((1, 2), (1, 4), (3, 4), (0, 1), (1, 1)):
                    yield {"op": "quantile", "chunks": _cut(VALS[:n], mask), "qp": p_, "qd": d_}
                seqs5 = [[("ACGTN".index(ch_)) for ch_ in s_] for s_ in SEQS5[:n]]
                for k in (1, 2):
                    yield {"op": "count_kmers", "chunks": _cut(seqs5, mask), "k": k, "A": 5}
            for vals in (VALS[:n], VALS2[:n]):
                ch = _cut(vals, mask)
                yield {"op": "mean", "chunks": ch, "scale": 1}
                yield {"op": "mean", "chunks": [[v - 4 for v in c] for c in ch], "scale": 4}
                yield {"op": "bincount", "chunks": ch, "minlength": 0}
                yield {"op": "bincount", "chunks": ch, "minlength": 6}
                yield {"op": "histogram", "chunks": ch, "edges": [0, 2, 4, 6, 8], "how": "edges"}
                yield {"op": "histogram", "chunks": [[v - 3 for v in c] for c in ch], "edges": [-3, 0, 3, 6, 9], "how": "range"}
                yield {"op": "histogram", "chunks": ch, "edges": [1, 2, 5, 12], "how": "edges"}
            ids = list(range(n))
            for ne in sorted({1, 2, 3, n - 1, n, n + 1} - {0}):
                yield {"op": "chunk_entries", "chunks": _cut(ids, mask), "n": ne}
                yield {"op": "chunk_lines", "chunks": _cut(ids, mask), "n": ne}
            seqs = [[("ACGT".index(ch_)) for ch_ in s] for s in SEQS[:n]]
            for k in (1, 2, 3):
                yield {"op": "count_kmers", "chunks": _cut(seqs, mask), "k": k}
            if n <= (8 if big else 6):
                yield {"op": "count_kmers_rows", "chunks": _cut(seqs, mask), "k": 2}      # the `axis=-1` keyword: one count vector per read
            for kt, lim in (("ragged", N), ("str", NS), ("int", NS)):
                if n > lim:
                    continue
                for pat in range(2 ** (n - 1)):
                    if n == 10 and rng.random() >= 0.15:
                        continue            # largest scope: a seeded 15% of the 4^9 (pattern, chunking) pairs
                    ks = _keys_from_pattern(n, pat)
                    yield {"op": "groupby", "kt": kt, "fast": kt == "ragged",
                           "chunks": _cut([[k, i] for i, k in enumerate(ks)], mask)}
                    if kt != "int" and n <= (8 if big else 6):
                        # the same pattern and chunking with keys that differ only by edge blanks / case / number spelling
                        yield {"op": "groupby", "kt": kt, "fast": kt == "ragged", "lab": 1 + (pat + mask) % 3,
                               "chunks": _cut([[k, i] for i, k in enumerate(ks)], mask)}
            if n <= NG:
                a, b = VALS[:n], [10 * v + 1 for v in VALS2[:n]]
                for comps, root in _graphs_fixed():
                    yield _mk_graph(_cut(a, mask), _cut(b, mask), comps, root)
                for comps, roots, mode in _many_fixed():
                    yield _mk_many(_cut(a, mask), _cut(b, mask), comps, roots, mode)
    # 2. seeded random: larger datasets, sampled cut sets
    R = 1500 if big else 150
    for _ in range(R):
        n = rng.randrange(7, 41)
        mask = rng.getrandbits(n - 1) if rng.random() < 0.7 else (rng.getrandbits(n - 1) & rng.getrandbits(n - 1))
        vals = [rng.randrange(0, 20) for _ in range(n)]
        ch = _cut(vals, mask)
        w = rng.choice(["mean", "bincount", "histogram", "rechunk", "groupby", "kmers", "graph"])
        if w == "mean":
            yield {"op": "mean", "chunks": [[v - 7 for v in c] for c in ch], "scale": rng.choice([1, 4])}
        elif w == "bincount":
            yield {"op": "bincount", "chunks": ch, "minlength": rng.choice([0, 0, 3, 25])}
        elif w == "histogram":
            lo, width, bins = rng.randrange(-3, 4), rng.randrange(1, 6), rng.randrange(1, 6)
            if rng.random() < 0.5:
                yield {"op": "histogram", "chunks": ch, "edges": [lo + i * width for i in range(bins + 1)], "how": "range"}
            else:
                edges = sorted(rng.sample(range(-2, 22), rng.randrange(2, 7)))
                yield {"op": "histogram", "chunks": ch, "edges": edges, "how": "edges"}
        elif w == "rechunk":
            yield {"op": rng.choice(["chunk_entries", "chunk_lines"]), "chunks": _cut(list(range(n)), mask),
                   "n": rng.choice([1, 2, 3, 4, 5, 7, n, n + 3])}
        elif w == "groupby":
            pat = rng.getrandbits(n - 1) & rng.getrandbits(n - 1)
            ks = _keys_from_pattern(n, pat)
            if max(ks) >= len(LABELS):
                ks = [k % len(LABELS) for k in ks] if False else _keys_from_pattern(n, pat & rng.getrandbits(n - 1) & rng.getrandbits(n - 1))
            if max(ks) >= len(LABELS):
                continue
            kt = rng.choice(["ragged", "str", "int"])
            c = {"op": "groupby", "kt": kt, "fast": kt == "ragged", "chunks": _cut([[k, i] for i, k in enumerate(ks)], mask)}
            if kt != "int" and rng.random() < 0.5:
                c["lab"] = rng.randrange(1, len(LABELSETS))
            yield c
        elif w == "kmers":
            seqs = [[rng.randrange(4) for _ in range(rng.choice([0, 1, 2, 3, 4, 6, 9]))] for _ in range(n)]
            yield {"op": "count_kmers", "chunks": _cut(seqs, mask), "k": rng.choice([1, 2, 3])}
        else:
            n = rng.randrange(2, 12)
            mask = rng.getrandbits(n - 1)
            ns = rng.choice([1, 2, 3])
            nodes = [{"k": "stream", "chunks": _cut([rng.randrange(-5, 9) for _ in range(n)], mask)} for _ in range(ns)]
            for j in range(rng.randrange(1, 6)):
                # operands are numeric nodes: a comparison's boolean buffers are only used as masks or results
                # (NumPy adds booleans as a logical or and refuses to subtract them: not integer arithmetic)
                numeric = [q for q, nd in enumerate(nodes) if nd.get("f") != "gt"]
                a = {"node": rng.choice(numeric)}
                b = {"node": rng.choice(numeric)} if rng.random() < 0.6 else {"const": rng.randrange(-3, 4)}
                if rng.random() < 0.3:
                    a, b = b, a
                nodes.append({"k": "comp", "f": rng.choice(["add", "sub", "mul", "gt"]), "a": a, "b": b})
            if rng.random() < 0.5:
                yield {"op": "graph", "nodes": nodes, "root": rng.randrange(len(nodes)) if rng.random() < 0.4 else len(nodes) - 1}
            elif rng.random() < 0.5:
                comps = [i for i, nd in enumerate(nodes) if nd["k"] == "comp" and nd.get("f") != "gt"] or \
                    [i for i, nd in enumerate(nodes) if nd["k"] == "comp"]
                if rng.random() < 0.5:                       # index a computed node by a comparison of another
                    nodes.append({"k": "comp", "f": "gt", "a": {"node": rng.randrange(len(nodes))}, "b": {"const": rng.randrange(-2, 5)}})
                    nodes.append({"k": "comp", "f": "sel", "a": {"node": rng.choice(comps)}, "b": {"node": len(nodes) - 1}})
                roots = [rng.randrange(len(nodes)) for _ in range(rng.randrange(1, 4))]
                if nodes[-1]["f"] == "sel":
                    roots[0] = len(nodes) - 1
                yield {"op": "graph_many", "nodes": nodes, "roots": roots, "mode": "concat"}
            else:
                comps = [i for i, nd in enumerate(nodes) if nd["k"] == "comp" and nd.get("f") != "gt"]
                selnode = None
                if comps and rng.random() < 0.4:             # a reduction over a selection: np.sum(x[y > c]) and the like
                    nodes.append({"k": "comp", "f": "gt", "a": {"node": rng.randrange(len(nodes))}, "b": {"const": rng.randrange(-2, 5)}})
                    nodes.append({"k": "comp", "f": "sel", "a": {"node": rng.choice(comps)}, "b": {"node": len(nodes) - 1}})
                    selnode = len(nodes) - 1
                ew = len(nodes)
                roots = []
                for _ in range(rng.randrange(1, 4)):
                    f = rng.choice(["sum", "sumN", "hist"])
                    nd = {"k": "comp", "f": f, "a": {"node": selnode if selnode is not None and rng.random() < 0.7 else rng.randrange(ew)},
                          "b": {"const": 0}}
                    if f == "hist":
                        nd["edges"] = sorted(rng.sample(range(-30, 60), rng.randrange(2, 6)))
                    nodes.append(nd)
                    roots.append(len(nodes) - 1)
                yield {"op": "graph_many", "nodes": nodes, "roots": roots, "mode": "reduce"}
    # 2z. chunks that come from the file readers (lazy text buffers, not in-memory tables) through the re-chunking helpers,
    #      observed by the parsed entries of every resulting chunk AND by what the chunks WRITE in the same format (the
    #      writer's pass-through of unmodified buffers): raw chunks smaller / larger than n, n no multiple of their length
    for fmt in FILE_FMTS:
        for L in ((7, 23, 40) if big else (7, 23)):
            for minchunk in ((40, 100, 300) if big else (40, 100)):
                for helper in ("none", "concat", "groupby", "glue"):
                    if helper == "groupby" and fmt in ("fa", "fq"):
                        continue
                    yield {"op": "rechunk_file", "fmt": fmt, "L": L, "minchunk": minchunk, "n": 0, "helper": helper}
                for n in ((1, 2, 4, 5, 10, 11) if big else (2, 5, 10)):
                    for helper in ("chunk_lines", "chunk_entries"):
                        yield {"op": "rechunk_file", "fmt": fmt, "L": L, "minchunk": minchunk, "n": n, "helper": helper}
    # 3. stream=True genome pipelines evaluated with compute
    P = 2500 if big else 250
    for _ in range(P):
        nchrom = rng.randrange(1, 5)
        sizes = [rng.randrange(3, 13) for _ in range(nchrom)]
        rows = []
        for ci in range(nchrom):
            if rng.random() < 0.25:
                continue
            ivs = []
            for _ in range(rng.randrange(1, 5)):
                s = rng.randrange(0, sizes[ci])
                ivs.append([ci, s, rng.randrange(s + 1, sizes[ci] + 1)])
            rows += sorted(ivs)
        if not rows:
            continue
        peaks = []
        for ci in range(nchrom):
            for _ in range(rng.randrange(0, 3)):
                s = rng.randrange(0, sizes[ci])
                peaks.append([ci, s, rng.randrange(s + 1, sizes[ci] + 1)])
        kind = rng.choice(["pileup_hist", "pileup_sum", "mask_sum", "under", "under_mean", "merged", "pileup_data",
                           "under_stranded", "under_stranded", "under_stranded_mean",
                           "track_ufunc_sum", "under_max", "merge_map", "bedgraph_sum", "extended", "track_bool_index",
                           "under_sum", "under_rowsum", "under_colmean", "under_colmean", "uncovered",
                           "windows", "windows", "windows_values", "windows_values"])
        if kind in ("under", "under_mean", "under_stranded", "under_max", "under_sum", "under_rowsum", "under_colmean") and not peaks:
            peaks = [[0, 0, sizes[0]]]
        if kind == "under_stranded_mean":            # windows of one common size, as `track[windows].mean(axis=0)` needs
            w = rng.randrange(1, min(sizes) + 1)
            peaks = []
            for ci in range(nchrom):
                for _ in range(rng.randrange(0, 3)):
                    s0 = rng.randrange(0, sizes[ci] - w + 1)
                    peaks.append([ci, s0, s0 + w])
            if not peaks:
                peaks = [[0, 0, w]]
        if kind.startswith("under_stranded"):         # strand 1 = '+', 0 = '-', 2 = '.' (neither)
            peaks = [p + [rng.choice([1, 0, 2, 2])] for p in peaks]
        if kind == "bedgraph_sum":            # a bedgraph covering every chromosome: runs of a random dense track
            rows = []
            for ci in range(nchrom):
                pos = 0
                while pos < sizes[ci]:
                    e = min(sizes[ci], pos + rng.randrange(1, 5))
                    rows.append([ci, pos, e, rng.randrange(0, 4)])
                    pos = e
        if kind == "extended":                # stranded entries: 1 = '+', 0 = '-'
            rows = [r + [rng.choice([1, 0])] for r in rows]
        extra = {}
        if kind in ("windows", "windows_values"):
            # both keywords of get_windows: flank=k (2k + 1 wide) and window_size=w with EVEN and odd w
            extra["wkw"] = ["flank", rng.randrange(0, 4)] if rng.random() < 0.35 else ["window_size", rng.randrange(1, 9)]
        if kind in IGNORABLE and rng.random() < 0.4:
            # contigs the genome lists but its filter function ignores (names with '_'), with non-zero sizes, anywhere in the
            # genome order; some entries lie on them (dropped by both modes)
            ign = [[rng.randrange(0, nchrom + 1), rng.randrange(1, 8)] for _ in range(rng.randrange(1, 3))]
            extra["ignored"] = ign
            for k, (slot, sz) in enumerate(ign):
                if rng.random() < 0.5:
                    s0 = rng.randrange(0, sz)
                    rows.append([100 + k, s0, rng.randrange(s0 + 1, sz + 1)])
            order = _genome_order(nchrom, ign)
            rows.sort(key=lambda r: (order.index(r[0]), r[1], r[2]))
        mask = rng.getrandbits(len(rows) - 1) if len(rows) > 1 else 0
        yield dict({"op": "pipeline", "kind": kind, "sizes": sizes, "chunks": _cut(rows, mask), "peaks": sorted(peaks),
                    "bins": rng.randrange(1, 5)}, **extra)
    # 3b. every value of both get_windows keywords (flank=0..3, window_size=1..8: even and odd) on a fixed small genome with
    #     positions at and near both chromosome ends, a few chunkings each
    wrows = [[0, 0, 3], [0, 4, 9], [0, 11, 12], [1, 1, 2], [1, 8, 9], [2, 3, 7]]
    for wkw in [["flank", k] for k in range(4)] + [["window_size", w] for w in range(1, 9)]:
        for mask in (0, 0b11111, 0b01010):
            for kind in ("windows", "windows_values"):
                yield {"op": "pipeline", "kind": kind, "sizes": [12, 9, 7], "chunks": _cut(wrows, mask), "peaks": [], "bins": 1, "wkw": wkw}


IGNORABLE = {"pileup_hist", "pileup_sum", "mask_sum", "pileup_data", "under", "track_ufunc_sum", "under_max", "uncovered"}


def _genome_order(nchrom, ign):
    """chromosome indices in the order of the genome dict: ignored contig k (index 100+k) sits before included index slot"""
    order = []
    for ci in range(nchrom + 1):
        order += [100 + k for k, (slot, _) in enumerate(ign) if slot == ci]
        if ci < nchrom:
            order.append(ci)
    return order


def _chrom_name(ci):
    return "chr%d" % (ci + 1) if ci < 100 else "chrUn_%d" % (ci - 100)


FILE_FMTS = ["bed", "narrowPeak", "gff", "vcf", "fa", "fq"]


def _file_lines(fmt, L):
    """L records of a small canonical file of the format; record i is on chromosome 1 + i // 7 and carries i in a field"""
    out = []
    for i in range(L):
        ch = "chr%d" % (1 + i // 7)
        out.append({"bed": f"{ch}\t{10 * i}\t{10 * i + 5 + i % 3}\n",
                    "narrowPeak": f"{ch}\t{10 * i}\t{10 * i + 5}\tp{i}\t{i}\t.\t1.5\t2.5\t3.5\t{i % 5}\n",
                    "gff": f"{ch}\tsrc\tgene\t{10 * i + 1}\t{10 * i + 9}\t.\t+\t.\tID=g{i}\n",
                    "vcf": f"{ch}\t{10 * i + 1}\t.\tA\tC\t.\t.\t.\n",
                    "fa": f">s{i}\n{'ACGT'[i % 4] * (3 + i % 4)}\n",
                    "fq": f"@s{i}\n{'ACGT'[i % 4] * (3 + i % 4)}\n+\n{'I' * (3 + i % 4)}\n"}[fmt])
    return out


def _file_ids(fmt, chunk):
    if fmt in ("fa", "fq"):
        return [int(str(x)[1:]) for x in chunk.name.tolist()]
    col = chunk.position if fmt == "vcf" else chunk.start
    return [int(x) // 10 for x in np.asarray(col).tolist()]


def nontrivial(c):
    if c["op"] == "rechunk_file":
        return c["L"] > 7
    ch = c.get("chunks")
    if ch is None:
        ch = c["nodes"][0]["chunks"]
    if len(ch) < 2:
        return False
    if any(len(x) <= 1 for x in ch) or len(ch[-1]) < len(ch[0]):
        return True
    if c["op"] == "graph_many":
        return len(c["roots"]) > 1 or c["mode"] == "reduce"
    if c["op"] in ("groupby", "pipeline"):
        return any(a and b and a[-1][0] == b[0][0] for a, b in zip(ch[:-1], ch[1:])) or any(len(x) == 0 for x in ch)
    return False


# ---------------------------------------------------------------- implementation

def _fl(x):
    return float(x).hex()


def _err(e):
    if isinstance(e, StopIteration):
        return {"err": "stop"}
    if isinstance(e, AssertionError):
        return {"err": "assertion"}
    if isinstance(e, ValueError):
        return {"err": "value"}
    return {"err": "other:" + type(e).__name__}


def _edges_out(e):
    e = [float(x) for x in e]
    return [int(x) for x in e] if all(x == int(x) for x in e) else [x.hex() for x in e]


def _vstream(m, chunks, scale=1):
    if scale == 1:
        T, conv = m["V"], (lambda c: np.array(c, dtype=int))
    else:
        T, conv = m["F"], (lambda c: np.array(c, dtype=float) / scale)
    return m["NpDataclassStream"]((T(conv(c)) for c in chunks), dataclass=T).val, conv([v for c in chunks for v in c])


def _hist_args(c):
    e = c["edges"]
    if c["how"] == "range":
        return dict(bins=len(e) - 1, range=(e[0], e[-1]))
    return dict(bins=list(e))


def _big_reads(c):
    return np.random.default_rng(c["seed"]).integers(0, 4, size=(c["nreads"], c["rlen"]), dtype=np.uint8)


def _kmer_digest(labels, counts):
    """order-independent exact summary of a full count vector: sum over k-mers of count * (1 + base-4 value of the k-mer)^2"""
    tot = 0
    for lab, cnt in zip(labels, counts.tolist()):
        v = 0
        for ch in str(lab):
            v = v * 4 + "ACGT".index(ch)
        tot += int(cnt) * (1 + v) ** 2
    return tot


def _alpha5():
    from bionumpy.encodings import alphabet_encoding as ae
    return ae.ACGTnEncoding


def _kmer_obs(r, k, alpha="ACGT"):
    out = []
    for lab, cnt in zip(r.alphabet, np.asarray(r.counts).ravel().tolist()):
        if cnt:
            out.append([[alpha.index(ch) for ch in str(lab)], int(cnt)])
    return sorted(out)


def _vmode(c):
    """how the chunks of a case are made: 0 = fresh tables, 1 = slices, 2 = integer-array index, 3 = boolean mask of ONE table
    (un-materialised views handed straight to the streamed computation); a fixed function of the case"""
    import zlib
    return zlib.crc32(core.canon(c.get("chunks")).encode()) % 4


def _split(whole, lens, mode):
    out, pos, n = [], 0, len(whole)
    for l in lens:
        if mode == 1:
            out.append(whole[pos:pos + l])
        elif mode == 2:
            out.append(whole[np.arange(pos, pos + l)])
        else:
            mk = np.zeros(n, dtype=bool)
            mk[pos:pos + l] = True
            out.append(whole[mk])
        pos += l
    return out


def _etable(m, rows, kt=None, lab=0):
    ks = [r[0] for r in rows]
    ids = [r[1] for r in rows]
    LABELS = LABELSETS[lab]
    if kt == "ragged":
        return m["Er"]([LABELS[k] for k in ks], ids)
    if kt == "str":
        return m["Es"]([LABELS[k] for k in ks], ids)
    if kt == "int":
        return m["Ei"](ks, ids)
    return m["E"]([LABELS[k] for k in ks], [LABELS[k] for k in ks], ks, ids)


_COL = {"ragged": "name", "str": "chrom", "int": "key"}


def _custom_key(x):
    """a caller-supplied `key=` for groupby: labels every group 'K:<text of the key>'"""
    return "K:" + (x.to_string() if hasattr(x, "to_string") else str(x))


def _groups_obs(gen, kt, custom=False, lab=0):
    out = []
    LABELS = LABELSETS[lab]
    for key, g in gen:
        if custom:
            if not str(key).startswith("K:"):
                out.append(["label-not-from-key=", str(key), [int(x) for x in g.id]])
                continue
            key = str(key)[2:]
        if kt != "int" and str(key) not in LABELS:
            out.append(["label-is-no-key=", str(key), [int(x) for x in g.id]])
            continue
        k = int(key) if kt == "int" else LABELS.index(str(key))
        out.append([k, [int(x) for x in g.id]])
    return out


def _graph_build(m, nodes):
    cg = m["cg"]
    pulls = []
    built = []

    def counting(chunks, slot):
        for ch in chunks:
            pulls[slot] += 1
            yield np.array(ch, dtype=int)

    uf = {"add": np.add, "sub": np.subtract, "mul": np.multiply, "gt": np.greater}
    for nd in nodes:
        if nd["k"] == "stream":
            pulls.append(0)
            built.append(cg.StreamNode(counting(nd["chunks"], len(pulls) - 1)))
        else:
            a = built[nd["a"]["node"]] if "node" in nd["a"] else nd["a"]["const"]
            b = built[nd["b"]["node"]] if "node" in nd["b"] else nd["b"]["const"]
            if nd["f"] == "sum":
                built.append(np.sum(a))
            elif nd["f"] == "sumN":
                built.append(np.mean(a))
            elif nd["f"] == "hist":
                built.append(np.histogram(a, bins=list(nd["edges"])))
            elif nd["f"] == "sel":
                built.append(a[b])                       # ComputationNode.__getitem__ with a boolean node
            else:
                built.append(uf[nd["f"]](a, b))
    return built, pulls


def _stranded_table(m, rows):
    from bionumpy.datatypes import StrandedInterval
    return StrandedInterval(["chr%d" % (r[0] + 1) for r in rows], [r[1] for r in rows], [r[2] for r in rows],
                            ["-+."[r[3]] for r in rows])


def _interval_table(m, rows):
    return m["Interval"]([_chrom_name(r[0]) for r in rows], [r[1] for r in rows], [r[2] for r in rows])


def _chroms(col):
    """chromosome column -> list of chromosome indices, whatever column class the pipeline produced"""
    try:
        names = col.tolist()
    except TypeError:
        names = [x.to_string() for x in col]
    return [int(str(x)[3:]) - 1 for x in names]


def _pipeline(m, c, streamed):
    bnp, cg = m["bnp"], m["cg"]
    if c.get("ignored"):
        from bionumpy.genomic_data.genome_context import ignore_underscores
        sz = {ci: (c["sizes"][ci] if ci < 100 else c["ignored"][ci - 100][1]) for ci in _genome_order(len(c["sizes"]), c["ignored"])}
        genome = bnp.Genome.from_dict({_chrom_name(ci): v for ci, v in sz.items()}, filter_function=ignore_underscores)
    else:
        sizes = {"chr%d" % (i + 1): s for i, s in enumerate(c["sizes"])}
        genome = bnp.Genome.from_dict(sizes)
    rows = [r for ch in c["chunks"] for r in ch]
    kind = c["kind"]
    if kind == "bedgraph_sum":
        from bionumpy.datatypes import BedGraph
        bg = lambda rs: BedGraph(["chr%d" % (r[0] + 1) for r in rs], [r[1] for r in rs], [r[2] for r in rs], [r[3] for r in rs])
        if streamed:
            tr = genome.get_track(m["NpDataclassStream"]((bg(ch) for ch in c["chunks"]), dataclass=BedGraph))
            return int(cg.compute(np.sum(tr)))
        return int(genome.get_track(bg(rows)).sum())
    if kind == "extended":
        from bionumpy.datatypes import StrandedInterval
        if streamed:
            src = m["NpDataclassStream"]((_stranded_table(m, ch) for ch in c["chunks"]), dataclass=StrandedInterval)
            r = genome.get_intervals(src, stranded=True).extended_to_size(c["bins"] + 1).compute()
        else:
            r = genome.get_intervals(_stranded_table(m, rows), stranded=True).extended_to_size(c["bins"] + 1)
        return [[ch, int(s_), int(e_)] for ch, s_, e_ in zip(_chroms(r.chromosome), r.start.tolist(), r.stop.tolist())]
    if kind == "merge_map":
        from bionumpy.arithmetics.intervals import merge_intervals
        if streamed:
            src = m["NpDataclassStream"]((_interval_table(m, ch) for ch in c["chunks"]), dataclass=m["Interval"])
        else:
            src = _interval_table(m, rows)
        out = []
        for key, g in merge_intervals(bnp.groupby(src, "chromosome")):      # chromosome_map over the grouped stream
            out += [[int(str(key)[3:]) - 1, int(s_), int(e_)] for s_, e_ in zip(g.start.tolist(), g.stop.tolist())]
        return out
    if streamed:
        vm = _vmode(c)
        parts = [_interval_table(m, ch) for ch in c["chunks"]] if vm == 0 else \
            _split(_interval_table(m, rows), [len(ch) for ch in c["chunks"]], vm)
        src = m["NpDataclassStream"](iter(parts), dataclass=m["Interval"])
    else:
        src = _interval_table(m, rows)
    gi = genome.get_intervals(src)
    fin = (lambda x: cg.compute(x)) if streamed else (lambda x: x)
    if streamed and _vmode(c) == 3:
        # a second streamed genome (other sizes, other data) built before and computed after the one under test
        g2 = bnp.Genome.from_dict({"chrA": 5, "chrB": 7})
        d2 = m["Interval"](["chrA", "chrB"], [1, 0], [3, 7])
        node2 = g2.get_intervals(m["NpDataclassStream"](iter([d2[:1], d2[1:]]), dataclass=m["Interval"])).get_pileup().sum()
        fin0 = fin

        def fin(x):
            r_ = fin0(x)
            if int(cg.compute(node2)) != 9:
                raise RuntimeError("second streamed genome disturbed")
            return r_
    if kind in ("windows", "windows_values"):
        w = gi.get_location("start").get_windows(**{c["wkw"][0]: c["wkw"][1]})
        if kind == "windows":
            w = w.compute() if streamed else w
            return [[ch, int(s_), int(e_)] for ch, s_, e_ in zip(_chroms(w.chromosome), w.start.tolist(), w.stop.tolist())]
        r = fin(gi.get_pileup()[w] if _vmode(c) % 2 else gi.get_pileup().extract_intervals(w))
        return [[int(x) for x in np.asarray(row.to_array() if hasattr(row, "to_array") else row).ravel()] for row in r]
    if kind == "track_ufunc_sum":
        return int(fin((gi.get_pileup() * 2 + 1).sum()))
    if kind == "uncovered":                  # positions no entry covers: sensitive to the length of the genome-wide array
        return int(fin(np.sum(gi.get_pileup() == 0)))
    if kind == "track_bool_index":
        p_ = gi.get_pileup()
        return [int(x) for x in np.asarray(fin(p_[p_ > 1])).ravel()]
    if kind == "under_max":
        peaks = genome.get_intervals(_interval_table(m, c["peaks"]))
        how = _vmode(c) % 2
        r = gi.get_pileup()[peaks]
        r = np.max(r, axis=-1) if how == 0 else r.max(axis=-1)          # function and node method
        return [int(x) for x in np.asarray(fin(r)).ravel()]
    if kind in ("under_sum", "under_rowsum"):
        peaks = genome.get_intervals(_interval_table(m, c["peaks"]))
        r = gi.get_pileup()[peaks]
        r = (r.sum() if _vmode(c) % 2 else np.sum(r)) if kind == "under_sum" else np.sum(r, axis=-1)
        return [int(x) for x in np.asarray(fin(r)).ravel()]
    if kind == "under_colmean":        # windows of different sizes: mean over the rows that reach each column
        peaks = genome.get_intervals(_interval_table(m, c["peaks"]))
        return [_fl(x) for x in np.asarray(fin(gi.get_pileup()[peaks].mean(axis=0))).ravel()]
    if kind == "pileup_hist":
        h = np.histogram(gi.get_pileup(), bins=c["bins"], range=(0, c["bins"]))
        h = fin(h)
        return {"hist": [int(x) for x in h[0]], "edges": _edges_out(h[1])}
    if kind == "pileup_sum":
        return int(fin(gi.get_pileup().sum()))
    if kind == "mask_sum":
        return int(fin(gi.get_mask().sum()))
    if kind == "pileup_data":
        d = fin(gi.get_pileup().get_data())
        dense = [[0] * s for s in c["sizes"]]
        for ch, s, e, v in zip(_chroms(d.chromosome), d.start.tolist(), d.stop.tolist(), d.value.tolist()):
            for p in range(int(s), int(e)):
                dense[ch][p] += int(v)
        return dense
    if kind in ("under_stranded", "under_stranded_mean"):
        peaks = genome.get_intervals(_stranded_table(m, c["peaks"]), stranded=True)
        r = gi.get_pileup()[peaks]
        if kind == "under_stranded_mean":
            r = fin(r.mean(axis=0))
            return [_fl(x) for x in np.asarray(r).ravel()]
        r = fin(r)
        return [[int(x) for x in np.asarray(row.to_array() if hasattr(row, "to_array") else row).ravel()] for row in r]
    if kind in ("under", "under_mean"):
        peaks = genome.get_intervals(_interval_table(m, c["peaks"]))
        r = gi.get_pileup()[peaks]
        if kind == "under_mean":
            r = fin(np.mean(r, axis=-1))
            return [_fl(x) for x in np.asarray(r).ravel()]
        r = fin(r)
        return [[int(x) for x in np.asarray(row.to_array() if hasattr(row, "to_array") else row).ravel()] for row in r]
    if kind == "merged":
        r = gi.merged()
        r = r.compute() if streamed else r
        return [[ch, int(s), int(e)] for ch, s, e in zip(_chroms(r.chromosome), r.start.tolist(), r.stop.tolist())]
    raise ValueError(kind)


def _rechunk_file(m, c, tmpdir):
    import os
    bnp = m["bnp"]
    fmt = c["fmt"]
    text = "".join(_file_lines(fmt, c["L"]))
    src = os.path.join(tmpdir, "in." + fmt)
    out = os.path.join(tmpdir, "out." + fmt)
    with open(src, "w") as f:
        f.write(text)
    st = bnp.open(src).read_chunks(min_chunk_size=c["minchunk"])      # lazily read chunks (the default)
    h = c["helper"]
    if h == "none":
        chunks = list(st)
    elif h == "chunk_lines":
        chunks = list(m["chunk_lines"](st, c["n"]))
    elif h == "chunk_entries":
        chunks = list(m["chunk_entries"](st, c["n"]))
    elif h == "concat":
        chunks = [np.concatenate(list(st))]
    elif h == "groupby":
        chunks = [g for _, g in bnp.groupby(st, "chromosome")]
    else:                                   # glue: a whole raw chunk to a slice of the next one, and the rest
        raw = list(st)
        chunks = []
        for a, b in zip(raw[0::2], raw[1::2]):
            k = (len(b) + 1) // 2
            chunks += [np.concatenate([a, b[:k]]), b[k:]]
        if len(raw) % 2:
            chunks.append(raw[-1])
    ids = [_file_ids(fmt, ch) for ch in chunks]
    with bnp.open(out, "w") as f:
        for ch in chunks:
            f.write(ch)
    with open(out) as f:
        written = f.read()
    per = len(text.splitlines()) // c["L"]
    wl = written.splitlines()
    return {"v": {"chunks": ids, "written": "same" if written == text else
                  {"lines": len(wl), "first_lines_of_records": [x[:24] for x in wl[::per]][:40]}}}


def impl(c):
    m = _mods()
    bnp = m["bnp"]
    op = c["op"]
    try:
        if op == "mean":
            st, allv = _vstream(m, c["chunks"], c["scale"])
            r = bnp.streams.mean(st)
            mem = bnp.streams.mean(allv)
            return {"v": _fl(np.asarray(r).ravel()[0]), "mem": _fl(np.asarray(mem).ravel()[0]), "np": _fl(np.mean(allv))}
        if op in ("mean_axis0", "rowmean"):
            w = c["w"]
            arrs = [np.array(ch, dtype=int).reshape(len(ch), w) for ch in c["chunks"]]
            allv = np.concatenate(arrs) if arrs else np.zeros((0, w), dtype=int)
            ax = 0 if op == "mean_axis0" else 1
            r = bnp.streams.mean(m["BnpStream"](iter(arrs)), axis=ax)
            if ax == 1:
                r = np.concatenate([np.asarray(x).ravel() for x in r])      # `streamable()`: a stream of per-chunk results
            mem = bnp.streams.mean(allv, axis=ax)
            f = lambda x: [_fl(v) for v in np.asarray(x).ravel()]
            return {"v": f(r), "mem": f(mem), "np": f(np.mean(allv, axis=ax))}
        if op == "quantile":
            st, allv = _vstream(m, c["chunks"])
            q = c["qp"] / c["qd"]
            return {"v": int(bnp.streams.quantile(st, q)), "mem": int(bnp.streams.quantile(allv, q))}
        if op == "bincount":
            st, allv = _vstream(m, c["chunks"])
            r = bnp.streams.bincount(st, minlength=c["minlength"])
            mem = bnp.streams.bincount(allv, minlength=c["minlength"])
            return {"v": [int(x) for x in r], "mem": [int(x) for x in mem]}
        if op in ("histogram", "histogram_default"):
            st, allv = _vstream(m, c["chunks"])
            kw = _hist_args(c) if op == "histogram" else {}
            r = bnp.streams.histogram(st, **kw)
            mem = bnp.streams.histogram(allv, **kw)
            f = lambda h: {"hist": [int(x) for x in h[0]], "edges": _edges_out(h[1])}
            return {"v": f(r), "mem": f(mem)}
        if op == "count_kmers_big":
            seqs = _big_reads(c)
            b = [0] + c["cuts"] + [c["nreads"]]
            mk = lambda a: bnp.EncodedRaggedArray(bnp.EncodedArray(a.ravel(), bnp.DNAEncoding), np.full(len(a), c["rlen"]))
            st = m["BnpStream"](mk(seqs[x:y]) for x, y in zip(b[:-1], b[1:]))
            r = m["count_kmers"](st, c["k"])
            mem = m["count_kmers"](mk(seqs), c["k"])
            f = lambda e: {"total": int(np.sum(e.counts)), "digest": _kmer_digest(e.alphabet, np.asarray(e.counts).ravel())}
            return {"v": f(r), "mem": f(mem)}
        if op == "count_kmers_rows":
            mk = lambda rows: bnp.as_encoded_array(["".join("ACGT"[x] for x in s) for s in rows], bnp.DNAEncoding)
            st = m["BnpStream"](mk(ch) for ch in c["chunks"])
            r = m["count_kmers"](st, c["k"], axis=-1)
            mem = m["count_kmers"](mk([s for ch in c["chunks"] for s in ch]), c["k"], axis=-1)
            f = lambda e: [sorted([["ACGT".index(ch) for ch in str(lab)], int(n_)] for lab, n_ in zip(e.alphabet, row) if n_)
                           for row in np.asarray(e.counts).reshape(-1, len(e.alphabet)).tolist()]
            return {"v": f(r), "mem": f(mem)}
        if op in ("count_kmers", "count_kmers1"):
            alpha = "ACGTN" if c.get("A") == 5 else "ACGT"
            enc = _alpha5() if c.get("A") == 5 else bnp.DNAEncoding
            mk = lambda rows: bnp.as_encoded_array(["".join(alpha[x] for x in s) for s in rows], enc)
            vm = _vmode(c)
            parts = [mk(ch) for ch in c["chunks"]] if vm == 0 else \
                _split(mk([s for ch in c["chunks"] for s in ch]), [len(ch) for ch in c["chunks"]], vm)
            st = m["BnpStream"](iter(parts))
            r = m["count_kmers"](st, c["k"])
            mem = m["count_kmers"](mk([s for ch in c["chunks"] for s in ch]), c["k"])
            return {"v": _kmer_obs(r, c["k"], alpha), "mem": _kmer_obs(mem, c["k"], alpha)}
        if op == "groupby":
            col = _COL[c["kt"]]
            # the wide 4-column table on small data, one key column + ids otherwise (same code path, cheaper to build)
            kt = c["kt"] if sum(len(ch) for ch in c["chunks"]) >= 8 else None
            E = m["E"] if kt is None else m[{"ragged": "Er", "str": "Es", "int": "Ei"}[kt]]
            vm = _vmode(c)
            lab = c.get("lab", 0)
            parts = [_etable(m, ch, kt, lab) for ch in c["chunks"]] if vm == 0 else \
                _split(_etable(m, [x for ch in c["chunks"] for x in ch], kt, lab), [len(ch) for ch in c["chunks"]], vm)
            st = m["NpDataclassStream"](iter(parts), dataclass=E)
            import zlib
            custom = zlib.crc32(core.canon(c["chunks"]).encode()) % 8 < 4      # the documented `key=` argument in half of the cases
            kw = {"key": _custom_key} if custom else {}
            if zlib.crc32(core.canon(c["chunks"]).encode()) % 3 == 0:
                # a second, different grouped stream alive at the same time (other key column, other key function,
                # other data), consumed alternately with the one under test
                decoy_rows = [[0, 90], [1, 91], [1, 92], [3, 93]]
                decoy = bnp.groupby(m["NpDataclassStream"](iter([_etable(m, decoy_rows[:3]), _etable(m, decoy_rows[3:])]),
                                                          dataclass=m["E"]), "key" if col != "key" else "name",
                                    **({} if custom else {"key": _custom_key}))
                main = bnp.groupby(st, col, **kw)
                got_main, got_decoy = [], []
                for a_, b_ in itertools.zip_longest(main, decoy):
                    if a_ is not None:
                        got_main.append(a_)
                    if b_ is not None:
                        got_decoy.append((b_[0], [int(x) for x in b_[1].id]))
                r = _groups_obs(iter(got_main), c["kt"], custom, lab)
                want_decoy = [[90], [91, 92], [93]]
                if [g_ for _, g_ in got_decoy] != want_decoy:
                    r = {"second_stream_disturbed": got_decoy}
            else:
                r = _groups_obs(bnp.groupby(st, col, **kw), c["kt"], custom, lab)
            mem = _groups_obs(bnp.groupby(_etable(m, [x for ch in c["chunks"] for x in ch], kt, lab), col, **kw), c["kt"], custom, lab)
            return {"v": r, "mem": mem}
        if op in ("chunk_entries", "chunk_lines"):
            V = m["V"]
            vm = _vmode(c)
            tabs = [V(np.array(ch, dtype=int)) for ch in c["chunks"]] if vm == 0 else \
                _split(V(np.array([x for ch in c["chunks"] for x in ch], dtype=int)), [len(ch) for ch in c["chunks"]], vm)
            if op == "chunk_entries":
                out = m["chunk_entries"](m["NpDataclassStream"](iter(tabs), dataclass=V), c["n"])
            else:
                out = m["chunk_lines"](iter(tabs), c["n"])
            return {"v": [[int(x) for x in t.val] for t in out]}
        if op == "graph":
            built, pulls = _graph_build(m, c["nodes"])
            v = built[c["root"]].compute()
            return {"v": {"value": [int(x) for x in np.asarray(v).ravel()], "pulls": pulls}}
        if op == "graph_many":
            cg = m["cg"]
            built, pulls = _graph_build(m, c["nodes"])
            roots = [built[r] for r in c["roots"]]
            fs = [c["nodes"][r].get("f") for r in c["roots"]]
            if c["mode"] == "concat":
                how = _vmode(c["nodes"][0]) % 3
                if how == 0:
                    res = cg.compute(list(roots))
                elif how == 1:                               # a dict of nodes
                    res = list(cg.compute({"k%d" % i: r for i, r in enumerate(roots)}).values())
                else:                                        # non-node values are passed through untouched
                    res = cg.compute(list(roots) + [5, "x"])
                    if list(res[len(roots):]) != [5, "x"]:
                        return {"v": {"vals": None, "passthrough": [str(x) for x in res[len(roots):]]}}
                    res = res[:len(roots)]
                return {"v": {"vals": [[int(x) for x in np.asarray(v).ravel()] for v in res]}}
            res = [roots[0].compute()] if len(roots) == 1 else list(cg.compute(tuple(roots)))
            out = []
            for f, v in zip(fs, res):
                if f == "sum":
                    out.append([int(v)])
                elif f == "sumN":
                    out.append(_fl(v))
                else:
                    out.append([int(x) for x in v[0]])
            return {"v": {"vals": out}}
        if op == "graph_reduce":
            cg = m["cg"]
            s = cg.StreamNode(iter([np.array(ch, dtype=int) for ch in c["chunks"]]))
            allv = np.array([v for ch in c["chunks"] for v in ch], dtype=int)
            if c["reduce"] == "sum":
                return {"v": int(np.sum(s * 2 + 1).compute()), "mem": int(np.sum(allv * 2 + 1))}
            if c["reduce"] == "mean":
                return {"v": _fl(np.mean(s + 1).compute()), "mem": _fl(np.mean(allv + 1))}
            h = np.histogram(s, bins=4, range=(0, 8))
            if c["reduce"] == "hist":
                h = h.compute()
                return {"v": [int(x) for x in h[0]], "mem": [int(x) for x in np.histogram(allv, bins=4, range=(0, 8))[0]]}
            hh, ss = cg.compute((h, np.sum(s)))
            return {"v": [[int(x) for x in hh[0]], int(ss)],
                    "mem": [[int(x) for x in np.histogram(allv, bins=4, range=(0, 8))[0]], int(np.sum(allv))]}
        if op == "graph_multi":
            cg = m["cg"]
            s = cg.StreamNode(iter([np.array(ch, dtype=int) for ch in c["chunks"]]))
            allv = np.array([v for ch in c["chunks"] for v in ch], dtype=int)
            a = s + 1
            b = s * 2
            d = b + a
            res = cg.compute([a, b, d])
            return {"v": [[int(x) for x in r] for r in res], "mem": [[int(x) for x in r] for r in (allv + 1, allv * 2, allv * 3 + 1)]}
        if op == "pipeline":
            return {"v": _pipeline(m, c, True), "mem": _pipeline(m, c, False)}
        if op == "rechunk_file":
            import os, tempfile
            with tempfile.TemporaryDirectory(prefix="c11files_") as tmpdir:      # removed again with the case (workers do not run atexit)
                return _rechunk_file(m, c, tmpdir)
    except Exception as e:  # noqa
        return _err(e)
    raise ValueError(op)


# ---------------------------------------------------------------- oracle (pure Python, from the property)

def _flat(chunks):
    return [x for ch in chunks for x in ch]


def _hist(data, edges):
    k = len(edges) - 1
    out = [0] * k
    for x in data:
        for i in range(k):
            if edges[i] <= x and (x < edges[i + 1] or (i == k - 1 and x == edges[i + 1])):
                out[i] += 1
    return out


def _windows(c):
    """get_location('start').get_windows(flank=k | window_size=w): k before and k + 1 from the position on, resp. w // 2
    before and w // 2 + w % 2 from it on (even and odd w), clipped to the chromosome"""
    how, v = c["wkw"]
    l, r = (v, v + 1) if how == "flank" else (v // 2, v // 2 + v % 2)
    return [[ci, max(0, s - l), min(c["sizes"][ci], s + r)] for ci, s, e in [r_[:3] for r_ in _flat(c["chunks"])]]


def _dense_pileup(c):
    dense = [[0] * s for s in c["sizes"]]
    for ci, s, e in [r[:3] for r in _flat(c["chunks"]) if r[0] < 100]:      # entries on ignored contigs do not exist
        for p in range(s, e):
            dense[ci][p] += 1
    return dense


def oracle(c):
    op = c["op"]
    data = _flat(c["chunks"]) if "chunks" in c else None
    if op == "mean":
        return {"sum": sum(data), "n": len(data)}
    if op == "mean_axis0":
        return [sum(r[j] for r in data) for j in range(c["w"])] + [len(data)]
    if op == "rowmean":
        return [sum(r) for r in data]
    if op == "quantile":
        if not data:
            return {"err": "other:IndexError"}      # `cumulative[-1]` of no data, in memory as well
        size = max(data) + 1
        hist = [data.count(v) for v in range(size)]
        cum, tot = [], 0
        for h in hist:
            tot += h
            cum.append(tot)
        return sum(1 for x in cum if x * c["qd"] < c["qp"] * tot)
    if op == "bincount":
        size = max([max(data) + 1 if data else 0, c["minlength"]])
        return [data.count(v) for v in range(size)]
    if op == "histogram":
        if any(a > b for a, b in zip(c["edges"], c["edges"][1:])):
            return {"err": "value"}      # np.histogram: bins must increase monotonically (equal neighbours are allowed)
        return {"hist": _hist(data, c["edges"]), "edges": list(c["edges"])}
    if op == "histogram_default":
        lo, hi = min(data), max(data)
        if lo == hi:
            lo, hi = lo - 0.5, hi + 0.5
        edges = [float(x) for x in np.linspace(lo, hi, 11)]
        return {"hist": _hist(data, edges), "edges": _edges_out(edges)}
    if op == "count_kmers_big":
        seqs = _big_reads(c).astype(np.int64)
        k = c["k"]
        nwin = c["rlen"] - k + 1
        h = np.zeros((c["nreads"], nwin), dtype=np.int64)
        for j in range(k):                      # big-endian base-4 value of every window, row by row
            h = h * 4 + seqs[:, j:j + nwin]
        counts = np.bincount(h.ravel(), minlength=4 ** k)
        return {"total": int(c["nreads"] * nwin), "digest": int(sum(int(n) * (1 + v) ** 2 for v, n in enumerate(counts.tolist())))}
    if op == "count_kmers_rows":
        out = []
        for s_ in data:
            cnt = {}
            for i in range(len(s_) - c["k"] + 1):
                t = tuple(s_[i:i + c["k"]])
                cnt[t] = cnt.get(t, 0) + 1
            out.append(sorted([list(t), n_] for t, n_ in cnt.items()))
        return out
    if op in ("count_kmers", "count_kmers1"):
        k, cnt = c["k"], {}
        for s in data:
            for i in range(len(s) - k + 1):
                t = tuple(s[i:i + k])
                cnt[t] = cnt.get(t, 0) + 1
        return sorted([list(t), n] for t, n in cnt.items())
    if op == "groupby":
        ks = [x[0] for x in data]
        # the property's domain: group-by on a sorted key (equal keys contiguous)
        seen, prev = set(), None
        for k in ks:
            if k != prev and k in seen:
                return SKIP
            seen.add(k)
            prev = k
        return [[k, [x[1] for x in g]] for k, g in itertools.groupby(data, key=lambda x: x[0])]
    if op in ("chunk_entries", "chunk_lines"):
        n = c["n"]
        if n < 1:
            return {"err": "value"}
        return [data[i:i + n] for i in range(0, len(data), n)]
    if op == "rechunk_file":
        ids, n, h = list(range(c["L"])), c["n"], c["helper"]
        if h in ("chunk_lines", "chunk_entries"):
            chunks = [ids[i:i + n] for i in range(0, len(ids), n)]
        elif h == "concat":
            chunks = [ids]
        elif h == "groupby":
            chunks = [ids[i:i + 7] for i in range(0, len(ids), 7)]
        else:
            chunks = None                       # how the reader cuts is its own business: only the concatenation is specified
        return {"chunks": chunks, "flat": ids, "written": "same"}
    if op == "graph":
        vals = []
        for nd in c["nodes"]:
            if nd["k"] == "stream":
                vals.append(_flat(nd["chunks"]))
            else:
                f = {"add": lambda x, y: x + y, "sub": lambda x, y: x - y, "mul": lambda x, y: x * y,
                     "gt": lambda x, y: 1 if x > y else 0}[nd["f"]]
                a = vals[nd["a"]["node"]] if "node" in nd["a"] else nd["a"]["const"]
                b = vals[nd["b"]["node"]] if "node" in nd["b"] else nd["b"]["const"]
                if isinstance(a, list) and isinstance(b, list):
                    vals.append([f(x, y) for x, y in zip(a, b)])
                elif isinstance(a, list):
                    vals.append([f(x, b) for x in a])
                elif isinstance(b, list):
                    vals.append([f(a, y) for y in b])
                else:
                    vals.append([f(a, b)])
        return {"value": vals[c["root"]]}
    if op == "graph_many":
        vals = []
        for nd in c["nodes"]:
            if nd["k"] == "stream":
                vals.append(_flat(nd["chunks"]))
                continue
            a = vals[nd["a"]["node"]] if "node" in nd["a"] else nd["a"]["const"]
            b = vals[nd["b"]["node"]] if "node" in nd["b"] else nd["b"]["const"]
            if nd["f"] in ("sum", "sumN", "hist"):
                x = a if isinstance(a, list) else [a]
                vals.append([sum(x)] if nd["f"] == "sum" else [sum(x), len(x)] if nd["f"] == "sumN" else _hist(x, nd["edges"]))
                continue
            if nd["f"] == "sel":
                vals.append([x for x, mk_ in zip(a, b) if mk_])
                continue
            f = {"add": lambda x, y: x + y, "sub": lambda x, y: x - y, "mul": lambda x, y: x * y,
                 "gt": lambda x, y: 1 if x > y else 0}[nd["f"]]
            if isinstance(a, list) and isinstance(b, list):
                vals.append([f(x, y) for x, y in zip(a, b)])
            elif isinstance(a, list):
                vals.append([f(x, b) for x in a])
            elif isinstance(b, list):
                vals.append([f(a, y) for y in b])
            else:
                vals.append([f(a, b)])
        return {"vals": [vals[r] for r in c["roots"]]}
    if op == "graph_reduce":
        r = c["reduce"]
        if r == "sum":
            return sum(2 * v + 1 for v in data)
        if r == "mean":
            return _fl(Fraction(sum(v + 1 for v in data), len(data)))
        h = _hist(data, [0, 2, 4, 6, 8])
        return h if r == "hist" else [h, sum(data)]
    if op == "graph_multi":
        return [[v + 1 for v in data], [2 * v for v in data], [3 * v + 1 for v in data]]
    if op == "pipeline" and c["kind"] == "bedgraph_sum":
        return sum((e - s_) * v for _, s_, e, v in data)
    if op == "pipeline" and c["kind"] == "extended":
        k = c["bins"] + 1
        out = []
        for ci, s_, e, f in data:
            a, b = (s_, s_ + k) if f == 1 else (e - k, e)
            out.append([ci, max(a, 0), min(b, c["sizes"][ci])])
        return out
    if op == "pipeline":
        dense = _dense_pileup(c)
        kind = c["kind"]
        if kind == "track_ufunc_sum":
            return sum(2 * v + 1 for v in _flat(dense))
        if kind == "uncovered":
            return sum(1 for v in _flat(dense) if v == 0)
        if kind == "track_bool_index":
            return [v for v in _flat(dense) if v > 1]
        if kind == "under_max":
            return [max(dense[ci][s_:e]) for ci, s_, e in c["peaks"]]
        if kind in ("under_sum", "under_rowsum"):          # the in-memory result: one sum per window (row)
            return [sum(dense[ci][s_:e]) for ci, s_, e in c["peaks"]]
        if kind == "under_colmean":
            rows_ = [dense[ci][s_:e] for ci, s_, e in c["peaks"]]
            w = max(len(r) for r in rows_)
            return [_fl(Fraction(sum(r[j] for r in rows_ if len(r) > j), sum(1 for r in rows_ if len(r) > j))) for j in range(w)]
        if kind == "merge_map":
            kind = "merged"
        if kind == "pileup_hist":
            edges = list(range(c["bins"] + 1))
            return {"hist": _hist(_flat(dense), edges), "edges": edges}
        if kind == "pileup_sum":
            return sum(_flat(dense))
        if kind == "mask_sum":
            return sum(1 for v in _flat(dense) if v)
        if kind == "pileup_data":
            return dense
        if kind in ("under_stranded", "under_stranded_mean"):
            rows_ = [dense[ci][s:e] if f == 1 else dense[ci][s:e][::-1] for ci, s, e, f in c["peaks"]]   # not '+' : reversed
            if kind == "under_stranded":
                return rows_
            return [_fl(Fraction(sum(col), len(rows_))) for col in zip(*rows_)]
        if kind == "under":
            return [dense[ci][s:e] for ci, s, e in c["peaks"]]
        if kind in ("windows", "windows_values"):
            ws = _windows(c)
            return ws if kind == "windows" else [dense[ci][a:b] for ci, a, b in ws]
        if kind == "under_mean":
            return [_fl(Fraction(sum(dense[ci][s:e]), e - s)) for ci, s, e in c["peaks"]]
        if kind == "merged":
            out = []
            for ci, d in enumerate(dense):
                ivs = sorted([s, e] for cj, s, e in data if cj == ci)
                cur = None
                for s, e in ivs:
                    if cur is not None and s <= cur[2]:
                        cur[2] = max(cur[2], e)
                    else:
                        if cur is not None:
                            out.append(cur)
                        cur = [ci, s, e]
                if cur is not None:
                    out.append(cur)
            return out
    raise ValueError(op)


def live_cases(tier, rng):
    """cases for the history / aliasing probe: a streamed result must still be right after a LATER streamed call"""
    out = []
    for _ in range(700 if tier in ("thorough", "widen") else 240):
        n = rng.randrange(2, 9)
        mask = rng.getrandbits(n - 1)
        vals = [rng.randrange(0, 9) for _ in range(n)]
        w = rng.choice(["mean", "bincount", "histogram", "count_kmers", "groupby", "chunk_entries"])
        if w == "mean":
            out.append({"op": "mean", "chunks": _cut(vals, mask), "scale": 1})
        elif w == "bincount":
            out.append({"op": "bincount", "chunks": _cut(vals, mask), "minlength": rng.choice([0, 6])})
        elif w == "histogram":
            out.append({"op": "histogram", "chunks": _cut(vals, mask), "edges": [0, 2, 4, 6, 8, 10], "how": rng.choice(["edges", "range"])})
        elif w == "count_kmers":
            seqs = [[rng.randrange(4) for _ in range(rng.choice([2, 3, 5]))] for _ in range(n)]
            out.append({"op": "count_kmers", "chunks": _cut(seqs, mask), "k": 2})
        elif w == "groupby":
            ks = _keys_from_pattern(n, rng.getrandbits(n - 1))
            kt = rng.choice(["ragged", "str", "int"])
            out.append({"op": "groupby", "kt": kt, "fast": kt == "ragged", "chunks": _cut([[k, i] for i, k in enumerate(ks)], mask)})
            if kt != "int" and rng.random() < 0.5:
                out[-1]["lab"] = rng.randrange(1, len(LABELSETS))
        else:
            out.append({"op": "chunk_entries", "chunks": _cut(list(range(n)), mask), "n": rng.choice([1, 2, 3])})
    return out


def impl_live(c):
    """the live result object of the streamed call and how to read it (again)"""
    m = _mods()
    bnp = m["bnp"]
    op = c["op"]
    if op == "mean":
        st, _ = _vstream(m, c["chunks"], c["scale"])
        return bnp.streams.mean(st), (lambda r: {"v": _fl(np.asarray(r).ravel()[0])})
    if op == "bincount":
        st, _ = _vstream(m, c["chunks"])
        return bnp.streams.bincount(st, minlength=c["minlength"]), (lambda r: {"v": [int(x) for x in r]})
    if op == "histogram":
        st, _ = _vstream(m, c["chunks"])
        return bnp.streams.histogram(st, **_hist_args(c)), (lambda h: {"v": {"hist": [int(x) for x in h[0]], "edges": _edges_out(h[1])}})
    if op == "count_kmers":
        mk = lambda rows: bnp.as_encoded_array(["".join("ACGT"[x] for x in s) for s in rows], bnp.DNAEncoding)
        st = m["BnpStream"](mk(ch) for ch in c["chunks"])
        return m["count_kmers"](st, c["k"]), (lambda r: {"v": _kmer_obs(r, c["k"])})
    if op == "groupby":
        lab = c.get("lab", 0)
        st = m["NpDataclassStream"]((_etable(m, ch, None, lab) for ch in c["chunks"]), dataclass=m["E"])
        groups = list(bnp.groupby(st, _COL[c["kt"]]))
        return groups, (lambda g: {"v": _groups_obs(iter(g), c["kt"], False, lab)})
    if op == "chunk_entries":
        V = m["V"]
        out = list(m["chunk_entries"](m["NpDataclassStream"]((V(np.array(ch, dtype=int)) for ch in c["chunks"]), dataclass=V), c["n"]))
        return out, (lambda o: {"v": [[int(x) for x in t.val] for t in o]})
    raise ValueError(op)


def _as_value(c, exp):
    """what the implementation's observation should be, from the oracle value"""
    if c["op"] == "mean":
        return _fl(Fraction(exp["sum"], exp["n"] * c["scale"])) if exp["n"] else _fl(float("nan"))
    if c["op"] == "mean_axis0" and isinstance(exp, list):
        return [_fl(Fraction(x, exp[-1])) if exp[-1] else _fl(float("nan")) for x in exp[:-1]]
    if c["op"] == "rowmean" and isinstance(exp, list):
        return [_fl(Fraction(x, c["w"])) for x in exp]
    if c["op"] == "graph_many" and c["mode"] == "reduce" and isinstance(exp, dict) and "vals" in exp:
        fs = [c["nodes"][r].get("f") for r in c["roots"]]
        return {"vals": [(_fl(Fraction(v[0], v[1])) if v[1] else _fl(float("nan"))) if f == "sumN" else v for f, v in zip(fs, exp["vals"])]}
    return exp


def _agree_file(got, exp):
    if not isinstance(got, dict) or "v" not in got or got["v"].get("written") != "same":
        return False
    chunks = got["v"]["chunks"]
    if exp["chunks"] is not None and chunks != exp["chunks"]:
        return False
    return [x for ch in chunks for x in ch] == exp["flat"]


def agree_spec(c, s, exp):
    if c["op"] == "rechunk_file":
        return core.canon(s) == core.canon(exp["chunks"])
    return core.canon(s) == core.canon(exp)


def agree(c, got, exp):
    if c["op"] == "rechunk_file":
        return _agree_file(got, exp)
    if isinstance(exp, dict) and "err" in exp:
        return core.canon(got) == core.canon(exp)
    if not isinstance(got, dict) or "v" not in got:
        return False
    want = core.canon(_as_value(c, exp))
    if c["op"] == "graph":
        return core.canon(got["v"]["value"]) == core.canon(exp["value"])
    if core.canon(got["v"]) != want:
        return False
    for k in ("mem", "np"):
        if k in got and core.canon(got[k]) != want:
            return False
    return True


def agree_model(c, got, m):
    if c["op"] == "rechunk_file":
        return isinstance(got, dict) and "v" in got and core.canon(got["v"]["chunks"]) == core.canon(m)
    if not isinstance(got, dict) or "v" not in got:
        return core.canon(got) == core.canon(m)
    return core.canon(got["v"]) == core.canon(_as_value(c, m))


MODEL_PIPELINES = {"pileup_data", "pileup_sum", "mask_sum", "pileup_hist", "under", "under_stranded", "windows", "windows_values"}


def model_request(c):
    if c["op"] == "pipeline":
        if c["kind"] not in MODEL_PIPELINES:
            return None      # values under intervals / merged: implementation vs dense oracle only
        chunks = [[r for r in ch if r[0] < 100] for ch in c["chunks"]]      # the included genome is what the model describes
        if c["kind"] == "windows":
            return dict({"op": "pipeline", "kind": "windows", "sizes": c["sizes"], "chunks": chunks, "bins": c["bins"], "peaks": []},
                        **({"wflank": c["wkw"][1]} if c["wkw"][0] == "flank" else {"wsize": c["wkw"][1]}))
        if c["kind"] == "windows_values":      # the values under the windows the model computes for the 'windows' kind
            return {"op": "pipeline", "kind": "under", "sizes": c["sizes"], "chunks": chunks, "bins": c["bins"], "peaks": _windows(c)}
        return {"op": "pipeline", "kind": c["kind"], "sizes": c["sizes"], "chunks": chunks, "bins": c["bins"],
                "peaks": [p[:3] + [1 if p[3] == 1 else 0] if len(p) == 4 else p for p in c["peaks"]]}
    if c["op"] == "groupby":
        return {"op": "groupby", "fast": c["fast"], "chunks": c["chunks"]}
    if c["op"] == "rechunk_file":
        if c["helper"] not in ("chunk_lines", "chunk_entries"):
            return None
        # the result does not depend on how the reader cut the file (rechunk_chunking_independent): one chunk of all records
        return {"op": c["helper"], "chunks": [list(range(c["L"]))], "n": c["n"]}
    return c


def finding_key(c, got, exp):
    op = c["op"]
    if op == "histogram_default":
        return "histogram:default-bins"
    if op == "rechunk_file":
        if isinstance(got, dict) and "err" in got:
            return f"rechunk_file:{c['helper']}-raises-{got['err']}"
        if isinstance(got, dict) and got["v"].get("written") != "same" and \
                [x for ch in got["v"]["chunks"] for x in ch] == list(range(c["L"])):
            return f"rechunk_file:{c['helper']}-written-bytes-differ-entries-right"
        return f"rechunk_file:{c['helper']}-wrong-entries"
    if op == "count_kmers1":
        return "count_kmers:k=1"
    if op == "count_kmers_big":
        return "count_kmers:more-than-1e6-values-in-one-chunk"
    if op == "graph_many":
        return "graph:" + c["mode"] + ("-raises-" + got["err"] if isinstance(got, dict) and "err" in got else "-wrong-value")
    if op == "graph" and c["nodes"][c["root"]]["k"] == "stream":
        return "graph:root-is-stream"
    if op == "pipeline":
        return "pipeline:" + c["kind"]
    if isinstance(got, dict) and "err" in got:
        if op == "graph":
            return "graph:raises-" + got["err"]
        return f"{op}:raises-{got['err']}"
    if op in ("chunk_entries", "chunk_lines"):
        sizes = [len(x) for x in got["v"]]
        if _flat(got["v"]) != _flat(c["chunks"]):
            return f"{op}:entries-lost-or-reordered"
        if sizes and sizes[-1] == 0:
            return f"{op}:empty-trailing-chunk"
        return f"{op}:chunk-sizes"
    if op == "graph":
        return "graph:wrong-value"
    if op == "pipeline":
        return "pipeline:" + c["kind"]
    if isinstance(got, dict) and "mem" in got and core.canon(got["mem"]) == core.canon(_as_value(c, exp)):
        return f"{op}:stream-differs-from-memory"
    return f"{op}:memory-differs-from-oracle"
