"""C08 — interval-set operations equal their per-base definitions."""
import dataclasses
import itertools
import struct

import numpy as np

from .. import core
from ..core import SKIP

ID = "C08"
RULE = ("(v6: + a sample of ALL cases again with the start / stop columns as uint8..uint64 / int8..int32 (numbers fit with room to spare), Geometry / StreamedGeometry cases again with underscore-named (ignored) contigs listed BEFORE regular ones in the size dict, coordinates at and past 2**31 / 2**32 / 2**33 / 2**40 on 2-3 contigs for sorting (4 entry paths, Geometry.sort) and extension; v5: + genomes / chromosome columns with more than 256 contigs (257..700, thorough also 1000, 2000 and one with 65540) through every chromosome-aware entry point, rows on contigs 255, 256, 257, last; v4: + global_intersect on 1-3 chromosomes, pileup bedGraph, value_hist, Geometry.sort/accessors, StreamedGeometry, extend; v3: every interval argument is byte-compared with a copy taken before the call; multi-call sequences on one object; "
        "jaccard_all_vs_all with 3-5 sets) exhaustive: every multiset of <= 3 half-open intervals on contigs of size 1..S (quick S<=4, thorough S<=6) for "
        "pileup / event pileup / mask / merge (every distance 0..S) ; every pair of multisets of <= 2 intervals (quick S<=4, "
        "thorough S<=6) for count_overlap / intersect / unique_intersect / contingency / Jaccard / Forbes; sort: every list of "
        "<= 3 records over 2 chromosomes x 2 starts x 2 stops x 3 entry paths; clip / extend_to_size: every start, stop in -2..S+2, "
        "length 0..S+1, both strands; then seeded random larger inputs (size <= 60, <= 12 intervals, 1-3 chromosomes). "
        "Non-trivial = intervals nest, touch, duplicate or reach position 0 / size (sort: a tie on start or chromosome; "
        "clip/extend: the result differs from the input)")
EXHAUSTIVE = {"quick": True, "thorough": True}
PARALLEL = 16
MODEL_OPS = {"global_intersect", "pileup_bedgraph", "value_hist", "geo_sort", "streamed_clip", "streamed_extend", "seq", "jaccard_matrix", "pileup", "pileup_events", "mask", "merge", "sort", "count_overlap", "intersect", "unique_intersect",
             "contingency", "jaccard", "forbes", "geo_jaccard", "clip", "geo_clip", "extend", "geo_extend"}
ASSUMPTIONS = [
    "intervals are 0 <= start <= stop <= size (merge, count_overlap, intersect, Forbes: start < stop); merge input is sorted by start (the code asserts it)",
    "count_overlap and intersect are compared only when each operand is internally non-overlapping (touching allowed): the "
    "'independently sorted starts and stops' formula counts depth-1 (theorem countOverlap_depth), which is the per-base value "
    "exactly under that precondition and not for a nested/duplicated operand (C08.countOverlap_nested_not_perbase); the "
    "functions carry no docstring, the repository's tests use disjoint operands",
    "clip is compared for intervals that meet the contig (start <= stop, start <= size, stop >= 0); extend_to_size for intervals "
    "inside the contig, fragment length >= 0, strands + and -",
    "integer types of the position columns: every case may be run with uint8..uint64 / int8..int32 columns when twice its largest number "
    "fits the type (arithmetic near the maximum of a narrow type is the caller's choice of type and out of scope, like int64 wrap-around)",
    "Jaccard needs a non-empty union, Forbes two non-empty sets (otherwise 0/0)",
    "the exported get_pileup delegates the counting to npstructures RunLength2dArray.from_intervals(...).sum(axis=0): specified "
    "external, equality with the per-base count is correspondence only; NumPy sort/argsort/lexsort/cumsum/fancy assignment are "
    "modelled as stable insertion sort / running sums / successive list updates",
    "IEEE division in Jaccard/Forbes is executed (Lean Float in the compiled driver, NumPy in the implementation, Python in the "
    "oracle) and compared by bit pattern, not proved",
]
TRUSTED_EXTRA = ["symbolic tracer for clip / extend_to_size (harness/props/c08.py, ~60 lines): records np.maximum/minimum/where/+/-/== on "
                 "symbolic operands and prints the expression as a Lean def in Gen/C08.lean"]

MANIFEST = {
    "text": "Lean 4 theorems (all interval lists, all sizes): merge_intervals (vectorised model proved equal to a recursive one) "
            "covers exactly the covered bases (d=0), contains every covered base, has input endpoints, tight non-empty runs, "
            "bridges only gaps <= d, separates outputs by > d and returns them in order; get_boolean_mask builds a well-formed "
            "run-length array whose xor-accumulate expansion is cov>0 at every base (toArray_dense + from_intervals + merge); the "
            "in-repo event pileup (bedgraph.get_pileup: sort endpoints, +-1, cumsum, drop duplicates) is well formed and equals the "
            "per-base count; count_overlap = sum over bases of (depth-1) and intersect covers every base (depth-1) times for ANY operands "
            "(key identity cov_pairing on independently sorted starts/stops), hence equal to the per-base values when each operand is "
            "internally non-overlapping; the same for global_intersect on several chromosomes (globalIntersect_depth, by encoding "
            "chromosomes at offsets); merge(I,0) is THE maximal-run decomposition (merge0_unique), merging is idempotent, mask / "
            "count_overlap / intersect do not depend on input order; the contingency table and unique_intersect are the per-base values; sort_intervals is a permutation "
            "ordered by (chromosome, start, stop) (refutation of the shipped lexsort rule kept); clip and extend_to_size kernels, "
            "re-traced from the source on every run into Gen/C08.lean, stay inside the contig and have the stated lengths (omega). "
            "Correspondence: implementation vs Lean model vs Lean spec vs Python per-base oracle on every multiset of <= 3 "
            "intervals on contigs <= 6, pairs of such sets, every merge distance.",
    "note": "count_overlap / intersect are compared with the per-base value only on internally non-overlapping operands (precondition "
            "of countOverlap_perbase / intersect_perbase; Lean counter-example for a nested operand); the exported get_pileup's "
            "counting engine is npstructures (specified; its in-repo wrapper getPileup and the per-row chromosome lookup of "
            "Geometry.clip/extend_to_size are in the model); Jaccard/Forbes float division compared bitwise.",
    "technique": "Lean 4 proof over an executable model + kernels traced from source; differential correspondence with the implementation",
    "design": "§6 C08",
}

_M = {}


def _mods():
    if not _M:
        import bionumpy as bnp
        from bionumpy.datatypes import Interval, StrandedInterval
        from bionumpy import arithmetics as ar
        from bionumpy.arithmetics import intervals as iv, bedgraph as bg, similarity_measures as sm
        from bionumpy.genomic_data.geometry import Geometry
        from bionumpy.encodings.string_encodings import StringEncoding
        from bionumpy.encoded_array import as_encoded_array
        _M.update(bnp=bnp, Interval=Interval, StrandedInterval=StrandedInterval, ar=ar, iv=iv, bg=bg, sm=sm,
                  Geometry=Geometry, StringEncoding=StringEncoding, as_encoded_array=as_encoded_array)
    return _M


# ------------------------------------------------------------------ symbolic tracing of the element-wise kernels

class NotTraceable(Exception):
    pass


_UF = {"maximum": "max", "minimum": "min", "add": "add", "subtract": "sub", "equal": "eq"}
SIZE_SENTINEL = 1000003


def _node(x):
    if isinstance(x, Sym):
        return x.node
    if isinstance(x, (bool, np.bool_)):
        raise NotTraceable("bool operand")
    if isinstance(x, (int, np.integer)):
        return ("const", int(x))
    if isinstance(x, str):
        return ("str", x)
    if isinstance(x, np.ndarray) and x.size == 1 and np.issubdtype(x.dtype, np.integer):
        return ("const", int(x.ravel()[0]))
    raise NotTraceable(f"operand {type(x).__name__}")


class Sym:
    """symbolic int64 column: records the expression DAG of element-wise NumPy code"""
    __array_priority__ = 1000
    __hash__ = None

    def __init__(self, node):
        self.node = node

    def __array_ufunc__(self, ufunc, method, *inputs, **kw):
        if method != "__call__" or kw or ufunc.__name__ not in _UF:
            raise NotTraceable(f"ufunc {ufunc.__name__}.{method}")
        return Sym((_UF[ufunc.__name__],) + tuple(_node(i) for i in inputs))

    def __array_function__(self, func, types, args, kwargs):
        if func is np.where and len(args) == 3 and not kwargs:
            return Sym(("where",) + tuple(_node(a) for a in args))
        raise NotTraceable(f"function {getattr(func, '__name__', func)}")

    def __add__(self, o): return Sym(("add", self.node, _node(o)))
    def __radd__(self, o): return Sym(("add", _node(o), self.node))
    def __sub__(self, o): return Sym(("sub", self.node, _node(o)))
    def __rsub__(self, o): return Sym(("sub", _node(o), self.node))
    def __eq__(self, o): return Sym(("eq", self.node, _node(o)))
    def ravel(self): return self
    def __bool__(self): raise NotTraceable("data-dependent control flow")
    def __len__(self): raise NotTraceable("len of symbolic column")
    def __iter__(self): raise NotTraceable("iteration over symbolic column")
    def __index__(self): raise NotTraceable("symbolic index")


@dataclasses.dataclass
class _SymIv:
    chromosome: object
    start: object
    stop: object
    strand: object = None


def _lean(node):
    k = node[0]
    if k == "var":
        return node[1]
    if k == "const":
        return "size" if node[1] == SIZE_SENTINEL else f"({node[1]} : Int)"
    if k in ("max", "min"):
        return f"({k} {_lean(node[1])} {_lean(node[2])})"
    if k == "add":
        return f"({_lean(node[1])} + {_lean(node[2])})"
    if k == "sub":
        return f"({_lean(node[1])} - {_lean(node[2])})"
    if k == "eq":
        if node[1] == ("var", "strand") and node[2] == ("str", "+"):
            return "fwd"
        raise NotTraceable("comparison other than strand == '+'")
    if k == "where":
        c = _lean(node[1])
        return f"(if {c} = true then {_lean(node[2])} else {_lean(node[3])})"
    raise NotTraceable(k)


HAND = {"clipStart": "(max (0 : Int) start)", "clipStop": "(min size stop)",
        "extStart": "(if fwd = true then start else (stop - (min len stop)))",
        "extStop": "(if fwd = true then (min (start + len) size) else stop)"}


def trace_kernels():
    """run the real clip / extend_to_size (module functions and Geometry methods) on symbolic columns"""
    m = _mods()
    out, traced = {}, {}
    sv = lambda: _SymIv(None, Sym(("var", "start")), Sym(("var", "stop")), Sym(("var", "strand")))
    geo = m["Geometry"]({"chrT": SIZE_SENTINEL})

    def geo_iv():
        x = sv()
        x.chromosome = m["as_encoded_array"](["chrT"])
        return x
    jobs = {
        "clip": lambda: m["iv"].clip(sv(), Sym(("var", "size"))),
        "geoClip": lambda: geo.clip(geo_iv()),
        "ext": lambda: m["iv"].extend_to_size(sv(), Sym(("var", "len")), Sym(("var", "size"))),
        "geoExt": lambda: geo.extend_to_size(geo_iv(), Sym(("var", "len"))),
    }
    for name, job in jobs.items():
        base = "clip" if "lip" in name else "ext"
        try:
            r = job()
            out[name + "Start"], out[name + "Stop"] = _lean(_node(r.start)), _lean(_node(r.stop))
            traced[name] = True
        except Exception as e:  # not traceable any more: hand model + correspondence still stand
            out[name + "Start"], out[name + "Stop"] = HAND[base + "Start"], HAND[base + "Stop"]
            traced[name] = False
    return out, traced


_TRACED = {}


def regenerate():
    out, traced = trace_kernels()
    _TRACED.update(traced)
    L = ["/-! GENERATED on every run by harness/props/c08.py: the element-wise kernels of `arithmetics.intervals.clip`,",
         "`extend_to_size`, `Geometry.clip`, `Geometry.extend_to_size`, obtained by executing the real functions (package imported",
         "from /repo) on symbolic columns and printing the recorded expression. `fwd` is `strand == \"+\"`. Do not edit. -/",
         "set_option linter.unusedVariables false", "namespace Gen.C08", ""]
    for n in ("clip", "geoClip"):
        L.append(f"def {n}Traced : Bool := {'true' if traced[n] else 'false'}")
        for part in ("Start", "Stop"):
            L.append(f"def {n}{part} (start stop size : Int) : Int := {out[n + part]}")
    for n in ("ext", "geoExt"):
        L.append(f"def {n}Traced : Bool := {'true' if traced[n] else 'false'}")
        for part in ("Start", "Stop"):
            L.append(f"def {n}{part} (fwd : Bool) (start stop len size : Int) : Int := {out[n + part]}")
    L.append("\nend Gen.C08\n")
    return [("BnpVerif/Gen/C08.lean", "\n".join(L))]


def extra_evidence():
    return {"kernels_traced": dict(_TRACED)}


# ------------------------------------------------------------------ generators

def _ivs(S, empties=False):
    return [(a, b) for a in range(S + 1) for b in range(a + (0 if empties else 1), S + 1)]


def _multisets(S, n, empties=False):
    pool = _ivs(S, empties)
    for k in range(n + 1):
        for ms in itertools.combinations_with_replacement(pool, k):
            yield [list(x) for x in ms]


def _disjoint(A):
    A = sorted(map(tuple, A))
    return all(a < b for a, b in A) and all(A[i][1] <= A[i + 1][0] for i in range(len(A) - 1))


def _rand_ivs(rng, size, n, disjoint=False):
    if disjoint:
        pts = sorted(rng.sample(range(size + 1), min(2 * n, size + 1) // 2 * 2))
        out = [[pts[i], pts[i + 1]] for i in range(0, len(pts), 2)]
        if rng.random() < 0.5:   # make some touch
            out = [[a, b] for a, b in out]
            for i in range(len(out) - 1):
                if rng.random() < 0.4:
                    out[i][1] = out[i + 1][0]
        return out
    out = []
    for _ in range(n):
        a = rng.choice([0, 0, rng.randrange(size), rng.randrange(size)])
        b = rng.choice([size, min(size, a + 1 + rng.randrange(max(1, size // 3))), rng.randrange(a + 1, size + 1)])
        out.append([a, b])
    if out and rng.random() < 0.3:
        out.append(list(rng.choice(out)))
    return out


def _many_contig_cases(rng, big):
    """genomes / chromosome lists with MORE THAN 256 entries (draft assemblies, alt contigs): every chromosome-aware entry
    point with rows on contigs number 255, 256, 257, ..., the last one - the codes of the chromosome column no longer fit a
    byte, so a result that is right in value on small genomes but narrower in kind shows as a wrong chromosome"""
    for N in ([257, 300] + [rng.randrange(258, 700) for _ in range(6 if big else 1)] + ([1000, 2000] if big else [])):
        for _rep in range(3 if big else 1):
            sizes = [rng.choice([1, 2, 3, 5, 6]) for _ in range(N)]
            hot = [h for h in (0, 1, 255, 256, 257, N - 1, N - 2) if h < N]
            rows = []
            for _ in range(rng.choice([4, 8, 14])):
                c = rng.choice(hot + [rng.randrange(N), rng.randrange(256, N)])
                s = rng.randrange(0, sizes[c])
                rows.append((c, s, rng.randrange(s, sizes[c] + 1)))
            rows.append((N - 1, 0, sizes[N - 1]))            # position 0 .. last base of the last contig
            rows.append((256, 0, 1))
            rng.shuffle(rows)
            srt = sorted(rows)
            ne = [r for r in srt if r[1] < r[2]]
            common = {"chrom": [r[0] for r in rows], "chrom_sizes": sizes, "sizes": [sizes[r[0]] for r in rows]}
            yield {"op": "geo_sort", "chrom_sizes": sizes, "recs": [list(r) for r in rows]}
            yield dict(common, op="geo_clip", start=[r[1] - rng.choice([0, 1, 4]) for r in rows],
                       stop=[r[2] + rng.choice([0, 1, 40]) for r in rows])
            yield dict(common, op="geo_extend", start=[r[1] for r in rows], stop=[r[2] for r in rows],
                       fwd=[rng.randrange(2) for _ in rows], len=rng.choice([0, 1, 3, 10]))
            yield {"op": "geo_mask", "chrom_sizes": sizes, "rows": [list(r) for r in srt]}
            yield {"op": "geo_pileup", "chrom_sizes": sizes, "rows": [list(r) for r in srt]}
            yield {"op": "geo_seq", "chrom_sizes": sizes, "rows": [list(r) for r in ne], "ds": [0, 1, 3, 0]}
            yield {"op": "streamed_merge", "chrom_sizes": sizes, "rows": [list(r) for r in ne], "d": rng.choice([0, 1, 2])}
            c2 = {"chrom": [r[0] for r in srt], "chrom_sizes": sizes, "sizes": [sizes[r[0]] for r in srt]}
            yield dict(c2, op="streamed_clip", start=[r[1] - rng.choice([0, 1]) for r in srt], stop=[r[2] + rng.choice([0, 1, 9]) for r in srt])
            yield dict(c2, op="streamed_extend", start=[r[1] for r in srt], stop=[r[2] for r in srt],
                       fwd=[rng.randrange(2) for _ in srt], len=rng.choice([0, 1, 3]))
            # module-level functions on tables whose chromosome column has > 256 distinct names / codes
            for path in ("plain", "enc", "order"):
                yield {"op": "sort", "recs": [list(r) for r in rows], "path": path, "nnames": N}
            def dj():
                out = []
                for c in sorted(set(rng.choice(hot + [rng.randrange(256, N)]) for _ in range(6))):
                    out += [[c, a, b] for a, b in sorted(_rand_ivs(rng, sizes[c], rng.randrange(1, 3), True))]
                return out
            A, B = dj(), dj()
            yield {"op": "global_intersect", "sizes": sizes, "a": A, "b": B}
            chroms = [{"size": z, "a": [r[1:] for r in A if r[0] == c], "b": [r[1:] for r in B if r[0] == c]} for c, z in enumerate(sizes)]
            for op in ("jaccard", "forbes", "geo_jaccard"):
                yield {"op": op, "chroms": chroms}
            yield {"op": "jaccard_matrix", "sizes": sizes, "sets": [A, B, sorted([list(r) for r in ne])]}
    if big:     # past 2**16 contigs (one case: building the genome context is quadratic in the number of contigs)
        N = 65540
        sizes = [1 + (i % 3) for i in range(N)]
        rows = [(N - 1, 0, sizes[N - 1]), (65536, 0, 1), (0, 0, 1), (256, 0, 1), (65535, 0, 1), (N - 2, 0, 1), (3, 0, 1)]
        yield {"op": "geo_sort", "chrom_sizes": sizes, "recs": [list(r) for r in rows]}


PAIR_OPS = ["count_overlap", "intersect", "unique_intersect", "contingency"]


def _chrom_cases(rng, nch, size, n, disjoint):
    return [{"size": sz, "a": sorted(_rand_ivs(rng, sz, rng.randrange(n + 1), disjoint)),
             "b": sorted(_rand_ivs(rng, sz, rng.randrange(n + 1), disjoint))}
            for sz in [rng.randrange(1, size + 1) for _ in range(nch)]]


_DTS = ["uint8", "uint16", "uint32", "uint64", "int8", "int16", "int32"]
_GEO_OPS = {"geo_clip": "chrom_sizes", "geo_extend": "chrom_sizes", "geo_mask": "chrom_sizes", "geo_pileup": "chrom_sizes", "geo_sort": "chrom_sizes",
            "geo_seq": "chrom_sizes", "streamed_clip": "chrom_sizes", "streamed_extend": "chrom_sizes", "streamed_merge": "chrom_sizes",
            "geo_jaccard": "chroms", "jaccard_matrix": "sizes"}
_BIGS = [0, 7, 2 ** 31 - 1, 2 ** 31, 2 ** 32 - 1, 2 ** 32, 2 ** 32 + 50, 2 ** 33 + 7, 2 ** 40]


def _ints(x):
    if isinstance(x, bool) or isinstance(x, str) or x is None:
        return
    if isinstance(x, int):
        yield x
    elif isinstance(x, dict):
        for v in x.values():
            yield from _ints(v)
    elif isinstance(x, (list, tuple)):
        for v in x:
            yield from _ints(v)


def _big_coord_cases(rng, big):
    """coordinates at and past 2**31 / 2**32 / 2**33 on two or three contigs (contigs longer than 2**32 bases exist): the operations
    whose definition does not need a dense array - sorting (all entry paths, Geometry.sort) and strand-aware extension"""
    for _ in range(300 if big else 40):
        k = rng.choice([2, 2, 3])
        recs = []
        for _i in range(rng.choice([3, 5, 8])):
            a = rng.choice(_BIGS) + rng.choice([0, 0, 3])
            recs.append([rng.randrange(k), a, a + rng.choice([1, 5, 2 ** 32])])
        if rng.random() < 0.5:
            recs.append(list(rng.choice(recs)))
        for path in ("plain", "enc", "order", "human"):
            yield {"op": "sort", "recs": recs, "path": path}
        sizes = [2 ** 41] * k
        yield {"op": "geo_sort", "chrom_sizes": sizes, "recs": recs}
        L = rng.choice([5, 2 ** 31, 2 ** 32 + 1])
        fwd = [rng.randrange(2) for _ in recs]
        yield {"op": "geo_extend", "chrom": [r[0] for r in recs], "chrom_sizes": sizes, "sizes": [2 ** 41] * len(recs),
               "start": [r[1] for r in recs], "stop": [r[2] for r in recs], "fwd": fwd, "len": L}
        yield {"op": "extend", "start": [r[1] for r in recs], "stop": [r[2] for r in recs], "sizes": [2 ** 41] * len(recs), "fwd": fwd, "len": L}


def _big_table_cases(rng, big):
    """round 9: contingency counts whose PRODUCTS pass 2**31 / 2**32 (two contigs of 50-70 kb, tens of thousands of covered and of
    shared bases): Forbes / Jaccard / the table itself must still be the per-base values (oracle only: the Lean model enumerates
    bases and is not asked for these sizes)"""
    for _ in range(6 if big else 2):
        chs = []
        for _c in range(2):
            size = rng.randrange(50000, 70000)
            a0 = rng.randrange(0, 5000)
            a1 = a0 + rng.randrange(25000, 40000)
            b0 = rng.randrange(a0, a0 + 8000)
            b1 = min(size, b0 + rng.randrange(25000, 40000))
            chs.append({"size": size, "a": [[a0, a1]], "b": [[b0, b1]]})
        for op in ("forbes", "jaccard", "geo_jaccard"):
            yield {"op": op, "chroms": chs, "nolean": True}
        yield {"op": "contingency", "a": chs[0]["a"], "b": chs[0]["b"], "size": chs[0]["size"], "nolean": True}


def model_request(c):
    return None if c.get("nolean") else c


def cases(tier, rng):
    """the base cases, and for a sample of them the same case (a) with the start / stop columns in another integer type
    (uint8..uint64, int8..int32; the numbers of the case fit the type with room to spare) and (b) - Geometry / StreamedGeometry -
    with contigs whose name has an underscore (ignored by the genome context) listed BEFORE regular ones in the size dict"""
    big = tier in ("thorough", "widen")
    for c in itertools.chain(_base_cases(tier, rng), _big_coord_cases(rng, big), _big_table_cases(rng, big)):
        yield c
        op = c["op"]
        if op in ("geo_info",):
            continue
        nums = list(_ints(c))
        if nums and rng.random() < (1.0 if len(nums) >= 400 else 0.04 if op in ("geo_jaccard", "jaccard", "forbes", "contingency", "unique_intersect") else 0.12):
            lo, hi = min(nums), 2 * max(nums) + 2
            if op == "extend_plain":        # start - k is negative by definition here: only signed types can hold the result
                lo = lo - max(nums)
            pool = [d for d in _DTS if np.iinfo(d).max >= hi and np.iinfo(d).min <= (0 if lo >= 0 else 2 * lo - 2)]
            if pool:
                yield dict(c, dt=rng.choice(pool))
        key = _GEO_OPS.get(op)
        if key and len(c[key]) <= 50 and rng.random() < 0.3:
            n = len(c[key])
            ign = [[rng.randrange(n), rng.choice([1, 3, 50, 200])] for _ in range(rng.choice([1, 1, 2]))]
            c2 = dict(c, ignored=ign)
            if rng.random() < 0.3:
                pool = [d for d in _DTS if nums and np.iinfo(d).max >= 2 * max(nums) + 2 and np.iinfo(d).min <= (0 if min(nums) >= 0 else 2 * min(nums) - 2)]
                if pool:
                    c2["dt"] = rng.choice(pool)
            yield c2


def _base_cases(tier, rng):
    big = tier in ("thorough", "widen")
    S1 = 6 if big else 4          # single-set scope
    S2 = 6 if big else 4          # pair scope (multisets of <= 2)
    # 1. single interval multisets
    for S in range(1, S1 + 1):
        for ms in _multisets(S, 3):
            yield {"op": "pileup", "iv": ms, "size": S}
            yield {"op": "pileup_events", "iv": ms, "size": S}
            yield {"op": "mask", "iv": ms, "size": S}
            for d in range(0, S + 1):
                yield {"op": "merge", "iv": sorted(ms), "d": d, "size": S}
    # several calls on one object: merge with distances in a row (d > 0 on non-nested input included), then pileup, mask, sort
    for S in range(2, (6 if big else 5) + 1):
        for ms in _multisets(S, 3 if big or S <= 4 else 2):
            if ms and (big or S <= 4 or rng.random() < 0.5):
                yield {"op": "seq", "iv": sorted(ms), "size": S, "ds": list(range(0, min(S, 5) + 1))}
    # with empty intervals (start == stop) for the per-base ops
    for S in range(1, 4 if big else 3):
        for ms in _multisets(S, 3 if big else 2, empties=True):
            if any(a == b for a, b in ms):
                yield {"op": "pileup", "iv": ms, "size": S}
                yield {"op": "mask", "iv": ms, "size": S}
    # unsorted orders reach the argsort in get_boolean_mask
    for S in (3, 4):
        for ms in itertools.permutations(_ivs(S), 3 if big and S == 3 else 2):
            yield {"op": "mask", "iv": [list(x) for x in ms], "size": S}
    # 2. pairs of sets
    for S in range(1, S2 + 1):
        sets = list(_multisets(S, 2))
        for A in sets:
            for B in sets:
                dj = _disjoint(A) and _disjoint(B)
                for op in PAIR_OPS:
                    if op in ("count_overlap", "intersect") and not dj:
                        continue
                    yield {"op": op, "a": A, "b": B, "size": S}
                if S <= (5 if big else 4) and A and B:
                    ch = [{"size": S, "a": sorted(A), "b": sorted(B)}]
                    yield {"op": "jaccard", "chroms": ch}
                    yield {"op": "forbes", "chroms": ch}
                    yield {"op": "geo_jaccard", "chroms": ch}
    # pairs where one operand has three intervals (sampled)
    for _ in range(6000 if big else 300):
        S = rng.choice([3, 4, 5, 6])
        pool = _ivs(S)
        A = sorted(rng.choice(pool) for _ in range(3))
        B = sorted(rng.choice(pool) for _ in range(rng.choice([1, 2, 3])))
        if rng.random() < 0.5:
            A, B = B, A
        A, B = [list(x) for x in A], [list(x) for x in B]
        for op in PAIR_OPS:
            if op in ("count_overlap", "intersect") and not (_disjoint(A) and _disjoint(B)):
                continue
            yield {"op": op, "a": A, "b": B, "size": S}
    # Jaccard / Forbes on >= 2 contigs where one set is empty on one contig
    for S in (2, 3):
        for A in _multisets(S, 2):
            for B in _multisets(S, 1):
                if A and B:
                    for ch in ([{"size": S, "a": sorted(A), "b": []}, {"size": S, "a": [], "b": sorted(B)}, {"size": 2, "a": [[0, 1]], "b": [[0, 2]]}],
                               [{"size": S, "a": sorted(A), "b": sorted(B)}, {"size": 3, "a": [], "b": [[1, 2]]}]):
                        for op in ("jaccard", "forbes", "geo_jaccard"):
                            yield {"op": op, "chroms": ch}
    # Geometry.jaccard_all_vs_all with 3-5 sets of different covered sizes
    for _ in range(1200 if big else 150):
        sizes = [rng.choice([2, 3, 5, 8]) for _ in range(rng.choice([1, 2, 3]))]
        sets = []
        for k in range(rng.choice([3, 3, 4, 5])):
            st = []
            for c, z in enumerate(sizes):
                for a, b in _rand_ivs(rng, z, rng.choice([0, 1, 1, 2, 3])):
                    st.append([c, a, b])
            if not st:
                st = [[0, 0, 1 + k % sizes[0]]]
            sets.append(sorted(st))
        yield {"op": "jaccard_matrix", "sizes": sizes, "sets": sets}
    # global_intersect: several chromosomes at once (string-encoded chromosome column)
    for _ in range(3000 if big else 500):
        sizes = [rng.choice([2, 3, 4, 6]) for _ in range(rng.choice([1, 2, 3]))]
        A = [[c, a, b] for c, z in enumerate(sizes) for a, b in sorted(_rand_ivs(rng, z, rng.randrange(4), True))]
        B = [[c, a, b] for c, z in enumerate(sizes) for a, b in sorted(_rand_ivs(rng, z, rng.randrange(4), True))]
        yield {"op": "global_intersect", "sizes": sizes, "a": A, "b": B}
    for S in (2, 3):     # exhaustive: one interval per operand per chromosome on two chromosomes
        one = [[]] + [[list(x)] for x in _ivs(S)]
        for a0 in one:
            for a1 in one:
                for b0 in one:
                    for b1 in one:
                        if big or rng.random() < 0.25:
                            yield {"op": "global_intersect", "sizes": [S, S], "a": [[0] + x for x in a0] + [[1] + x for x in a1],
                                   "b": [[0] + x for x in b0] + [[1] + x for x in b1]}
    # intervals.pileup (bedGraph of the coverage), bedgraph.value_hist / from_runlength_array
    for S in range(1, (5 if big else 4) + 1):
        for ms in _multisets(S, 3):
            yield {"op": "pileup_bedgraph", "iv": ms}
            if big or rng.random() < 0.3:
                yield {"op": "from_rla", "iv": ms, "size": S}
    # intervals.extend (not size-aware): both / left / right
    for mode in ("both", "left", "right"):
        for k in (0, 1, 3):
            yield {"op": "extend_plain", "mode": mode, "k": k, "iv": [[2, 5], [4, 4], [7, 9]]}
    for _ in range(600 if big else 100):
        pts = sorted(rng.sample(range(30), 2 * rng.randrange(0, 5)))
        yield {"op": "value_hist", "bg": [[pts[i], pts[i + 1], rng.choice([0, 1, 1, 2, 5])] for i in range(0, len(pts), 2)]}
    # a few nested / duplicated operands for the two restricted functions (outside the domain: recorded as skipped)
    for A, B in [([[0, 3], [1, 2]], [[0, 1]]), ([[0, 2], [0, 2]], [[1, 3]]), ([[0, 1]], [[0, 2], [1, 3]])]:
        yield {"op": "count_overlap", "a": A, "b": B, "size": 3}
        yield {"op": "intersect", "a": A, "b": B, "size": 3}
    # 3. sort: every list of <= 3 records over 2 chromosomes x 2 starts x 2 stops, three entry paths
    recs = [[k, s, e] for k in (0, 1) for s in (0, 1) for e in (2, 3)]
    for n in range(0, 4):
        for rs in itertools.product(recs, repeat=n):
            if n == 3 and not big and rng.random() < 0.5:
                continue
            for path in ("plain", "order", "enc", "human"):
                yield {"op": "sort", "recs": [list(r) for r in rs], "path": path}
    # 4. clip / extend kernels: every start/stop around a small contig
    for S in (1, 3) if not big else (1, 2, 3, 5):
        rows = [(s, e) for s in range(-2, S + 3) for e in range(-2, S + 3)]
        dom = [(s, e) for s, e in rows if s <= e and s <= S and e >= 0]
        yield {"op": "clip", "start": [r[0] for r in dom], "stop": [r[1] for r in dom], "sizes": [S] * len(dom)}
        for s, e in rows:
            yield {"op": "clip", "start": [s], "stop": [e], "sizes": [S]}
        for L in range(0, S + 2):
            ins = [(s, e) for s, e in rows if 0 <= s <= e <= S]
            yield {"op": "extend", "start": [r[0] for r in ins] * 2, "stop": [r[1] for r in ins] * 2,
                   "sizes": [S] * (2 * len(ins)), "fwd": [1] * len(ins) + [0] * len(ins), "len": L}
            for s, e in rows:
                if 0 <= s <= e <= S:
                    for f in (0, 1):
                        yield {"op": "extend", "start": [s], "stop": [e], "sizes": [S], "fwd": [f], "len": L}
    # 4b. more than 256 contigs
    yield from _many_contig_cases(rng, big)
    # 5. random larger
    N = 1500 if big else 150
    for _ in range(N):
        size = rng.choice([1, 2, 7, 8, 20, 33, 60])
        n = rng.choice([0, 1, 2, 3, 5, 8, 12])
        ms = _rand_ivs(rng, size, n)
        yield {"op": "pileup", "iv": ms, "size": size}
        yield {"op": "pileup_events", "iv": ms, "size": size}
        yield {"op": "mask", "iv": ms, "size": size}
        yield {"op": "merge", "iv": sorted(ms), "d": rng.choice([0, 0, 1, 2, 3, size // 2, size]), "size": size}
        A, B = _rand_ivs(rng, size, rng.randrange(7)), _rand_ivs(rng, size, rng.randrange(7))
        yield {"op": "unique_intersect", "a": A, "b": B, "size": size}
        yield {"op": "contingency", "a": A, "b": B, "size": size}
        A, B = _rand_ivs(rng, size, rng.randrange(7), True), _rand_ivs(rng, size, rng.randrange(7), True)
        rng.shuffle(A)
        yield {"op": "count_overlap", "a": A, "b": B, "size": size}
        yield {"op": "intersect", "a": A, "b": B, "size": size}
        ch = _chrom_cases(rng, rng.choice([1, 2, 3]), rng.choice([3, 9, 40]), 4, rng.random() < 0.5)
        yield {"op": rng.choice(["jaccard", "forbes", "geo_jaccard"]), "chroms": ch}
        # sort with more records / chromosomes
        k = rng.choice([2, 3, 5])
        rs = [[rng.randrange(k), rng.randrange(4), rng.randrange(4, 8)] for _ in range(rng.choice([2, 4, 7, 12]))]
        yield {"op": "sort", "recs": rs, "path": rng.choice(["plain", "order", "enc", "human"])}
        # geometry kernels with per-row chromosome sizes
        sizes = [rng.choice([1, 5, 30]) for _ in range(3)]
        rows = []
        for _ in range(rng.choice([1, 3, 6])):
            c = rng.randrange(3)
            s = rng.randrange(0, sizes[c])
            rows.append((c, s, rng.randrange(s, sizes[c] + 1)))
        common = {"chrom": [r[0] for r in rows], "chrom_sizes": sizes, "sizes": [sizes[r[0]] for r in rows]}
        yield dict(common, op="geo_clip", start=[r[1] - rng.choice([0, 0, 1, 4]) for r in rows],
                   stop=[r[2] + rng.choice([0, 0, 1, 40]) for r in rows])
        yield dict(common, op="geo_extend", start=[r[1] for r in rows], stop=[r[2] for r in rows],
                   fwd=[rng.randrange(2) for _ in rows], len=rng.choice([0, 1, 3, 10, 50]))
        # Geometry.get_mask / get_pileup on several chromosomes (implementation vs per-base oracle)
        srt = sorted(rows)
        yield {"op": rng.choice(["geo_mask", "geo_pileup"]), "chrom_sizes": sizes, "rows": [list(r) for r in srt]}
        yield {"op": "geo_sort", "chrom_sizes": sizes, "recs": [list(r) for r in rng.sample(rows, len(rows))] +
               ([list(rows[0])[:2] + [rows[0][2]]] if rng.random() < 0.5 else [])}
        yield {"op": "geo_info", "chrom_sizes": sizes}
        # StreamedGeometry: one chunk per chromosome
        yield dict(common, op="streamed_clip", start=[r[1] - rng.choice([0, 1, 4]) for r in rows],
                   stop=[r[2] + rng.choice([0, 1, 40]) for r in rows])
        yield dict(common, op="streamed_extend", start=[r[1] for r in rows], stop=[r[2] for r in rows],
                   fwd=[rng.randrange(2) for _ in rows], len=rng.choice([0, 1, 3, 10]))
        if all(r[1] < r[2] for r in srt):
            yield {"op": "streamed_merge", "chrom_sizes": sizes, "rows": [list(r) for r in srt], "d": rng.choice([0, 1, 2, 5])}
        if all(r[1] < r[2] for r in srt):
            yield {"op": "geo_seq", "chrom_sizes": sizes, "rows": [list(r) for r in srt], "ds": [0, 1, 3, 0, 2]}
        ms = sorted(_rand_ivs(rng, size, rng.choice([2, 3, 5, 8])))
        yield {"op": "seq", "iv": ms, "size": size, "ds": [rng.choice([0, 1, 2, 3, size]) for _ in range(4)]}


def _touchy(ivl, size):
    s = sorted(map(tuple, ivl))
    return any(a == 0 or b == size for a, b in s) or any(s[i][1] >= s[i + 1][0] for i in range(len(s) - 1))


def nontrivial(c):
    op = c["op"]
    if op in ("pileup", "pileup_events", "mask", "merge"):
        return len(c["iv"]) >= 1 and _touchy(c["iv"], c["size"])
    if op in PAIR_OPS:
        return bool(c["a"]) and bool(c["b"]) and _touchy(c["a"] + c["b"], c["size"])
    if op in ("jaccard", "forbes", "geo_jaccard"):
        return any(x["a"] and x["b"] for x in c["chroms"])
    if op == "sort":
        r = c["recs"]
        return any(r[i][:2] == r[j][:2] or r[i][0] != r[j][0] for i in range(len(r)) for j in range(i + 1, len(r)))
    if op in ("clip", "geo_clip"):
        return any(s < 0 or e > z for s, e, z in zip(c["start"], c["stop"], c["sizes"]))
    if op in ("extend", "geo_extend"):
        return len(c["start"]) > 0
    if op in ("geo_mask", "geo_pileup", "geo_seq"):
        return len(c["rows"]) > 0
    if op == "global_intersect":
        return bool(c["a"]) and bool(c["b"]) and len({r[0] for r in c["a"] + c["b"]}) >= 2
    if op in ("pileup_bedgraph", "from_rla"):
        return len(c["iv"]) >= 2
    if op == "value_hist":
        return len(c["bg"]) >= 2
    if op in ("geo_sort", "streamed_merge"):
        return len(c.get("recs", c.get("rows", []))) >= 2
    if op in ("streamed_clip", "streamed_extend"):
        return len(c["start"]) > 0
    if op == "seq":
        return len(c["iv"]) >= 1 and any(d > 0 for d in c["ds"])
    if op == "jaccard_matrix":
        return len(c["sets"]) >= 3
    return True


# ------------------------------------------------------------------ implementation

_SNAP = []
_DT = [int]        # dtype of the start / stop columns handed to the package (case key "dt")


def _snap(x):
    """remember an argument object and a byte copy of its numeric columns (checked after the call)"""
    cols = {}
    for name in ("start", "stop", "strand"):
        if hasattr(x, name):
            a = getattr(x, name)
            a = a.raw() if hasattr(a, "raw") else a
            cols[name] = np.array(a, copy=True)
    _SNAP.append((x, cols))
    return x


def _mutated():
    out = []
    for x, cols in _SNAP:
        for name, before in cols.items():
            a = getattr(x, name)
            a = np.asarray(a.raw() if hasattr(a, "raw") else a)
            if a.shape != before.shape or a.dtype != before.dtype or a.tobytes() != before.tobytes():
                out.append(name)
    return sorted(set(out))


def _iv(rows, chrom="chr1"):
    m = _mods()
    return _snap(m["Interval"]([chrom] * len(rows), np.array([r[0] for r in rows], dtype=_DT[0]), np.array([r[1] for r in rows], dtype=_DT[0])))


def _multi(chroms, key):
    m = _mods()
    names, st, sp = [], [], []
    for i, ch in enumerate(chroms):
        for a, b in ch[key]:
            names.append(f"chr{i + 1}")
            st.append(a)
            sp.append(b)
    return _snap(m["Interval"](names, np.array(st, dtype=_DT[0]), np.array(sp, dtype=_DT[0])))


def _geo_sizes(c, lst):
    """the chromosome-size dict handed to Geometry / StreamedGeometry: chr1..chrN in order and, if the case says so, contigs
    with an underscore in the name (ignored by the genome context) inserted at the given positions of the listing"""
    items = [(f"chr{i + 1}", z) for i, z in enumerate(lst)]
    for k, (pos, sz) in enumerate(sorted(c.get("ignored", []))):
        items.insert(min(pos + k, len(items)), (f"chrUn_{k}v1", sz))
    return dict(items)


def _reg(sizes):
    return [n for n in sizes if "_" not in n]


def _pairs(x):
    return [[int(a), int(b)] for a, b in zip(np.asarray(x.start).tolist(), np.asarray(x.stop).tolist())]


def _bits(x):
    return struct.unpack("<Q", struct.pack("<d", float(x)))[0]


HUMAN = ["chr1", "chr2", "chr10", "chrX", "chrY"]      # human_key_func order; plain string order differs (chr10 < chr2)
PLAIN = ["a", "b", "c", "d", "e"]


def _rle(r, conv):
    return {"dense": [conv(x) for x in r.to_array().tolist()], "events": [int(x) for x in np.asarray(r._events).tolist()],
            "values": [conv(x) for x in np.asarray(r._values).tolist()]}


def impl(c):
    """the observation of the real call; if the call changed any of its interval arguments (start / stop / strand
    columns compared byte for byte with a copy taken before the call) that is reported instead"""
    del _SNAP[:]
    _DT[0] = np.dtype(c["dt"]) if "dt" in c else int
    try:
        out = _impl_raw(c)
    finally:
        _DT[0] = int
    mut = _mutated()
    del _SNAP[:]
    if mut and isinstance(out, dict):
        return dict(out, mutated_arguments=mut)
    return out


def _impl_raw(c):
    m = _mods()
    ar, iv = m["ar"], m["iv"]
    op = c["op"]
    try:
        if op == "seq":
            x = _iv(c["iv"], chrom="a")
            merges = [_pairs(ar.merge_intervals(x, distance=d)) for d in c["ds"]]
            pile = [int(v) for v in ar.get_pileup(x, c["size"]).to_array().tolist()]
            mask = [bool(v) for v in ar.get_boolean_mask(x, c["size"]).to_array().tolist()]
            srt = ar.sort_intervals(x)
            return {"merges": merges, "pileup": pile, "mask": mask,
                    "sorted": [[0, int(a), int(b)] for a, b in zip(srt.start.tolist(), srt.stop.tolist())]}
        if op == "geo_seq":
            sizes = _geo_sizes(c, c["chrom_sizes"])
            rows = c["rows"]
            x = _snap(m["Interval"]([f"chr{r[0] + 1}" for r in rows], np.array([r[1] for r in rows], dtype=_DT[0]),
                                    np.array([r[2] for r in rows], dtype=_DT[0])))
            geo = m["Geometry"](sizes)
            names = _reg(sizes)
            merges = []
            for d in c["ds"]:
                r = geo.merge_intervals(x, d)
                merges.append([[names.index(n), int(a), int(b)] for n, a, b in zip(r.chromosome.tolist(), r.start.tolist(), r.stop.tolist())])
            dp, dm = geo.get_pileup(x).to_dict(), geo.get_mask(x).to_dict()
            return {"merges": merges, "pileup": [[int(v) for v in dp[n].tolist()] for n in names],
                    "mask": [[bool(v) for v in dm[n].tolist()] for n in names]}
        if op == "global_intersect":
            names = [f"chr{i + 1}" for i in range(len(c["sizes"]))]
            enc = m["StringEncoding"](names)

            def mk(rows):
                ch = m["as_encoded_array"]([names[r[0]] for r in rows], enc) if rows else m["as_encoded_array"]([], enc)
                return _snap(m["Interval"](ch, np.array([r[1] for r in rows], dtype=_DT[0]), np.array([r[2] for r in rows], dtype=_DT[0])))
            r = ar.global_intersect(mk(c["b"]), mk(c["a"]))
            return {"recs": [[int(k), int(a), int(b)] for k, a, b in
                             zip(np.asarray(r.chromosome.raw()).ravel().tolist(), r.start.tolist(), r.stop.tolist())]}
        if op == "extend_plain":
            r = iv.extend(_iv(c["iv"]), **{c["mode"]: c["k"]})
            return {"iv": _pairs(r)}
        if op == "pileup_bedgraph":
            r = iv.pileup(_iv(c["iv"]))
            return {"recs": [[int(a), int(b), int(v)] for a, b, v in zip(r.start.tolist(), r.stop.tolist(), r.value.tolist())]}
        if op == "from_rla":
            r = m["bg"].from_runlength_array("chr1", m["bg"].get_pileup(_iv(c["iv"]), c["size"]))
            return {"recs": [[int(a), int(b), int(v)] for a, b, v in zip(r.start.tolist(), r.stop.tolist(), r.value.tolist())],
                    "names": sorted(set(r.chromosome.tolist()))}
        if op == "value_hist":
            from bionumpy.datatypes import BedGraph
            g = BedGraph(["c"] * len(c["bg"]), np.array([r[0] for r in c["bg"]], dtype=_DT[0]),
                         np.array([r[1] for r in c["bg"]], dtype=_DT[0]), np.array([r[2] for r in c["bg"]], dtype=_DT[0]))
            h = m["bg"].value_hist(g)
            return {"hist": [int(v) for v in np.asarray(h).tolist()]} if all(float(v) == int(v) for v in np.asarray(h).tolist()) \
                else {"hist": [float(v) for v in h]}
        if op in ("geo_sort", "geo_info", "streamed_merge"):
            sizes = _geo_sizes(c, c["chrom_sizes"])
            names = _reg(sizes)
            if op == "geo_info":
                from bionumpy.datatypes import ChromosomeSize
                g = m["Geometry"](sizes)
                g2 = m["Geometry"].from_chrom_sizes(ChromosomeSize(names, list(sizes.values())))
                return {"names": g.names(), "size": int(g.size()), "each": [int(g.chrom_size(n)) for n in names],
                        "names2": g2.names(), "size2": int(g2.size()), "repr": repr(g), "str_has": all(n in str(g) for n in names)}
            if op == "geo_sort":
                recs = c["recs"]
                x = _snap(m["Interval"]([names[r[0]] for r in recs], np.array([r[1] for r in recs], dtype=_DT[0]),
                                        np.array([r[2] for r in recs], dtype=_DT[0])))
                r = m["Geometry"](sizes).sort(x)
                ch = r.chromosome
                codes = np.asarray(ch.raw()).ravel().tolist() if hasattr(ch, "raw") else [names.index(n) for n in ch.tolist()]
                return {"recs": [[int(k), int(a), int(b)] for k, a, b in zip(codes, r.start.tolist(), r.stop.tolist())]}
            from bionumpy.genomic_data.geometry import StreamedGeometry
            chunks = [_snap(m["Interval"]([names[i]] * len(rs), np.array([r[1] for r in rs], dtype=_DT[0]), np.array([r[2] for r in rs], dtype=_DT[0])))
                      for i in range(len(names)) for rs in [[r for r in c["rows"] if r[0] == i]] if rs]
            out = list(StreamedGeometry(sizes).merge_intervals(iter(chunks), c["d"]))
            return {"recs": [[names.index(n), int(a), int(b)] for o in out for n, a, b in
                             zip(o.chromosome.tolist(), o.start.tolist(), o.stop.tolist())]}
        if op in ("streamed_clip", "streamed_extend"):
            from bionumpy.genomic_data.geometry import StreamedGeometry
            sizes = _geo_sizes(c, c["chrom_sizes"])
            names = _reg(sizes)
            idx = list(range(len(c["start"])))
            chunks = []
            for k in range(0, len(idx), 2):        # chunks of two rows, in the given row order
                part = idx[k:k + 2]
                ch = [names[c["chrom"][i]] for i in part]
                st = np.array([c["start"][i] for i in part], dtype=_DT[0])
                sp = np.array([c["stop"][i] for i in part], dtype=_DT[0])
                if op == "streamed_clip":
                    chunks.append(_snap(m["Interval"](ch, st, sp)))
                else:
                    chunks.append(_snap(m["StrandedInterval"](ch, st, sp, ["+" if c["fwd"][i] else "-" for i in part])))
            sg = StreamedGeometry(sizes)
            out = list(sg.clip(iter(chunks)) if op == "streamed_clip" else sg.extend_to_size(iter(chunks), c["len"]))
            return {"iv": [p for o in out for p in _pairs(o)]}
        if op == "jaccard_matrix":
            sizes = _geo_sizes(c, c["sizes"])
            sets = [_snap(m["Interval"]([f"chr{r[0] + 1}" for r in st], np.array([r[1] for r in st], dtype=_DT[0]),
                                        np.array([r[2] for r in st], dtype=_DT[0]))) for st in c["sets"]]
            with np.errstate(all="ignore"):
                mat = m["Geometry"](sizes).jaccard_all_vs_all(sets)
            return {"bits": [[_bits(v) for v in row] for row in np.asarray(mat).tolist()]}
        if op == "pileup":
            return {"dense": [int(x) for x in ar.get_pileup(_iv(c["iv"]), c["size"]).to_array().tolist()]}
        if op == "pileup_events":
            return _rle(m["bg"].get_pileup(_iv(c["iv"]), c["size"]), int)
        if op == "mask":
            return _rle(ar.get_boolean_mask(_iv(c["iv"]), c["size"]), bool)
        if op == "merge":
            return {"iv": _pairs(ar.merge_intervals(_iv(c["iv"]), distance=c["d"]))}
        if op == "sort":
            recs, path = c["recs"], c["path"]
            names = HUMAN if path in ("human", "order") else PLAIN
            if "nnames" in c:       # many distinct chromosome names; plain string order = index order
                names = ["ctg%05d" % i for i in range(c["nnames"])]
            ch = [names[r[0]] for r in recs]
            st, sp = np.array([r[1] for r in recs], dtype=_DT[0]), np.array([r[2] for r in recs], dtype=_DT[0])
            if path == "enc":
                enc = m["StringEncoding"](names)
                x = _snap(m["Interval"](m["as_encoded_array"](ch, enc) if ch else m["as_encoded_array"]([], enc), st, sp))
                r = ar.sort_intervals(x)
                codes = [int(v) for v in np.asarray(r.chromosome.raw()).ravel().tolist()]
            else:
                x = _snap(m["Interval"](ch, st, sp))
                if path == "plain":
                    r = ar.sort_intervals(x)
                elif path == "human":
                    r = ar.sort_intervals(x, chromosome_key_function=iv.human_key_func)
                else:
                    r = ar.sort_intervals(x, sort_order=names)
                codes = [names.index(s) for s in r.chromosome.tolist()] if len(recs) else []
            return {"recs": [[k, int(a), int(b)] for k, a, b in zip(codes, r.start.tolist(), r.stop.tolist())]}
        if op == "count_overlap":
            return {"n": int(ar.count_overlap(_iv(c["a"]), _iv(c["b"])))}
        if op == "intersect":
            return {"iv": _pairs(ar.intersect(_iv(c["a"]), _iv(c["b"])))}
        if op == "unique_intersect":
            return {"iv": _pairs(ar.unique_intersect(_iv(c["a"]), _iv(c["b"]), c["size"]))}
        if op == "contingency":
            t = m["sm"].get_contingency_table(_iv(c["a"]), _iv(c["b"]), c["size"])
            return {"t": [int(x) for x in np.asarray(t).ravel().tolist()]}
        if op in ("jaccard", "forbes", "geo_jaccard"):
            sizes = _geo_sizes(c, [ch["size"] for ch in c["chroms"]]) if op == "geo_jaccard" else {f"chr{i + 1}": ch["size"] for i, ch in enumerate(c["chroms"])}
            a, b = _multi(c["chroms"], "a"), _multi(c["chroms"], "b")
            with np.errstate(all="ignore"):
                if op == "geo_jaccard":
                    v = m["Geometry"](sizes).jaccard(a, b)
                else:
                    v = getattr(ar, op)(sizes, a, b)
            return {"bits": _bits(v)}
        if op in ("geo_mask", "geo_pileup"):
            sizes = _geo_sizes(c, c["chrom_sizes"])
            rows = c["rows"]
            x = _snap(m["Interval"]([f"chr{r[0] + 1}" for r in rows], np.array([r[1] for r in rows], dtype=_DT[0]),
                                    np.array([r[2] for r in rows], dtype=_DT[0])))
            geo = m["Geometry"](sizes)
            d = (geo.get_mask(x) if op == "geo_mask" else geo.get_pileup(x)).to_dict()
            return {"dict": [[int(v) for v in d[f"chr{i + 1}"].tolist()] for i in range(len(c["chrom_sizes"]))]}
        if op in ("clip", "geo_clip", "extend", "geo_extend"):
            n = len(c["start"])
            st, sp = np.array(c["start"], dtype=_DT[0]), np.array(c["stop"], dtype=_DT[0])
            if op.startswith("geo"):
                sizes = _geo_sizes(c, c["chrom_sizes"])
                ch = [f"chr{k + 1}" for k in c["chrom"]]
                geo = m["Geometry"](sizes)
            else:
                ch = ["chr1"] * n
                z = c["sizes"][0] if len(set(c["sizes"])) <= 1 and n else np.array(c["sizes"], dtype=_DT[0])
            if op.endswith("clip"):
                x = _snap(m["Interval"](ch, st, sp))
                r = geo.clip(x) if op.startswith("geo") else iv.clip(x, z)
            else:
                x = _snap(m["StrandedInterval"](ch, st, sp, ["+" if f else "-" for f in c["fwd"]]))
                r = geo.extend_to_size(x, c["len"]) if op.startswith("geo") else iv.extend_to_size(x, c["len"], z)
            return {"iv": _pairs(r)}
    except AssertionError:
        return {"err": "other:AssertionError"}
    except Exception as e:
        return {"err": "other:" + type(e).__name__}
    raise ValueError(op)


# ------------------------------------------------------------------ oracle (per-base definitions, no bionumpy)

def _cov(I, p):
    return sum(1 for a, b in I if a <= p < b)


def _valid(I, size, empties=True):
    return all(0 <= a and (a <= b if empties else a < b) and b <= size for a, b in I)


def _runs(bits, d=0):
    """maximal runs of True, bridging gaps of <= d False"""
    out = []
    for p, v in enumerate(bits):
        if v:
            if out and p <= out[-1][1] + d:
                out[-1][1] = p + 1
            else:
                out.append([p, p + 1])
    return out


def _table(A, B, size):
    t = [0, 0, 0, 0]
    for p in range(size):
        t[(0 if _cov(A, p) else 2) + (0 if _cov(B, p) else 1)] += 1
    return t


def oracle(c):
    op = c["op"]
    if op in ("pileup", "pileup_events", "mask", "merge"):
        I, size = c["iv"], c["size"]
        if not _valid(I, size, empties=op in ("pileup", "mask")):
            return SKIP
        if op in ("pileup", "pileup_events"):
            return {"dense": [_cov(I, p) for p in range(size)]}
        if op == "mask":
            return {"dense": [_cov(I, p) > 0 for p in range(size)]}
        if any(I[i][0] > I[i + 1][0] for i in range(len(I) - 1)):
            return SKIP
        return {"iv": _runs([_cov(I, p) > 0 for p in range(size)], c["d"])}
    if op == "sort":
        return {"recs": sorted([list(r) for r in c["recs"]])}
    if op == "global_intersect":
        dense = []
        for ci, z in enumerate(c["sizes"]):
            A = [(r[1], r[2]) for r in c["a"] if r[0] == ci]
            B = [(r[1], r[2]) for r in c["b"] if r[0] == ci]
            if not (_valid(A, z) and _valid(B, z) and _disjoint(A) and _disjoint(B)):
                return SKIP
            dense.append([1 if (_cov(A, p) and _cov(B, p)) else 0 for p in range(z)])
        return {"dense": dense}
    if op == "extend_plain":
        k, mode = c["k"], c["mode"]
        return {"iv": [[a - (k if mode in ("both", "left") else 0), b + (k if mode in ("both", "right") else 0)] for a, b in c["iv"]]}
    if op == "pileup_bedgraph":
        I = c["iv"]
        if not I:
            return {"lo": 0, "hi": 0, "dense": []}
        if any(a >= b for a, b in I):
            return SKIP
        lo, hi = min(a for a, b in I), max(b for a, b in I)
        return {"lo": lo, "hi": hi, "dense": [_cov(I, p) for p in range(lo, hi)]}
    if op == "from_rla":
        if not _valid(c["iv"], c["size"], empties=False):
            return SKIP
        return {"dense": [_cov(c["iv"], p) for p in range(c["size"])], "names": ["chr1"]}
    if op == "value_hist":
        bg = c["bg"]
        if not bg:
            return SKIP
        return {"hist": [sum(b - a for a, b, v in bg if v == k) for k in range(max(v for a, b, v in bg) + 1)]}
    if op == "geo_info":
        z = c["chrom_sizes"]
        names = [f"chr{i + 1}" for i in range(len(z))]
        return {"names": names, "size": sum(z), "each": list(z), "names2": names, "size2": sum(z),
                "repr": "Geometry(" + repr(dict(zip(names, z))) + ")", "str_has": True}
    if op == "geo_sort":
        return {"sorted_by": "chromosome,start", "multiset": sorted([list(r) for r in c["recs"]])}
    if op == "streamed_merge":
        out = []
        for i, z in enumerate(c["chrom_sizes"]):
            I = [(r[1], r[2]) for r in c["rows"] if r[0] == i]
            if not _valid(I, z, empties=False):
                return SKIP
            out += [[i, a, b] for a, b in _runs([_cov(I, p) > 0 for p in range(z)], c["d"])]
        return {"recs": out}
    if op == "seq":
        I, size = c["iv"], c["size"]
        if not _valid(I, size, empties=False) or I != sorted(I):
            return SKIP
        bits = [_cov(I, p) > 0 for p in range(size)]
        return {"merges": [_runs(bits, d) for d in c["ds"]], "pileup": [_cov(I, p) for p in range(size)], "mask": bits,
                "sorted": [[0, a, b] for a, b in sorted(map(tuple, I))]}
    if op == "geo_seq":
        merges = [[] for _ in c["ds"]]
        pile, mask = [], []
        for i, z in enumerate(c["chrom_sizes"]):
            I = [(r[1], r[2]) for r in c["rows"] if r[0] == i]
            if not _valid(I, z, empties=False):
                return SKIP
            bits = [_cov(I, p) > 0 for p in range(z)]
            for k, d in enumerate(c["ds"]):
                merges[k] += [[i, a, b] for a, b in _runs(bits, d)]
            pile.append([_cov(I, p) for p in range(z)])
            mask.append(bits)
        return {"merges": merges, "pileup": pile, "mask": mask}
    if op == "jaccard_matrix":
        n = len(c["sets"])
        out = [[0] * n for _ in range(n)]
        for i in range(n):
            for k in range(n):
                if i != k:
                    t = [0, 0, 0, 0]
                    for ci, z in enumerate(c["sizes"]):
                        A = [(r[1], r[2]) for r in c["sets"][i] if r[0] == ci]
                        B = [(r[1], r[2]) for r in c["sets"][k] if r[0] == ci]
                        if not (_valid(A, z) and _valid(B, z)):
                            return SKIP
                        t = [x + y for x, y in zip(t, _table(A, B, z))]
                    if t[0] + t[1] + t[2] == 0:
                        return SKIP
                    out[i][k] = _bits(t[0] / (t[0] + t[1] + t[2]))
        return {"bits": out}
    if op in PAIR_OPS:
        A, B, size = c["a"], c["b"], c["size"]
        if not (_valid(A, size) and _valid(B, size)):
            return SKIP
        if op in ("count_overlap", "intersect"):
            if not (_disjoint(A) and _disjoint(B)):
                return SKIP
            both = [1 if (_cov(A, p) and _cov(B, p)) else 0 for p in range(size)]
            return {"n": sum(both)} if op == "count_overlap" else {"dense": both}
        if op == "unique_intersect":
            return {"iv": [[a, b] for a, b in A if any(_cov(B, p) for p in range(a, b))]}
        return {"t": _table(A, B, size)}
    if op in ("jaccard", "forbes", "geo_jaccard"):
        t = [0, 0, 0, 0]
        for ch in c["chroms"]:
            if not (_valid(ch["a"], ch["size"]) and _valid(ch["b"], ch["size"])):
                return SKIP
            if op == "forbes" and not all(a < b for a, b in ch["a"] + ch["b"]):
                return SKIP
            t = [x + y for x, y in zip(t, _table(ch["a"], ch["b"], ch["size"]))]
        a, b, cc, d = t
        if op == "forbes":
            if (a + b) * (a + cc) == 0:
                return SKIP
            return {"bits": _bits(a * (a + b + cc + d) / ((a + b) * (a + cc)))}
        if a + b + cc == 0:
            return SKIP
        return {"bits": _bits(a / (a + b + cc))}
    if op in ("geo_mask", "geo_pileup"):
        out = []
        for i, z in enumerate(c["chrom_sizes"]):
            I = [(r[1], r[2]) for r in c["rows"] if r[0] == i]
            if not _valid(I, z):
                return SKIP
            out.append([(int(_cov(I, p) > 0) if op == "geo_mask" else _cov(I, p)) for p in range(z)])
        return {"dict": out}
    if op in ("clip", "geo_clip", "streamed_clip"):
        out = []
        for s, e, z in zip(c["start"], c["stop"], c["sizes"]):
            if not (s <= e and s <= z and e >= 0):
                return SKIP
            ps = [p for p in range(min(s, 0), max(e, z)) if s <= p < e and 0 <= p < z]   # the bases inside the contig
            out.append([ps[0], ps[-1] + 1] if ps else None)
        return {"clip": out, "in": [list(x) for x in zip(c["start"], c["stop"], c["sizes"])]}
    if op in ("extend", "geo_extend", "streamed_extend"):
        out, L = [], c["len"]
        for s, e, z, f in zip(c["start"], c["stop"], c["sizes"], c["fwd"]):
            if not (0 <= s <= e <= z) or L < 0:
                return SKIP
            out.append([s, s + min(L, z - s)] if f else [e - min(L, e), e])
        return {"iv": out}
    raise ValueError(op)


def agree(c, got, exp):
    op = c["op"]
    if not isinstance(got, dict) or "err" in got or "mutated_arguments" in got:
        return False
    if op in ("pileup_events", "mask"):
        return got.get("dense") == exp["dense"]
    if op == "intersect":
        size = c["size"]
        return [_cov(got["iv"], p) for p in range(size)] == exp["dense"] and all(0 <= a < b <= size for a, b in got["iv"])
    if op == "global_intersect":
        for ci, z in enumerate(c["sizes"]):
            pieces = [(r[1], r[2]) for r in got["recs"] if r[0] == ci]
            if [_cov(pieces, p) for p in range(z)] != exp["dense"][ci] or not all(0 <= a < b <= z for a, b in pieces):
                return False
        return all(0 <= r[0] < len(c["sizes"]) for r in got["recs"])
    if op in ("pileup_bedgraph", "from_rla"):
        recs = got["recs"]
        lo, hi = (exp["lo"], exp["hi"]) if op == "pileup_bedgraph" else (0, c["size"])
        pos, out = lo, []
        for a, b, v in recs:            # records tile [lo, hi) in order, without gaps or overlaps
            if a != pos or b <= a:
                return False
            out += [v] * (b - a)
            pos = b
        return pos == hi and out == exp["dense"] and got.get("names", None) == exp.get("names", None)
    if op == "geo_sort":
        r = got["recs"]
        return sorted(r) == exp["multiset"] and all(r[i][:2] <= r[i + 1][:2] for i in range(len(r) - 1))
    if op in ("clip", "geo_clip", "streamed_clip"):
        for (s2, e2), want, (s, e, z) in zip(got["iv"], exp["clip"], exp["in"]):
            if want is None:       # nothing of the interval is inside: any empty interval inside the contig is right
                if not (0 <= s2 <= z and 0 <= e2 <= z and s2 >= e2):
                    return False
            elif [s2, e2] != want:
                return False
        return len(got["iv"]) == len(exp["clip"])
    return core.canon(got) == core.canon(exp)


def agree_model(c, got, m):
    """exact, except Geometry.sort: entries that tie on (chromosome, start) may come in any order (NumPy's default sort
    is not stable), so both sides are normalised inside such ties"""
    if c["op"] == "geo_sort" and isinstance(got, dict) and isinstance(m, dict) and "recs" in got and "recs" in m:
        return sorted(got["recs"]) == sorted(m["recs"]) and [r[:2] for r in got["recs"]] == [r[:2] for r in m["recs"]]
    return core.canon(got) == core.canon(m)


def finding_key(c, got, exp):
    op = c["op"]
    if isinstance(got, dict) and "mutated_arguments" in got:
        return f"{op}:modifies-its-argument-{'-'.join(got['mutated_arguments'])}"
    if isinstance(got, dict) and "err" in got and op == "extend_plain":
        return f"extend:{'undirected' if c['mode'] in ('left', 'right') else c['mode']}-raises-{got['err'].split(':')[-1]}"
    if isinstance(got, dict) and "err" in got and op == "pileup_bedgraph" and not c["iv"]:
        return f"{op}:empty-input-raises-{got['err'].split(':')[-1]}"
    if isinstance(got, dict) and "err" in got:
        if op in ("jaccard", "forbes") and (not any(x["a"] for x in c["chroms"]) or not any(x["b"] for x in c["chroms"])):
            return f"{op}:empty-operand-raises-{got['err'].split(':')[-1]}"
        return f"{op}:raises-{got['err'].split(':')[-1]}"
    if op == "sort":
        return f"sort:{c['path']}-path-not-ordered-by-chromosome-start-stop"
    return f"{op}:differs-from-per-base-definition"
