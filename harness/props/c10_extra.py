"""C10, second group of entry points (round 4): per-chromosome views of genome-wide arrays, binned counts,
location → interval mapping, genome-wide similarity, constructors, file readers, streamed geometry.
Imported by c10.py; every op has an implementation call, an independent oracle and (MODEL_OPS) a Lean model."""
import os

import numpy as np

from .. import core
from ..core import SKIP

OPS = {"trackviews", "binned", "maploc", "gjaccard", "locsort", "fromtrack", "seqviews", "files", "sgeometry", "ctor", "xgenome", "hugegenome", "globalise", "maskfield", "binnedseq"}
MODEL_OPS = {"globalise", "trackviews", "binned", "maploc", "gjaccard", "locsort", "fromtrack"}


def _c10():
    from . import c10
    return c10


# ------------------------------------------------------------------ implementation

def call(c):
    import bionumpy as bnp
    from bionumpy.datatypes import Interval, LocationEntry, BedGraph, StrandedInterval
    m = _c10()
    op = c["op"]
    names, sizes = c["names"], c["sizes"]
    incl = m._incl_names(c)
    idx = {n: i for i, n in enumerate(incl)}
    if op == "trackviews":
        from bionumpy.genomic_data.genomic_track import GenomicArrayGlobal
        G = m._genome(c)
        ctx = G.get_genome_context()
        t = m._track_from_vals(c, G)
        out = {"chrom": [m._ints(t[n].to_array()) for n in incl]}
        r = t.get_data()
        runs = list(zip(m._names_of(r.chromosome), r.start.tolist(), r.stop.tolist(), np.asarray(r.value).tolist()))
        out["data"] = m._dense_from_runs(c, runs)
        loc = G.get_locations(LocationEntry([names[x[0]] for x in c["pts"]], np.array([x[1] for x in c["pts"]], dtype=m._coord_dtype(c))))
        out["at"] = m._ints(t[loc])
        mask = G.get_intervals(m._mk_intervals(c, False)).get_mask()
        b = t[mask]
        out["bool"] = m._ints(b.to_array() if hasattr(b, "to_array") else b)
        out["npsum"] = int(np.sum(t))
        t2 = GenomicArrayGlobal.from_dict({n: t[n] for n in incl}, ctx)
        d2 = t2.to_dict()
        out["rt"] = [m._ints(d2[n]) for n in incl]
        return out
    if op == "binned":
        from bionumpy.genomic_data.binned_genome import BinnedGenome
        ctx = m._genome(c).get_genome_context()
        bg = BinnedGenome(ctx, c["bin"])
        pts = c["pts"]
        k = c.get("split", len(pts))
        for part in (pts[:k], pts[k:]):
            if part and c.get("field"):
                # the documented keyword position_field: count another coordinate column of the entries
                col = np.array([x[1] for x in part], dtype=m._coord_dtype(c))
                other = np.zeros_like(col)           # the column that must NOT be counted: everything in the first bin
                ent = Interval([names[x[0]] for x in part], col if c["field"] == "start" else other, col if c["field"] == "stop" else other)
                bg.count(ent, position_field=c["field"])
            elif part:
                bg.count(LocationEntry([names[x[0]] for x in part], np.array([x[1] for x in part], dtype=m._coord_dtype(c))))
        d = bg.count_dict
        return {"dict": [m._ints(d[n]) for n in incl], "get": [m._ints(bg[n]) for n in incl]}
    if op == "binnedseq":
        # ONE counter object, several batches; a batch with a position outside its chromosome must be refused AS A WHOLE
        # (nothing of it counted, on any chromosome), and the object keeps working afterwards
        from bionumpy.genomic_data.binned_genome import BinnedGenome
        ctx = m._genome(c).get_genome_context()
        bg = BinnedGenome(ctx, c["bin"])
        raised, after = [], []
        for part in c["batches"]:
            ent = LocationEntry([names[x[0]] for x in part], np.array([x[1] for x in part], dtype=m._coord_dtype(c)))
            try:
                bg.count(ent)
                raised.append(False)
            except (ValueError, IndexError, AssertionError):
                raised.append(True)
            d = bg.count_dict
            after.append([m._ints(d[n]) for n in incl])
        return {"raised": raised, "after": after, "get": [m._ints(bg[n]) for n in incl]}
    if op == "maploc":
        G = m._genome(c)
        gi = G.get_intervals(m._mk_intervals(c, False))
        le = LocationEntry([names[x[0]] for x in c["pts"]], np.array([x[1] for x in c["pts"]], dtype=m._coord_dtype(c)))
        if c.get("fn") == "module":                    # the single-contig function, one-chromosome genomes only
            from bionumpy.genomic_data.coordinate_mapping import map_locations
            r = map_locations(le, m._mk_intervals(c, False))
        else:
            r = gi.map_locations(le)
        return {"map": [[int(n), int(p)] for n, p in zip(m._names_of(r.chromosome), m._ints(r.position))]}
    if op == "gjaccard":
        from bionumpy.genomic_data.geometry import Geometry
        if c.get("from_cs"):
            from bionumpy.datatypes import ChromosomeSize
            geo = Geometry.from_chrom_sizes(ChromosomeSize(list(names), list(sizes)))
        else:
            geo = Geometry(dict(zip(names, sizes)))
        sets = [m._mk_intervals(dict(c, iv=iv), False) for iv in c["sets"]]
        out = {"pair": float(geo.jaccard(sets[0], sets[1])).hex()}
        out["all"] = [[float(v).hex() for v in row] for row in np.asarray(geo.jaccard_all_vs_all(sets)).tolist()]
        out["names"] = list(geo.names())
        out["csize"] = [int(geo.chrom_size(n)) for n in names]
        t = geo.get_track(m._bedgraph_from_vals(c)).to_dict()
        out["track"] = [m._ints(t[n]) for n in incl]
        return out
    if op == "locsort":
        from bionumpy.genomic_data.genomic_intervals import GenomicLocation
        ctx = m._genome(c).get_genome_context()
        loc = GenomicLocation.from_fields(ctx, [names[x[0]] for x in c["pts"]], np.array([x[1] for x in c["pts"]], dtype=m._coord_dtype(c)))
        s = loc.sorted()
        rev = loc[::-1]
        f = lambda l: [[idx.get(n, "?" + str(n)), p] for n, p in zip(m._names_of(l.chromosome), m._ints(l.position))]
        return {"sorted": f(s), "rev": f(rev)}
    if op == "fromtrack":
        from bionumpy.genomic_data.genomic_intervals import GenomicIntervals
        G = m._genome(c)
        gi = G.get_intervals(m._mk_intervals(c, False))
        r = GenomicIntervals.from_track(gi.get_mask())
        out = m._obs_intervals(c, r.chromosome, r.start, r.stop)
        return {"runs": out["iv"], "n": len(r)}
    if op == "seqviews":
        G = m._genome(c)
        stranded = bool(c.get("stranded", False))
        gi = G.get_intervals(m._mk_intervals(c, stranded), stranded=stranded)
        if c["backend"] == "dict":
            from bionumpy.genomic_data.genomic_sequence import GenomicSequence
            seq = GenomicSequence.from_dict({n: s for n, s in zip(names, c["seqs"]) if n in incl})
        else:
            seq = G.read_sequence(m._fasta_for(c))
        out = {"rows": [row.to_string() for row in seq[gi]], "chrom": [seq[n].to_string() for n in incl]}
        if c["backend"] == "fasta":
            mask = G.get_intervals(m._mk_intervals(c, False)).get_mask()
            out["bool"] = seq[mask].to_string()
        return out
    if op == "ctor":
        from bionumpy.genomic_data.genomic_intervals import GenomicIntervals, GenomicLocation
        G = m._genome(c)
        ctx = G.get_genome_context()
        iv = c["iv"]
        ch = [names[x[0]] for x in iv]
        st, en = np.array([x[1] for x in iv], dtype=int), np.array([x[2] for x in iv], dtype=int)
        strand = ["+" if x[3] else "-" for x in iv]
        gi = GenomicIntervals.from_fields(ctx, ch, st, en, strand)
        out = {"stranded": bool(gi.is_stranded())}
        cl = gi.clip()
        out["clip"] = m._obs_intervals(c, cl.chromosome, cl.start, cl.stop)["iv"]
        ex = cl.extended_to_size(c["L"])
        out["ext"] = m._obs_intervals(c, ex.chromosome, ex.start, ex.stop)["iv"]
        k = c["split"]
        a = GenomicIntervals.from_fields(ctx, ch[:k], st[:k], en[:k]) if k else None
        b = GenomicIntervals.from_fields(ctx, ch[k:], st[k:], en[k:]) if k < len(iv) else None
        both = np.concatenate([x for x in (a, b) if x is not None]).clip()
        so = both.sorted()
        out["sorted"] = m._obs_intervals(c, so.chromosome, so.start, so.stop)["iv"]
        ss = both.get_sorted_stream().compute()
        out["sstream"] = m._obs_intervals(c, ss.chromosome, ss.start, ss.stop)["iv"]
        loc = GenomicLocation.from_fields(ctx, ch, np.clip(st, 0, None), strand)
        out["locstrand"] = [bool(x) for x in np.asarray(loc.strand == "+").ravel()]
        return out
    if op == "xgenome":
        # a track on one genome object indexed with intervals / a mask from ANOTHER genome object over the same
        # chromosomes (other order: permutation or sort_names); both objects alive in this process
        from bionumpy.streams import NpDataclassStream
        GA = bnp.Genome.from_dict(dict(zip(names, sizes)))
        sizes_b = c.get("sizes2") or sizes           # the second genome may split the same names differently
        names_b = c.get("names2") or names           # ... or name chromosomes of the same sizes differently
        if c["order2"] == "sort":
            GB = bnp.Genome.from_dict(dict(zip(names_b, sizes_b)), sort_names=True)
        else:
            GB = bnp.Genome.from_dict({names_b[i]: sizes_b[i] for i in c["order2"]})
        stranded = bool(c.get("stranded", False))
        if c["what"] == "seq":
            # ONE sequence object, indexed first with intervals of one genome and then with intervals of the other
            seq = GA.read_sequence(m._fasta_for(c))
            out = []
            for G in ((GB, GA, GB) if c.get("first") == "B" else (GA, GB, GA)):
                gi = G.get_intervals(m._mk_intervals(c, stranded), stranded=stranded)
                out.append([row.to_string() for row in seq[gi]])
            return {"calls": out}
        bg = m._bedgraph_from_vals(c)
        stream = c.get("path") == "stream"
        track = GA.get_track(NpDataclassStream(iter([bg]), BedGraph)) if stream else GA.get_track(bg)
        gi = GB.get_intervals(m._mk_intervals(dict(c, names=names_b), stranded), stranded=stranded)
        if c["what"] == "add":
            pa = GA.get_intervals(m._mk_intervals(dict(c, iv=c["iv2"]), False)).get_pileup()
            dd = (pa + gi.get_pileup()).to_dict()
            return {"add": [m._ints(dd[n]) for n in names]}
        if c["what"] == "bool":
            b = track[gi.get_mask()]
            return {"bool": m._ints(b.to_array() if hasattr(b, "to_array") else b)}
        if c["what"] == "and":
            ma = GA.get_intervals(m._mk_intervals(dict(c, iv=c["iv2"]), False)).get_mask()
            both = ma & gi.get_mask()
            return {"and": int(both.sum())}
        r = track[gi]
        if stream:
            r = bnp.compute(r)
        return {"rows": m._rows(r)}
    if op == "maskfield":
        # GenomeContext.mask_data with its documented keyword chromosome_field_name (a table whose contig column has another name)
        from bionumpy.bnpdataclass import bnpdataclass
        from bionumpy.genomic_data.genome_context import GenomeContext

        @bnpdataclass
        class Mate:
            chromosome: str
            contig: str
            position: int
        ctx = GenomeContext.from_dict(dict(zip(names, sizes)), m._filter_fn(c))
        pts = c["pts"]
        data = Mate([names[x[2]] for x in pts], [names[x[0]] for x in pts], np.array([x[1] for x in pts], dtype=int))
        r = ctx.mask_data(data, chromosome_field_name="contig")
        enc = {n: i for i, n in enumerate(incl)}
        return {"rows": [[enc[n], int(p), k] for n, p, k in zip(m._names_of(r.contig), r.position, m._names_of(r.chromosome))],
                "codes": m._ints(r.contig.raw())}
    if op == "globalise":
        # GlobalOffset's public conversion with its documented keyword do_clip (un-clipped bed files)
        from bionumpy.genomic_data.genome_context import GenomeContext
        ctx = GenomeContext.from_dict(dict(zip(names, sizes)), m._filter_fn(c))
        go = ctx.global_offset
        ivt = m._mk_intervals(c, False)
        st, en = go.start_ends_from_intervals(ivt, do_clip=bool(c["clip"]))
        g = go.from_local_interval(ivt, do_clip=bool(c["clip"]))
        out = {"se": [[int(a), int(b)] for a, b in zip(st, en)], "gi": [[int(a), int(b)] for a, b in zip(g.start, g.stop)]}
        back = go.to_local_interval(g)
        out["back"] = m._obs_intervals(c, back.chromosome, back.start, back.stop)["iv"]
        return out
    if op == "hugegenome":
        return _huge(c)
    if op == "files":
        return _files(c)
    if op == "sgeometry":
        from bionumpy.genomic_data.geometry import StreamedGeometry
        from bionumpy.streams import NpDataclassStream
        sg = StreamedGeometry(dict(zip(names, sizes)))
        # one chunk per chromosome run (the streamed geometry works chunk by chunk)
        def stream():
            chunks, cur = [], []
            for x in c["iv"]:
                if cur and cur[-1][0] != x[0]:
                    chunks.append(cur); cur = []
                cur.append(x)
            if cur:
                chunks.append(cur)
            return NpDataclassStream(iter([m._mk_intervals(dict(c, iv=ch), True) for ch in chunks]), StrandedInterval)
        what = c["what"]
        if what in ("pileup", "track"):
            from bionumpy.datatypes import BedGraph
            if what == "pileup":
                r = sg.get_pileup(stream())
            else:
                r = sg.get_track(NpDataclassStream(iter([m._bedgraph_from_vals(c)]), BedGraph))
            if r is NotImplemented:
                return {"err": "not-implemented"}
            d = r.to_dict()
            return {"chroms": [m._ints(d[n]) for n in incl]}
        if what == "clip":
            res = sg.clip(stream())
        elif what == "extend":
            res = sg.extend_to_size(stream(), c["L"])
        else:
            res = sg.merge_intervals(stream(), c["d"])
        out = []
        for t in res:
            out += m._obs_intervals(c, t.chromosome, t.start, t.stop)["iv"]
        return {"iv": out}
    raise ValueError(op)


def _huge(c):
    """a genome longer than 2**31 (one huge chromosome first; tracks are run-length encoded so this is cheap) with
    narrow coordinate columns: everything behind the huge chromosome lies beyond the int32 range in concatenated
    coordinates although every local coordinate is tiny"""
    import bionumpy as bnp
    from bionumpy.datatypes import BedGraph, LocationEntry
    from bionumpy.genomic_data.geometry import Geometry
    m = _c10()
    names, sizes = c["names"], c["sizes"]
    d = dict(zip(names, sizes))
    G = bnp.Genome.from_dict(d)
    small = [i for i in range(len(names)) if sizes[i] < 1000]
    bnames, bs, be, bv = [], [], [], []
    for i, n in enumerate(names):
        if i in small:
            for p, v in enumerate(c["vals"][i]):
                bnames.append(n); bs.append(p); be.append(p + 1); bv.append(v)
        else:
            bnames.append(n); bs.append(0); be.append(sizes[i]); bv.append(c["vals"][i][0])
    track = G.get_track(BedGraph(bnames, np.array(bs), np.array(be), np.array(bv)))
    gi = G.get_intervals(m._mk_intervals(c, False))
    out = {"rows": m._rows(track[gi])}

    def small_runs(t):
        r = t.get_data()
        runs = [(n, a, b, v) for n, a, b, v in zip(m._names_of(r.chromosome), r.start.tolist(), r.stop.tolist(), np.asarray(r.value).tolist())
                if names.index(n) in small]
        dd = {}
        for n, a, b, v in runs:
            arr = dd.setdefault(n, [])
            arr.extend([-1] * (b - len(arr)))
            for p in range(a, b):
                arr[p] = int(v)
        return [dd.get(names[i]) for i in small]
    p = gi.get_pileup()
    out["pileup"] = small_runs(p)
    out["psum"] = int(p.sum())
    out["msum"] = int(gi.get_mask().sum())
    gp = Geometry(d).get_pileup(m._mk_intervals(c, False))
    out["gsum"] = int(gp.sum())
    so = Geometry(d).sort(m._mk_intervals(c, False))
    out["sort"] = [[names.index(n), a, b] for n, a, b in zip(m._names_of(so.chromosome), m._ints(so.start), m._ints(so.stop))]
    le = LocationEntry([names[x[0]] for x in c["pts"]], np.array([x[1] for x in c["pts"]], dtype=m._coord_dtype(c)))
    out["at"] = m._ints(track[G.get_locations(le)])
    r = gi.map_locations(le)
    out["map"] = [[int(n), int(q)] for n, q in zip(m._names_of(r.chromosome), m._ints(r.position))]
    return out


def _files(c):
    """Genome.from_file + read_intervals / read_track / read_locations / read_sequence on files written for the case"""
    import bionumpy as bnp
    m = _c10()
    names, sizes = c["names"], c["sizes"]
    d = m._tmpdir()
    key = core.case_hash(c) + f"-{os.getpid()}"
    incl = m._incl_names(c)
    if c["genome_from"] == "sizes":
        gf = os.path.join(d, key + ".chrom.sizes")
        with open(gf, "w") as fh:
            for n, s in zip(names, sizes):
                fh.write(f"{n}\t{s}\n")
    else:
        gf = os.path.join(d, key + ".fa")
        with open(gf, "w") as fh:
            for n, s in zip(names, c["seqs"]):
                fh.write(f">{n}\n{s}\n")
    G = bnp.Genome.from_file(gf, sort_names=bool(c.get("sort", False)))      # default filter: '_' names ignored
    for added in c.get("gderive") or []:
        G = G.with_ignored_added(list(added))         # the tutorial idiom: tolerate chrM / chrEBV ... in the data
    out = {"order": [n for n in G.get_genome_context().chrom_sizes], "gsize": int(G.size)}
    bed = os.path.join(d, key + ".bed")
    with open(bed, "w") as fh:
        for x in c["iv"]:
            fh.write(f"{names[x[0]]}\t{x[1]}\t{x[2]}\t.\t0\t{'+' if x[3] else '-'}\n")
    order = out["order"]
    gi = G.read_intervals(bed, stranded=True)
    dd = gi.get_pileup().to_dict()
    out["pileup"] = [m._ints(dd[n]) for n in order]
    ext = gi.extended_to_size(c["L"])
    oidx = {n: i for i, n in enumerate(order)}
    out["ext"] = [[oidx.get(n, "?" + str(n)), s, e] for n, s, e in zip(m._names_of(ext.chromosome), m._ints(ext.start), m._ints(ext.stop))]
    bgf = os.path.join(d, key + ".bdg")
    with open(bgf, "w") as fh:
        rows = [(n, v) for n, v in zip(names, c["vals"]) if "_" not in n]
        if c.get("sort"):
            rows.sort(key=lambda r: r[0])              # a bedGraph file is in the genome's order
        for n, v in rows:
            for p, val in enumerate(v):
                fh.write(f"{n}\t{p}\t{p + 1}\t{val}\n")
    tt = G.read_track(bgf).to_dict()
    out["track"] = [m._ints(tt[n]) for n in order]
    if c["genome_from"] == "fasta":
        seq = G.read_sequence()
        out["seq"] = [seq[n].to_string() for n in order]
    # locations from a VCF file (1-based in the file), also with numeric chromosome names; binned counts from files
    pts = [x for x in c["pts"]]
    numeric = bool(c.get("numeric"))
    vcf = os.path.join(d, key + ".vcf")
    with open(vcf, "w") as fh:
        fh.write("##fileformat=VCFv4.2\n#CHROM\tPOS\tID\tREF\tALT\tQUAL\tFILTER\tINFO\n")
        for x in pts:
            n = names[x[0]]
            fh.write(f"{n[3:] if numeric else n}\t{x[1] + 1}\t.\tA\tC\t.\t.\t.\n")
    loc = G.read_locations(vcf, has_numeric_chromosomes=numeric)
    out["loc"] = [[oidx.get(n, "?" + str(n)), p] for n, p in zip(m._names_of(loc.chromosome), m._ints(loc.position))]
    if pts:
        w = loc.get_windows(flank=1)
        out["win"] = [[oidx.get(n, "?" + str(n)), s, e] for n, s, e in zip(m._names_of(w.chromosome), m._ints(w.start), m._ints(w.stop))]
    if c["genome_from"] == "sizes" and not numeric and not c.get("sort"):
        from bionumpy.genomic_data.binned_genome import BinnedGenome
        bg = BinnedGenome.from_file(gf, bin_size=c["bin"])
        bg.count_file(vcf)
        out["binned"] = [m._ints(bg.count_dict[n]) for n in order]
    return out


# ------------------------------------------------------------------ oracle

def oracle(c):
    m = _c10()
    op = c["op"]
    names, sizes = c["names"], c["sizes"]
    ign = m._ign(c)
    rank = m._rank(ign)
    incl = [i for i, g in enumerate(ign) if not g]
    if any(sizes[i] == 0 for i in range(len(names))) and op != "binned":
        return SKIP
    iv = c.get("iv", [])
    kept = [x for x in iv if rank[x[0]] is not None]
    valid = all(0 <= x[1] <= x[2] <= sizes[x[0]] and x[1] < sizes[x[0]] for x in iv)
    pts = c.get("pts", [])
    pts_ok = all(rank[x[0]] is not None and 0 <= x[1] < sizes[x[0]] for x in pts)

    def mask_of(i, ivs):
        return [1 if any(x[0] == i and x[1] <= p < x[2] for x in ivs) else 0 for p in range(sizes[i])]
    pts_known = all(rank[x[0]] is not None for x in pts)
    if op == "trackviews":
        if not valid or not pts:
            return SKIP
        if not pts_ok:
            return {"err": "raised"} if pts_known else SKIP     # a negative / too large location must be refused
        vals = c["vals"]
        chrom = [list(vals[i]) for i in incl]
        return {"chrom": chrom, "data": chrom, "at": [vals[x[0]][x[1]] for x in pts],
                "bool": [vals[i][p] for i in incl for p in range(sizes[i]) if mask_of(i, kept)[p]],
                "npsum": sum(sum(v) for v in chrom), "rt": chrom}
    if op == "binned":
        if not pts or any(sizes[i] == 0 for i in incl) or any(rank[x[0]] is None or x[1] < 0 for x in pts):
            return SKIP
        if not pts_ok:
            return {"err": "raised"}       # a position beyond its chromosome must not be counted for the neighbour
        b = c["bin"]
        d = [[sum(1 for x in pts if x[0] == i and x[1] // b == k) for k in range((sizes[i] + b - 1) // b)] for i in incl]
        return {"dict": d, "get": d}
    if op == "binnedseq":
        allp = [x for part in c["batches"] for x in part]
        if any(sizes[i] == 0 for i in incl) or any(rank[x[0]] is None or x[1] < 0 for x in allp) or any(not part for part in c["batches"]):
            return SKIP
        b = c["bin"]
        counted, raised, after = [], [], []
        for part in c["batches"]:
            ok = all(x[1] < sizes[x[0]] for x in part)
            raised.append(not ok)
            if ok:
                counted += part
            after.append([[sum(1 for x in counted if x[0] == i and x[1] // b == k) for k in range((sizes[i] + b - 1) // b)] for i in incl])
        return {"raised": raised, "after": after, "get": after[-1]}
    if op == "maploc":
        if not valid or not pts_known:
            return SKIP
        if not pts_ok:
            return {"err": "raised"}                   # a negative / too large location must be refused
        gp = [(rank[x[0]], x[1]) for x in pts]
        if gp != sorted(gp):
            return SKIP                                # locations are given in genome order
        if c.get("fn") == "module" and len(names) != 1:
            return SKIP
        return {"map": [[j, x[1] - y[1]] for j, y in enumerate(kept) for x in pts if x[0] == y[0] and y[1] <= x[1] < y[2]]}
    if op == "gjaccard":
        sets = c["sets"]
        if any(rank[x[0]] is None or not (0 <= x[1] <= x[2] <= sizes[x[0]] and x[1] < sizes[x[0]]) for s in sets for x in s):
            return SKIP
        cov = [set((x[0], p) for x in s for p in range(x[1], x[2])) for s in sets]
        if any(not s for s in cov):
            return SKIP                                # 0/0 is C08's empty-operand case

        def j(a, b):
            return float(len(a & b) / len(a | b)).hex()
        n = len(cov)
        return {"pair": j(cov[0], cov[1]), "all": [[float(0).hex() if a == b else j(cov[a], cov[b]) for b in range(n)] for a in range(n)],
                "names": list(names), "csize": list(sizes), "track": [list(c["vals"][i]) for i in incl]}
    if op == "locsort":
        if not pts_ok or not pts:
            return SKIP
        return {"sorted": sorted([rank[x[0]], x[1]] for x in pts), "rev": [[rank[x[0]], x[1]] for x in reversed(pts)]}
    if op == "fromtrack":
        if not valid or not kept:
            return SKIP
        runs = []
        for i in incl:
            mk = mask_of(i, kept) + [0]
            start = None
            for p, v in enumerate(mk):
                if v and start is None:
                    start = p
                if not v and start is not None:
                    runs.append([rank[i], start, p]); start = None
        if not runs:
            return SKIP
        return {"runs": runs, "n": len(runs)}
    if op == "seqviews":
        if not valid or any(x[1] == x[2] for x in kept) or not kept:
            return SKIP
        stranded = bool(c.get("stranded", False))
        seqs = c["seqs"]
        rows = []
        for x in kept:
            row = seqs[x[0]][x[1]:x[2]]
            rows.append("".join(m._COMP[ch] for ch in reversed(row)) if stranded and not x[3] else row)
        out = {"rows": rows, "chrom": [seqs[i] for i in incl]}
        if c["backend"] == "fasta":
            out["bool"] = "".join(seqs[i][p] for i in incl for p in range(sizes[i]) if mask_of(i, kept)[p])
        return out
    if op == "files":
        if not valid:
            return SKIP
        fign = ["_" in n for n in names]               # from_file applies the default filter
        order_idx = [i for i in range(len(names)) if not fign[i]]
        if c.get("sort"):
            order_idx = sorted(order_idx, key=lambda i: names[i])
        if not order_idx:
            return SKIP
        pos = {i: k for k, i in enumerate(order_idx)}
        k2 = [x for x in iv if x[0] in pos]
        out = {"order": [names[i] for i in order_idx], "gsize": sum(sizes[i] for i in order_idx),
               "pileup": [[sum(1 for x in k2 if x[0] == i and x[1] <= p < x[2]) for p in range(sizes[i])] for i in order_idx],
               "ext": [[pos[x[0]], x[1], min(x[1] + c["L"], sizes[x[0]])] if x[3] else [pos[x[0]], max(x[2] - c["L"], 0), x[2]] for x in k2],
               "track": [list(c["vals"][i]) for i in order_idx]}
        if c["genome_from"] == "fasta":
            out["seq"] = [c["seqs"][i] for i in order_idx]
        fpts = c["pts"]
        if any(x[0] not in pos or not (0 <= x[1] < sizes[x[0]]) for x in fpts):
            return SKIP
        if c.get("numeric") and any(not (n.startswith("chr") and n[3:].isdigit()) for n in names):
            return SKIP
        out["loc"] = [[pos[x[0]], x[1]] for x in fpts]
        if fpts:
            out["win"] = [[pos[x[0]], max(0, x[1] - 1), min(sizes[x[0]], x[1] + 2)] for x in fpts]
        if c["genome_from"] == "sizes" and not c.get("numeric") and not c.get("sort"):
            b = c["bin"]
            out["binned"] = [[sum(1 for x in fpts if x[0] == i and x[1] // b == k) for k in range((sizes[i] + b - 1) // b)] for i in order_idx]
        return out
    if op == "maskfield":
        keep = [x for x in pts if rank[x[0]] is not None]
        return {"rows": [[rank[x[0]], x[1], names[x[2]]] for x in keep], "codes": [rank[x[0]] for x in keep]}
    if op == "globalise":
        if any(rank[x[0]] is None for x in iv) or not iv or any(sizes[i] == 0 for i in incl):
            return SKIP
        clip = bool(c["clip"])
        if any(x[1] < 0 or x[1] >= sizes[x[0]] or x[2] < x[1] or (not clip and x[2] > sizes[x[0]]) for x in iv):
            return {"err": "raised"}
        off = {i: sum(sizes[k] for k in incl if k < i) for i in incl}
        se = [[off[x[0]] + x[1], off[x[0]] + min(x[2], sizes[x[0]])] for x in iv]
        return {"se": se, "gi": se, "back": [[rank[x[0]], x[1], min(x[2], sizes[x[0]])] for x in iv]}
    if op == "hugegenome":
        small = [i for i in range(len(names)) if sizes[i] < 1000]
        if any(x[0] not in small or not (0 <= x[1] < x[2] <= sizes[x[0]]) for x in iv) or \
                any(x[0] not in small or not (0 <= x[1] < sizes[x[0]]) for x in pts):
            return SKIP
        gpts = sorted(pts)
        if pts != gpts:
            return SKIP
        pile = [[sum(1 for x in iv if x[0] == i and x[1] <= p < x[2]) for p in range(sizes[i])] for i in small]
        return {"rows": [c["vals"][x[0]][x[1]:x[2]] for x in iv], "pileup": pile, "psum": sum(map(sum, pile)),
                "msum": sum(1 for ch in pile for v in ch if v), "gsum": sum(map(sum, pile)),
                "sort": sorted([x[0], x[1], x[2]] for x in iv), "at": [c["vals"][x[0]][x[1]] for x in pts],
                "map": [[j, x[1] - y[1]] for j, y in enumerate(iv) for x in pts if x[0] == y[0] and y[1] <= x[1] < y[2]]}
    if op == "xgenome" and (c.get("sizes2") or c.get("names2")):
        valid = True
    if op == "xgenome":
        if not valid or not iv or any(x[1] == x[2] for x in iv) or any("_" in n for n in names):
            return SKIP
        order2 = sorted(range(len(names)), key=lambda i: names[i]) if c["order2"] == "sort" else list(c["order2"])
        if c.get("path") == "stream" and [order2.index(x[0]) for x in iv] != sorted(order2.index(x[0]) for x in iv):
            return SKIP                                # streamed intervals come in their own genome's order
        stranded = bool(c.get("stranded", False))
        same = order2 == list(range(len(names)))
        sizes_b = c.get("sizes2") or sizes
        if c.get("names2"):
            # same layout, other names: nothing of B belongs to a chromosome of A
            if any(not (0 <= x[1] < x[2] <= sizes_b[x[0]]) for x in iv) or c["what"] == "seq":
                return SKIP
            return {"err": "raised"}
        if sizes_b != sizes:
            # same names, another split of the genome: arrays of the two layouts must never be combined position by
            # position; intervals of B may be read on A only where they fit A's chromosomes
            if any(not (0 <= x[1] < x[2] <= sizes_b[x[0]]) for x in iv) or c["what"] == "seq":
                return SKIP
            if c["what"] in ("bool", "and", "add") or c.get("path") == "stream":
                return {"err": "raised"}
            if any(x[2] > sizes[x[0]] for x in iv):
                return {"err": "raised"}
            return {"rows": [(c["vals"][x[0]][x[1]:x[2]][::-1] if (stranded and not x[3]) else c["vals"][x[0]][x[1]:x[2]]) for x in iv],
                    "refusal_ok": True}
        if c["what"] == "add":
            iv2 = c["iv2"]
            if any(not (0 <= x[1] < x[2] <= sizes[x[0]]) for x in iv2):
                return SKIP
            return {"add": [[sum(1 for x in iv + iv2 if x[0] == i and x[1] <= p < x[2]) for p in range(sizes[i])] for i in range(len(names))],
                    "refusal_ok": not same}
        if c["what"] == "seq":
            rows = []
            for x in iv:
                row = c["seqs"][x[0]][x[1]:x[2]]
                rows.append("".join(m._COMP[ch] for ch in reversed(row)) if stranded and not x[3] else row)
            return {"calls": [rows, rows, rows], "refusal_ok": not same}
        if c["what"] == "bool":
            return {"bool": [c["vals"][i][p] for i in range(len(names)) for p in range(sizes[i]) if mask_of(i, iv)[p]],
                    "refusal_ok": not same}
        if c["what"] == "and":
            iv2 = c["iv2"]
            if any(not (0 <= x[1] < x[2] <= sizes[x[0]]) for x in iv2):
                return SKIP
            return {"and": sum(1 for i in range(len(names)) for p in range(sizes[i]) if mask_of(i, iv)[p] and mask_of(i, iv2)[p]),
                    "refusal_ok": not same}
        rows = []
        for x in iv:
            row = c["vals"][x[0]][x[1]:x[2]]
            rows.append(row[::-1] if (stranded and not x[3]) else row)
        return {"rows": rows, "refusal_ok": not same}
    if op == "ctor":
        if not iv:
            return SKIP
        clip = [[rank[x[0]], max(0, x[1]), min(sizes[x[0]], x[2]), x[3]] for x in kept]
        L = c["L"]
        srt = sorted([x[:3] for x in clip])
        out = {"stranded": True, "clip": [x[:3] for x in clip],
               "ext": [[x[0], x[1], min(x[1] + L, sizes[incl[x[0]]])] if x[3] else [x[0], max(x[2] - L, 0), x[2]] for x in clip],
               "sorted": srt, "sstream": srt, "locstrand": [bool(x[3]) for x in kept]}
        if any(x[1] > x[2] or x[1] >= sizes[incl[x[0]]] for x in clip):
            return SKIP                                # an interval entirely outside its chromosome stays inverted after clip
        return out
    if op == "sgeometry":
        if any(rank[x[0]] is None for x in iv) or [x[0] for x in iv] != sorted(x[0] for x in iv):
            return SKIP
        what = c["what"]
        if what in ("pileup", "track"):
            if not valid:
                return SKIP
            if what == "track":
                return {"chroms": [list(c["vals"][i]) for i in incl]}
            return {"chroms": [[sum(1 for x in iv if x[0] == i and x[1] <= p < x[2]) for p in range(sizes[i])] for i in incl]}
        if what == "clip":
            return {"iv": [[rank[x[0]], max(0, x[1]), min(sizes[x[0]], x[2])] for x in iv]}
        if what == "extend":
            L = c["L"]
            return {"iv": [[rank[x[0]], x[1], min(x[1] + L, sizes[x[0]])] if x[3] else [rank[x[0]], max(x[2] - L, 0), x[2]] for x in iv]}
        if not valid or [(x[0], x[1]) for x in iv] != sorted((x[0], x[1]) for x in iv):
            return SKIP
        out = []
        for i in incl:
            out += [[rank[i], s, e] for s, e in m._merge1(c["d"], [(x[1], x[2]) for x in iv if x[0] == i])]
        return {"iv": out}
    raise ValueError(op)


def nontrivial(c):
    m = _c10()
    ign = m._ign(c)
    if sum(1 for g in ign if not g) < 2:
        return False
    sizes = c["sizes"]
    ent = list(c.get("iv", [])) + [x for s in c.get("sets", []) for x in s]
    return any(x[1] <= 0 or x[2] >= sizes[x[0]] for x in ent) or any(x[1] == 0 or x[1] >= sizes[x[0]] - 1 for x in c.get("pts", []))


# ------------------------------------------------------------------ generators

def _many_contig_cases(rng, big):
    """genomes with more contigs than fit one byte (chromosome codes 256, 257, ...): every op with entries on the
    contigs around index 255/256 and on the last one"""
    for n in ((257, 300, 600) if big else (257, 300)):
        names = [f"chr{i}" for i in range(1, n + 1)]
        sizes = [1 + (i % 3) for i in range(n)]
        base = {"names": names, "sizes": sizes, "filt": True}
        hi = [0, 1, 254, 255, 256, 257 % n, n - 1]
        hi = sorted(set(hi))
        offs = [sum(sizes[:c]) for c in hi]
        yield dict(base, op="g2l", gs=sorted(set(offs + [o + sizes[c] - 1 for o, c in zip(offs, hi)])))
        yield dict(base, op="l2g", pts=[[c, sizes[c] - 1] for c in hi])
        yield dict(base, op="lookup", queries=[names[c] for c in reversed(hi)])
        iv = [[c, 0, sizes[c], c % 2 == 0] for c in hi]
        rev = list(reversed(iv))
        vals = [[(7 * c + p) % 5 for p in range(s)] for c, s in enumerate(sizes)]
        pts = [[c, sizes[c] - 1] for c in hi]
        for via in ("genome", "geometry"):
            yield dict(base, op="sort", via=via, iv=rev)
            yield dict(base, op="pileup", via=via, iv=rev, stranded=False)
            yield dict(base, op="mask", via=via, iv=iv, stranded=False)
            yield dict(base, op="merge", via=via, iv=iv, d=0)
            yield dict(base, op="clip", via=via, iv=[[c, -1, s + 2, f] for c, _, s, f in rev])
            yield dict(base, op="extend", via=via, iv=rev, L=2, stranded=True)
        for path in ("as_stream", "stream"):
            yield dict(base, op="pileup", via="genome", path=path, iv=iv, cuts=[2, 5], stranded=False)
            yield dict(base, op="merge", via="genome", path=path, iv=iv, cuts=[3], d=1)
        yield dict(base, op="windows", pts=list(reversed(pts)), flank=1, wsize=None)
        yield dict(base, op="extract", iv=rev, stranded=True, vals=vals)
        yield dict(base, op="location", iv=rev, stranded=True, where=1)
        yield dict(base, op="locsort", pts=list(reversed(pts)))
        yield dict(base, op="binned", pts=pts, bin=2, split=3)
        yield dict(base, op="maploc", iv=rev, pts=pts)
        yield dict(base, op="trackviews", iv=iv, pts=list(reversed(pts)), vals=vals)
        yield dict(base, op="fromtrack", iv=rev)
        yield dict(base, op="ctor", iv=rev, L=1, split=3)
        yield dict(base, op="gjaccard", sets=[iv[:4], iv[2:], iv], vals=vals)


def _dtype_cases(rng, big):
    """narrow coordinate columns (int8 / uint8 / int16 / int32 — what a BAM reader or a user array gives) on genomes
    whose total length just exceeds the column dtype's range while every chromosome fits: the concatenated
    coordinates must not be computed in the narrow dtype"""
    m = _c10()
    for dtype, sizes in (("int8", [100, 60, 90]), ("uint8", [120, 120, 120]), ("int16", [120, 120, 120]),
                         ("int8", [127, 1, 127]), ("int32", [100, 60, 90])):
        names = ["chr1", "chr2", "chr10"][:len(sizes)]
        base = {"names": names, "sizes": sizes, "filt": True, "dtype": dtype}
        for _ in range(3 if big else 1):
            iv = sorted(m._rand_iv(rng, sizes, [1, 2], 3, nonempty=True) + [[2, sizes[2] - 3, sizes[2], True], [1, 0, 2, False]],
                        key=lambda x: (x[0], x[1]))
            vals = [[(3 * i + p) % 7 for p in range(s)] for i, s in enumerate(sizes)]
            pts = sorted([[2, sizes[2] - 1], [1, 0], [2, 0], [1, sizes[1] - 1]])
            for via in ("genome", "geometry"):
                yield dict(base, op="pileup", via=via, iv=iv, stranded=False)
                yield dict(base, op="mask", via=via, iv=iv, stranded=False)
                yield dict(base, op="merge", via=via, iv=iv, d=0)
                yield dict(base, op="sort", via=via, iv=list(reversed(iv)))
            yield dict(base, op="extract", iv=iv, stranded=True, vals=vals)
            yield dict(base, op="trackviews", iv=iv, pts=pts, vals=vals)
            yield dict(base, op="maploc", iv=iv, pts=pts)
            yield dict(base, op="l2g", pts=pts)
            yield dict(base, op="binned", pts=pts, bin=7, split=2)
            yield dict(base, op="locsort", pts=list(reversed(pts)))
            yield dict(base, op="windows", pts=pts, flank=2, wsize=None)
            for path in ("as_stream", "stream"):
                yield dict(base, op="pileup", via="genome", path=path, iv=iv, cuts=[2], stranded=False)
    # the int32 boundary itself: one chromosome of almost 2**31 bases in front
    for dtype in ("int32", "int64"):
        sizes = [2_147_483_640, 20, 30]
        vals = [[1], [(p % 5) + 2 for p in range(20)], [(p % 3) + 7 for p in range(30)]]
        yield {"op": "hugegenome", "names": ["chr1", "chr2", "chr3"], "sizes": sizes, "filt": True, "dtype": dtype, "vals": vals,
               "iv": [[1, 12, 20, True], [1, 0, 3, True], [2, 0, 5, True], [2, 25, 30, True]], "pts": [[1, 0], [1, 19], [2, 0], [2, 29]]}


def _keyword_cases(rng, big):
    """documented keywords nothing inside the package passes: GlobalOffset.from_local_interval(do_clip=True) on intervals
    overhanging a chromosome that is NOT the last one (and the default on valid / invalid intervals)"""
    m = _c10()
    for _ in range(60 if big else 12):
        names, sizes = m._rand_genome(rng, min_chrom=2)
        filt = rng.random() < 0.7
        base = {"names": names, "sizes": sizes, "filt": filt, "op": "globalise"}
        incl = [i for i, n in enumerate(names) if not (filt and "_" in n)]
        if not incl:
            continue
        iv = m._rand_iv(rng, sizes, incl, rng.choice([1, 2, 4]))
        over = [[x[0], x[1], sizes[x[0]] + rng.choice([1, 2, 5]), x[3]] for x in iv]       # overhanging stops
        mixed = [rng.choice([a, b]) for a, b in zip(iv, over)]
        for clip in (True, False):
            yield dict(base, iv=iv, clip=clip)
            yield dict(base, iv=over, clip=clip)
            yield dict(base, iv=mixed, clip=clip)
        yield dict(base, iv=[[incl[0], 0, 10 ** 6, True]] + iv, clip=True)


def cases(tier, rng):
    m = _c10()
    big = tier in ("thorough", "widen")
    yield from _keyword_cases(rng, big)
    yield {"op": "globalise", "names": ["chr1", "chr2", "chr10"], "sizes": [5, 5, 4], "filt": True, "clip": True,
           "iv": [[0, 3, 9, True], [2, 1, 4, True], [1, 4, 7, True]]}
    # two genome objects with the SAME names in the same order but another split (same total and different total)
    for names, sa, sb in ((["chr1", "chr2"], [3, 5], [5, 3]), (["chr1", "chr2", "chr3"], [4, 4, 4], [2, 6, 4]),
                          (["chr1", "chr2"], [3, 5], [3, 6]), (["a", "b"], [6, 2], [2, 6])):
        n = len(names)
        vals = [[10 * (i + 1) + p for p in range(s_)] for i, s_ in enumerate(sa)]
        for _ in range(4 if big else 2):
            ivb = m._rand_iv(rng, sb, list(range(n)), rng.choice([1, 2, 3]), nonempty=True)
            iva = m._rand_iv(rng, sa, list(range(n)), 2, nonempty=True)
            b0 = {"op": "xgenome", "names": names, "sizes": sa, "sizes2": sb, "filt": True, "order2": list(range(n)), "vals": vals,
                  "iv": ivb, "iv2": iva}
            for what in ("bool", "and", "add"):
                yield dict(b0, what=what, stranded=False, path="mem")
            for path in ("mem", "stream"):
                siv = sorted(ivb, key=lambda x: x[0])
                yield dict(b0, iv=siv, what="extract", stranded=rng.random() < 0.5, path=path)
            # the same layout under other names (one shared, one foreign; all foreign)
            for names2 in ([names[0]] + [x + "b" for x in names[1:]], [x + "b" for x in names]):
                b1 = dict(b0, sizes2=None, names2=names2, iv=iva)
                yield dict(b1, what=rng.choice(["bool", "and", "add"]), stranded=False, path="mem")
                yield dict(b1, iv=sorted(iva, key=lambda x: x[0]), what="extract", stranded=False, path=rng.choice(["mem", "stream"]))
    yield from _dtype_cases(rng, big)
    yield from _many_contig_cases(rng, big)
    # two genome objects over the same chromosomes in different orders, alive together: a track of one indexed with
    # intervals / a mask of the other must give the right chromosome's values or refuse
    for names in (["chr1", "chr2", "chr10"], ["b", "a", "ab"], ["chr2", "chr1", "chr11", "chr3"]):
        n = len(names)
        orders = ["sort", list(range(n)), list(reversed(range(n)))] + ([rng.sample(range(n), n)] if big else [])
        for _ in range(6 if big else 2):
            sizes = [rng.choice([3, 4, 4, 5, 6]) for _ in names]          # equal sizes make a silent swap possible
            vals = [[10 * (i + 1) + p for p in range(s)] for i, s in enumerate(sizes)]
            iv = m._rand_iv(rng, sizes, list(range(n)), rng.choice([2, 3, 5]), nonempty=True)
            for order2 in orders:
                o2 = sorted(range(n), key=lambda i: names[i]) if order2 == "sort" else order2
                siv = sorted(iv, key=lambda x: o2.index(x[0]))
                for stranded in (False, True):
                    yield {"op": "xgenome", "names": names, "sizes": sizes, "filt": True, "order2": order2, "vals": vals,
                           "iv": iv, "stranded": stranded, "path": "mem", "what": "extract"}
                    yield {"op": "xgenome", "names": names, "sizes": sizes, "filt": True, "order2": order2, "vals": vals,
                           "iv": siv, "stranded": stranded, "path": "stream", "what": "extract"}
                yield {"op": "xgenome", "names": names, "sizes": sizes, "filt": True, "order2": order2, "vals": vals,
                       "iv": iv, "stranded": False, "path": "mem", "what": "bool"}
                seqs = ["".join(rng.choice("ACGT") for _ in range(s_)) for s_ in sizes]
                for first in ("A", "B"):
                    yield {"op": "xgenome", "names": names, "sizes": sizes, "filt": True, "order2": order2, "vals": vals,
                           "iv": iv, "stranded": rng.random() < 0.5, "path": "mem", "what": "seq", "seqs": seqs, "first": first}
                yield {"op": "xgenome", "names": names, "sizes": sizes, "filt": True, "order2": order2, "vals": vals,
                       "iv": iv, "iv2": m._rand_iv(rng, sizes, list(range(n)), 3, nonempty=True), "stranded": False,
                       "path": "mem", "what": "and"}
    # the boundary witnesses first: a location at position 0 of the next chromosome / exactly at an interval's stop
    yield {"op": "maploc", "names": ["chr1", "chr2"], "sizes": [5, 5], "filt": True,
           "iv": [[0, 3, 5, True], [1, 1, 3, True]], "pts": [[0, 3], [0, 4], [1, 0], [1, 1], [1, 2], [1, 3]]}
    yield {"op": "maploc", "names": ["chr1", "chr2"], "sizes": [5, 5], "filt": True, "iv": [[0, 3, 5, True]], "pts": [[1, 0]]}
    for _ in range(1500 if big else 70):
        names, sizes = m._rand_genome(rng)
        filt = rng.random() < 0.7
        base = {"names": names, "sizes": sizes, "filt": filt}
        ign = [filt and "_" in x for x in names]
        incl = [i for i, g in enumerate(ign) if not g]
        if not incl:
            continue
        k = rng.choice([1, 2, 3, 5])
        iv = m._rand_iv(rng, sizes, list(range(len(names))), k)
        ivn = m._rand_iv(rng, sizes, list(range(len(names))), k, nonempty=True)
        vals = [[rng.choice([0, 1, 1, 2, 7]) for _ in range(s)] for s in sizes]
        pts = [[c, rng.choice([0, sizes[c] - 1, rng.randrange(sizes[c])])] for c in (rng.choice(incl) for _ in range(rng.choice([1, 2, 4])))]
        spts = sorted(pts)
        yield dict(base, op="trackviews", iv=iv, pts=pts, vals=vals)
        yield dict(base, op="binned", pts=pts, bin=rng.choice([1, 2, 3, 4]), split=rng.randint(0, len(pts)))
        yield dict(base, op="binned", pts=pts, bin=rng.choice([1, 2, 3]), split=rng.randint(0, len(pts)), field=rng.choice(["start", "stop"]))
        allc = list(range(len(names)))
        yield dict(base, op="maskfield", pts=[[rng.choice(allc), rng.randrange(6), rng.choice(allc)] for _ in range(rng.choice([1, 3, 5]))])
        c0 = rng.choice(incl)
        yield dict(base, op="binned", pts=pts + [[c0, sizes[c0] + rng.choice([0, 1, 3])]], bin=rng.choice([1, 2, 3]), split=len(pts) + 1)
        # a sequence of batches on ONE counter: valid ones and ones holding a position beyond a chromosome end (on the
        # first, a middle or the last chromosome with entries, anywhere in the batch) next to valid entries everywhere
        batches = []
        for _b in range(rng.choice([2, 3, 4])):
            part = [[c_, rng.randrange(sizes[c_])] for c_ in incl for _r in range(rng.choice([0, 1, 2]))] or [[c0, 0]]
            if rng.random() < 0.5:
                cb = rng.choice(incl)
                part.insert(rng.randint(0, len(part)), [cb, sizes[cb] + rng.choice([0, 1, 3])])
            batches.append(part)
        yield dict(base, op="binnedseq", batches=batches, bin=rng.choice([1, 2, 3, 4]))
        yield dict(base, op="maploc", iv=sorted(iv, key=lambda x: rng.random()), pts=spts)
        every = sorted([c, p] for c in incl for p in range(sizes[c]))
        yield dict(base, op="maploc", iv=iv, pts=every)
        yield dict(base, op="locsort", pts=pts)
        cneg = max(incl)
        yield dict(base, op="trackviews", iv=iv, pts=pts + [[cneg, -1]], vals=vals)
        yield dict(base, op="maploc", iv=iv, pts=[[cneg, -1]])
        if len(names) == 1:
            yield dict(base, op="maploc", iv=iv, pts=every, fn="module")
        ivz = m._rand_iv(rng, sizes, list(range(len(names))), k, valid=False)
        ivc = iv if rng.random() < 0.6 else ivz
        yield dict(base, op="ctor", iv=ivc, L=rng.choice([0, 1, 3]), split=rng.randint(0, len(ivc)))
        yield dict(base, op="fromtrack", iv=iv)
        seqs = ["".join(rng.choice("ACGT") for _ in range(s)) for s in sizes]
        for backend in ("dict", "fasta"):
            yield dict(base, op="seqviews", iv=ivn, stranded=rng.random() < 0.5, seqs=seqs, backend=backend)
        if filt:
            sets = [m._rand_iv(rng, sizes, incl, rng.choice([1, 2, 3]), nonempty=True) for _ in range(3)]
            yield dict(base, op="gjaccard", sets=sets, vals=vals, from_cs=rng.random() < 0.5)
            ivs = sorted(m._rand_iv(rng, sizes, incl, k, valid=False), key=lambda x: x[0])
            yield dict(base, op="sgeometry", what="clip", iv=ivs)
            yield dict(base, op="sgeometry", what="extend", iv=ivs, L=rng.choice([0, 1, 3, 7]))
            ivm = sorted(m._rand_iv(rng, sizes, incl, k), key=lambda x: (x[0], x[1]))
            yield dict(base, op="sgeometry", what="merge", iv=ivm, d=rng.choice([0, 1]))
            yield dict(base, op="sgeometry", what="pileup", iv=ivm)
            yield dict(base, op="sgeometry", what="track", iv=ivm, vals=vals)
        if rng.random() < (1.0 if big else 0.5):
            yield dict(base, op="files", genome_from=rng.choice(["sizes", "fasta"]), sort=rng.random() < 0.4, iv=iv, vals=vals,
                       seqs=seqs, L=rng.choice([0, 1, 3, 7]), pts=spts, numeric=rng.random() < 0.4, bin=rng.choice([1, 2, 3]))
