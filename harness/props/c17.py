"""C17 — indexed FASTA random access agrees with the file (bionumpy/io/indexed_fasta.py, FastaIdxBuffer)."""
import atexit
import itertools
import os
import shutil
import tempfile

import numpy as np

from .. import core
from ..core import SKIP

ID = "C17"
RULE = ("exhaustive: one record of every length 1..L at every line width 1..W (quick L<=7,W<=8; thorough L<=12,W<=13) x EVERY interval "
        "[a,b) with 0<=a<b<=length, fetched through the library-built index, through a faidx-style supplied index and through the "
        "string-encoded-chromosome path; files of 2..4 records mixing widths, single-line records, full/short last lines and names "
        "with descriptions (spaces, tabs, VT/FF), one file in four several hundred bytes long: the written .fai text, index rows, "
        "keys, contig lengths, whole-contig reads, interval batches across records, Genome.from_file(fasta), create_index over "
        "several chunks (many small records, several whole records per chunk), one FASTA larger than the reader's 5,000,000-byte "
        "chunk (several in thorough) indexed with the real default chunk size, string-encoded interval chromosomes whose label "
        "order/set differs from the file order, genome-encoded intervals with sort_names, results of successive fetches compared "
        "only after all fetches are done; sessions of 2..8 calls on ONE open IndexedFasta (interval fetches whose first interval "
        "starts exactly where the previous read stopped, whole-contig fetches, items()/values(), repeats), every result checked "
        "right after its call and again after all later calls; every kind of case also on the FASTA without its final newline "
        "(exhaustive block: last line exactly full or short x every interval x both paths); blank-line-separated records (1..3 empty "
        "lines after a record, last line short / full / single, also after the last record) for every kind of case; the FASTA at one path replaced "
        "(same size in bytes / other size) with its .fai removed and opened again in the same process, first object still alive; in one file in three "
        "(every kind of case, the exhaustive blocks too) the names are not plain identifiers: they start with / contain the comment, header, "
        "quote and separator characters of text-table readers (# > @ ; , \" ' = % \\ | : *), are digits only / have leading zeros / a sign / look "
        "like a float or a missing value (1, 007, -1, 1e3, NA, nan, None), are column titles (chrom, name, length) or 70 characters long, "
        "more often than not in the FIRST record; a SECOND file of the same shape (same names and lengths, other bases and line widths) that "
        "must not be confused with the one given: a FASTA opened under a RELATIVE name (str / pathlib.Path; open_indexed, Genome.from_file, "
        "Genome.from_dict + read_sequence(name)) and fetched after os.chdir to a directory holding another file of that name (or none); ONE "
        "Genome object reading two FASTA files one after the other and the first again; a valid open (open_indexed / Genome.from_file) on a "
        "path where an earlier open FAILED (FASTA missing / empty / not a FASTA / a directory at that time). Non-trivial = an interval touching or crossing a line break, W = 1, a short last line, "
        ">= 2 records or a description")
EXHAUSTIVE = {"quick": True, "thorough": True}
MODEL_OPS = {"index", "fetch", "contig", "genome", "index_chunked", "create_index", "session"}
PARALLEL = 0
ASSUMPTIONS = [
    "the OS file is modelled as a byte list (seek/read = drop/take; readinto a zero-filled buffer); LF line ends only (CRLF FASTA is outside C17's quantifier)",
    "NumPy reshape / column slice / ravel / delete as list functions (reshapeCols, deleteIdx)",
    "multi-chunk index building is proved end to end over C01's reader model (index_reader_chunks, using C01.readAll_bytes_fasta); "
    "that the real reader behaves as C01's model is C01's correspondence; here the real create_index is run with a lowered default "
    "chunk size (and with the real default on files > 5 MB) and the Lean model is given the chunk sizes the real reader delivered",
    "the .fai is written column-wise by ints_to_strings (element-wise by C18.batch_independent) and read with Python int() / str.split "
    "(modelled as digit-string value / split on ASCII whitespace)",
    "names are non-empty, start with a non-blank, contain no '_' for the Genome cases (Genome filters such names by default); "
    "descriptions may contain spaces, tabs, VT/FF; no CR/LF",
]
ASSUMPTIONS.append(
    "scope decision (round 8): 'the file' of the property is the file that was opened - an object opened under a relative name "
    "must still return that file's sequences after the caller's os.chdir (an implementation that re-resolves the name and "
    "silently reads another same-named file, or raises, is reported as relative_name:wrong-result-after-chdir); a valid open "
    "after a FAILED open on the same path is judged only when the first open did fail")
TRUSTED_EXTRA = ["temporary FASTA/.fai files written by the harness in a private tempfile.mkdtemp() directory",
                 "harness/trace.py symbolic tracer + the recording file object used to capture the arguments of seek/read"]

MANIFEST = {
    "text": "Lean 4 theorems for all sequences / widths / intervals: layout (byte posOf W i of the wrapped block is base i; newlines "
            "exactly at (j+1)(W+1)-1), index_rows (the index built from any FASTA of well-formed records lists name, true length, "
            "offset of the first base, bases per line, bytes per line), fetch_interval (for every 0<=a<=b<=L the row/mod byte range with "
            "the newline positions deleted is exactly seq[a:b], wherever a and b fall relative to line breaks, W=1 included), "
            "fetch_contig, random_access (end to end on a whole file), contig_lengths (+ refutation of the rule shipped before the "
            "repair), index_chunks + index_reader_chunks (for EVERY chunk size and both reader modes, create_index over the chunks that "
            "C01's reader model delivers equals the index of the whole file: a cut after a newline and before '>' is a record "
            "boundary), fast_path_same (the vectorised path's traced arithmetic equals the scalar path's for all integers), fai_roundtrip / genome_sizes / "
            "fai_file (the written .fai read back by read_index and by Genome.from_file gives the built rows / the true lengths), "
            "fetch_interval_checked / index_rows_no_final_newline / fetch_contig_no_final_newline (FASTA without its final newline, NumPy's "
            "bounds check on np.delete modelled; refutation of the pre-repair rule), lookup_finds, wrap_filter / chunks_widths / "
            "delete_eq_filter / lines_join / firstWord_spec (model definitions pinned by standard list notions), "
            "index_chunk_size_independent, traced_kernel / traced_bytes_to_read / fetch_uses_traced (the model's seek position, read length, deleted-newline count, "
            "start column, row count and bytes-to-read ARE the expressions symbolically traced from the running "
            "get_interval_sequences / __getitem__ on every run into Gen/C17.lean; the row length the code claims is b-a). "
            "Correspondence: the real open_indexed / get_interval_sequences (both code paths) / __getitem__ / get_contig_lengths / "
            "written .fai text / Genome.from_file / multi-chunk create_index on temporary files vs the Lean model, the Lean spec and "
            "a Python oracle; exhaustive over length x width x every interval.",
    "note": "File I/O is modelled as a byte list; the fast (string-encoded chromosome) interval path's arithmetic is traced too and "
            "proved identical to the scalar path's (fast_path_same); CRLF is outside the property.",
    "technique": "Lean 4 proof (induction over wrapped lines) + symbolic tracing of the offset arithmetic + exhaustive small-scope differential correspondence",
    "design": "§6 C17",
}

# ---------------------------------------------------------------- symbolic trace of the row/offset arithmetic -> Gen/C17.lean

_TRACED = []
_KERNELS = ["trSeek", "trReadLen", "trRowLen", "trNDel", "trStartMod", "trNRows", "trBytesToRead",
            "trFastSeek", "trFastReadLen", "trFastNDel", "trFastStartMod", "trFastRowLen"]
_PARAMS = "(a b rlen offset lenc lenb : Int)"
# what the traced expressions are on the tree the proofs were written for (used only if tracing fails)
_FALLBACK = {
    "trSeek": "(offset + (((Int.fdiv a lenc) * lenb) + (Int.fmod a lenc)))",
    "trReadLen": "((((Int.fdiv b lenc) * lenb) + (Int.fmod b lenc)) - (((Int.fdiv a lenc) * lenb) + (Int.fmod a lenc)))",
    "trRowLen": "(((((Int.fdiv b lenc) * lenb) + (Int.fmod b lenc)) - (((Int.fdiv a lenc) * lenb) + (Int.fmod a lenc))) - ((Int.fdiv b lenc) - (Int.fdiv a lenc)))",
    "trNDel": "((Int.fdiv b lenc) - (Int.fdiv a lenc))",
    "trStartMod": "(Int.fmod a lenc)",
    "trFastSeek": "(offset + (((Int.fdiv a lenc) * lenb) + (Int.fmod a lenc)))",
    "trFastReadLen": "((((Int.fdiv b lenc) * lenb) + (Int.fmod b lenc)) - (((Int.fdiv a lenc) * lenb) + (Int.fmod a lenc)))",
    "trFastNDel": "((Int.fdiv b lenc) - (Int.fdiv a lenc))",
    "trFastStartMod": "(Int.fmod a lenc)",
    "trFastRowLen": "(b - a)",
    "trNRows": "(Int.fdiv ((rlen + lenc) - 1) lenc)",
    "trBytesToRead": "((((Int.fdiv ((rlen + lenc) - 1) lenc) - 1) * lenb) + (rlen - (((Int.fdiv ((rlen + lenc) - 1) lenc) - 1) * lenc)))",
}


def _frame_locals(tb, name):
    out = None
    while tb is not None:
        if tb.tb_frame.f_code.co_name == name:
            out = dict(tb.tb_frame.f_locals)
        tb = tb.tb_next
    return out


def _trace_kernels():
    """run the REAL IndexedFasta.get_interval_sequences / __getitem__ on symbolic index values and interval ends with a
    recording file object; the seek position, read length, claimed row length, number of deleted newlines, start column,
    row count and bytes-to-read are taken from what the code passed to the file / held in its frame when it reached the
    first data-dependent step"""
    import types
    from .. import trace
    from ..trace import var, Sym, NotTraceable
    from bionumpy.io.indexed_fasta import IndexedFasta
    out = {}

    class FakeFile:
        def __init__(self):
            self.seeks, self.reads, self.into = [], [], []

        def seek(self, p):
            self.seeks.append(p)

        def read(self, n):
            self.reads.append(n)
            return b""

        def readinto(self, buf):
            self.into.append(buf)

    class Chrom:
        encoding = object()

        def to_string(self):
            return "x"

    class Iv:
        chromosome = Chrom()
        start, stop = var("a"), var("b")

    class Ivs:
        chromosome = Chrom()
        start, stop = np.array([0]), np.array([1])

        def __iter__(self):
            return iter([Iv()])

    def obj():
        o = types.SimpleNamespace()
        o._index = {"x": {"lenb": var("lenb"), "rlen": var("rlen"), "lenc": var("lenc"), "offset": var("offset")}}
        o._f_obj = FakeFile()
        return o

    def text(sym):
        if not isinstance(sym, Sym):
            raise NotTraceable("not symbolic")
        return trace._int(sym.e)

    try:
        o = obj()
        try:
            IndexedFasta.get_interval_sequences(o, Ivs())
        except NotTraceable as e:
            loc = _frame_locals(e.__traceback__, "get_interval_sequences")
        else:
            loc = None
        if loc is not None and len(o._f_obj.seeks) == 1 and len(o._f_obj.reads) == 1 and len(loc.get("lengths", [])) == 1:
            out["trSeek"] = text(o._f_obj.seeks[0])
            out["trReadLen"] = text(o._f_obj.reads[0])
            out["trRowLen"] = text(loc["lengths"][0])
            out["trNDel"] = text(loc["stop_row"] - loc["start_row"])
            out["trStartMod"] = text(loc["start_mod"])
    except Exception:
        pass
    try:
        class Stop(Exception):
            pass

        class FakeBuf:
            def __init__(self):
                self.slices = []

            def __getitem__(self, k):
                self.slices.append(k)
                return self

            def __gt__(self, o):
                return True

            def reshape(self, *a):
                raise Stop()

        o = obj()
        bufs = []
        real_empty = np.empty

        def fake_empty(shape, *a, **k):
            if isinstance(shape, Sym):
                bufs.append(FakeBuf())
                return bufs[-1]
            return real_empty(shape, *a, **k)

        np.empty = fake_empty
        try:
            IndexedFasta.__getitem__(o, "x")
        except Stop as e:
            loc = _frame_locals(e.__traceback__, "__getitem__")
            out["trNRows"] = text(loc["n_rows"])
            out["trBytesToRead"] = text(loc["bytes_to_read"])
        finally:
            np.empty = real_empty
    except Exception:
        pass
    # the fast path (string-encoded chromosomes): column arithmetic on the looked-up index table
    try:
        import bionumpy.io.indexed_fasta as M

        class Table:
            def __getitem__(self, i):
                return types.SimpleNamespace(characters_per_line=var("lenc"), line_length=var("lenb"), start=var("offset"),
                                             length=var("rlen"))

        class FakeIdx:
            @staticmethod
            def from_entry_tuples(t):
                return Table()

        class EncL:
            def get_labels(self):
                return ["x"]

        class ChromL:
            encoding = EncL()

            def raw(self):
                return np.array([0])

        class IvsL:
            chromosome = ChromL()
            start, stop = var("a"), var("b")

        o = types.SimpleNamespace()
        o._index = {"x": {"lenb": 1, "rlen": 1, "lenc": 1, "offset": 1}}
        o._f_obj = None
        real_idx = M.FastaIdx
        M.FastaIdx = FakeIdx
        Sym.sum = lambda self, *a, **k: 0        # only sizes the pre-allocated output
        loc = None
        try:
            M.IndexedFasta._get_interval_sequences_fast(o, IvsL())
        except NotTraceable as e:
            loc = _frame_locals(e.__traceback__, "_get_interval_sequences_fast")
        finally:
            M.FastaIdx = real_idx
            del Sym.sum
        if loc is not None:
            out["trFastSeek"] = text(loc["read_starts"])
            out["trFastReadLen"] = text(loc["read_lengths"])
            out["trFastNDel"] = text(loc["n_rows"])
            out["trFastStartMod"] = text(loc["start_mods"])
            out["trFastRowLen"] = text(loc["lengths"])
    except Exception:
        pass
    return out


def regenerate():
    tr = _trace_kernels()
    _TRACED[:] = [k for k in _KERNELS if k in tr]
    out = ["/-! GENERATED on every run by harness/props/c17.py from the package imported from /repo: symbolic trace of the real",
           "`IndexedFasta.get_interval_sequences` / `__getitem__` row/offset arithmetic (executed on symbolic index values `rlen offset",
           "lenc lenb` and interval ends `a b` with a recording file object): the position passed to `seek`, the length passed to",
           "`read`, the row length the code claims, the number of newline positions it deletes, the start column, the row count and",
           "the bytes read for a whole contig; `trFast*` = the same quantities of the vectorised path `_get_interval_sequences_fast`",
           "(string-encoded chromosomes), traced on symbolic columns of the looked-up index table. Do not edit. -/",
           "set_option linter.unusedVariables false", "namespace Gen.C17", ""]
    for k in _KERNELS:
        out.append(f"def {k} {_PARAMS} : Int :=\n  {tr.get(k, _FALLBACK[k])}")
    out.append("/-- kernels that were really traced this run (the others fall back to the formula the proofs were written for) -/")
    out.append("def traced : List String := [" + ", ".join(f'"{k}"' for k in _TRACED) + "]")
    out += ["", "end Gen.C17", ""]
    return [("BnpVerif/Gen/C17.lean", "\n".join(out))]


def extra_evidence():
    return {"traced_kernels": list(_TRACED)}


_TMP = None


def _tmpdir():
    global _TMP
    if _TMP is None or not os.path.isdir(_TMP):
        _TMP = tempfile.mkdtemp(prefix="c17-")
        atexit.register(shutil.rmtree, _TMP, True)
    return _TMP


# ---------------------------------------------------------------- the format, written independently

def wrap(seq, w):
    return "".join(seq[i:i + w] + "\n" for i in range(0, len(seq), w))


def file_text(recs):
    """records, each optionally followed by `blank` empty lines (blank-line-separated FASTA)"""
    return "".join(">" + r["h"] + "\n" + wrap(r["seq"], r["w"]) + "\n" * r.get("blank", 0) for r in recs)


def name_of(r):
    return r["h"].split()[0]


def true_index(recs):
    rows, off = [], 0
    for r in recs:
        off += len(r["h"]) + 2
        lenc = min(r["w"], len(r["seq"]))
        rows.append([name_of(r), len(r["seq"]), off, lenc, lenc + 1])
        off += len(wrap(r["seq"], r["w"])) + r.get("blank", 0)
    return rows


def in_domain(recs):
    names = [name_of(r) for r in recs if r["h"].split()]
    return (len(recs) >= 1 and len(names) == len(recs) == len(set(names))
            and all(len(r["seq"]) >= 1 and r["w"] >= 1 and not r["h"][0].isspace() and "\n" not in r["h"] and "\r" not in r["h"]
                    and all(ch in "ACGTacgtNn" for ch in r["seq"]) for r in recs))


# ---------------------------------------------------------------- cases

def _all_intervals(name, n):
    return [{"name": name, "a": a, "b": b} for a in range(n) for b in range(a + 1, n + 1)]


def _seq(rng, n):
    return "".join(rng.choice("ACGT") for _ in range(n))


PLAIN_NAMES = ["a", "b", "chr1", "chr2", "X", "seq10", "c", "MT"]
# names that are valid FASTA names (everything up to the first whitespace; samtools faidx indexes them like any other) but
# mean something to SOME text reader: the comment / header / quote / separator characters of delimited-text, CSV and
# FASTQ readers, texts a table reader would turn into a number or a missing value, digits only (Ensembl style), leading
# zeros, signs, accession-style punctuation, one long name
ODD_NAMES = ["#1", "#", "##x", "#chr2", "1", "2", "10", "01", "007", "0", "-1", "+5", "-", "+", "1.0", "1e3", "0x1F", ".", "..",
             "NA", "nan", "NaN", "null", "None", "True", "inf", "@r1", "@", ";c", "a;b", "a,b", ",", "a=b", "=", "%", "%s", "a%20b",
             '"q"', '"', "'x'", "'", "`", "\\", "a\\tb", "\\n", "a/b", "/", "~", "!", "$x", "&", "(x)", "[x]", "{x}", "<x>", "a>b", ">x", ">", "?", "^", "*",
             "chr1:100-200", "gi|123|ref|NC1.1|", "HLA-A*01:01", "NC_1.1", "a.b", "chr1.1", "A", "chrUn-x", "x" * 70,
             "track", "browser", "chrom", "chromosome", "name", "length"]


def _odd_name(rng):
    if rng.random() < 0.8:
        return rng.choice(ODD_NAMES)
    return "".join(chr(rng.choice(range(33, 127))) for _ in range(rng.choice([1, 1, 2, 3, 5, 9])))


def _names(rng, k):
    """k distinct names: plain ones, or (one file in three) names from ODD_NAMES / random printable ASCII, an odd name
    more often than not in the FIRST record (where a header / comment block of a text reader would be)"""
    r = rng.random()
    if r < 0.67:
        return rng.sample(PLAIN_NAMES, k)
    out = []
    while len(out) < k:
        nm = _odd_name(rng) if (rng.random() < 0.7 or (not out and r < 0.9)) else rng.choice(PLAIN_NAMES)
        if nm not in out:
            out.append(nm)
    return out


def _rand_recs(rng, maxlen=12, maxw=9, big_file=False):
    k = rng.choice([3, 4, 5, 6, 8]) if big_file else rng.choice([1, 2, 2, 3, 4])
    names = _names(rng, k)
    recs = []
    for nm in names:
        n = rng.randint(1, maxlen)
        w = rng.choice([1, 2, 3, rng.randint(1, maxw), n, n + 1, max(1, n - 1), max(1, n // 2), 60])
        h = nm + rng.choice(["", "", " desc", " two words", "  x=1 y", " len=%d" % n, "\tdesc", "\t\ttab tab\t", " a\tb  c ", "\x0bvt", "\x0cff x", " trailing "])
        if rng.random() < 0.25:
            w = rng.choice([1, n, max(1, n // 2) if n % max(1, n // 2) == 0 else n])      # W = 1 / exactly full last line
        recs.append({"h": h, "seq": _seq(rng, n), "w": w})
    return recs


def cases(tier, rng):
    """every case kind, and a share of them again on the same FASTA WITHOUT its final newline (the last line then ends at
    the end of the file: full or short)"""
    for c in _cases(tier, rng):
        yield c
        if c["op"] in ("fetch", "contig", "index", "session", "genome") and rng.random() < 0.3:
            yield dict(c, no_final_newline=True)
        # blank-line-separated records (1..3 empty lines after some records, also after the last one)
        if c["op"] in ("fetch", "contig", "index", "session", "genome", "index_chunked", "create_index") and rng.random() < 0.3 \
                and "no_final_newline" not in c:
            yield dict(c, recs=[dict(r, blank=rng.choice([0, 1, 1, 2, 3])) for r in c["recs"]])


def _cases(tier, rng):
    big = tier in ("thorough", "widen")
    L, W = (12, 13) if big else (7, 8)
    # 1. exhaustive: length x width x every interval, three access paths
    for n in range(1, L + 1):
        for w in range(1, W + 1):
            nm = _names(rng, 1)[0]                  # one file in three: a name that is not a plain identifier
            recs = [{"h": nm, "seq": _seq(rng, n), "w": w}]
            ivs = _all_intervals(nm, n)
            for via in ("lib", "supplied", "string"):
                yield {"op": "fetch", "recs": recs, "ivs": ivs, "supplied": via == "supplied", "string": via == "string"}
            yield {"op": "contig", "recs": recs, "supplied": False}
            yield {"op": "contig", "recs": recs, "supplied": True}
            yield {"op": "index", "recs": recs}
    # 1b. no final newline x last line exactly full / short x every interval, last record of the file, all access paths
    for n in range(1, (L if big else 6) + 1):
        for w in range(1, n + 1):
            recs = [{"h": "p", "seq": _seq(rng, rng.randint(1, 5)), "w": rng.randint(1, 3)}, {"h": "a d", "seq": _seq(rng, n), "w": w}]
            if rng.random() < 0.5:
                recs = recs[1:]
            for via in ("lib", "string"):
                yield {"op": "fetch", "recs": recs, "ivs": _all_intervals("a", n), "supplied": False, "string": via == "string",
                       "no_final_newline": True}
            yield {"op": "contig", "recs": recs, "supplied": False, "no_final_newline": True}
            yield {"op": "index", "recs": recs, "no_final_newline": True}
    # 1c. blank lines after a record x last line short / full / single line x every width, whole contigs and index rows
    for n in range(1, (L if big else 6) + 1):
        for w in range(1, n + 2):
            recs = [{"h": "a d", "seq": _seq(rng, n), "w": w, "blank": rng.choice([1, 1, 2, 3])},
                    {"h": "b", "seq": _seq(rng, rng.randint(1, 6)), "w": rng.randint(1, 4), "blank": rng.choice([0, 0, 1, 2])}]
            yield {"op": "index", "recs": recs}
            yield {"op": "contig", "recs": recs, "supplied": False}
            yield {"op": "fetch", "recs": recs, "ivs": _all_intervals("a", n)[-min(6, n * (n + 1) // 2):] + _all_intervals("b", len(recs[1]["seq"]))[:3],
                   "supplied": False, "string": rng.random() < 0.5}
            if rng.random() < 0.3:
                yield {"op": "genome", "recs": recs, "sort_names": False}
    # 2. the record of interest preceded / followed by other records (offsets), descriptions
    for n in range(1, L + 1):
        for w in range(1, W + 1):
            if not big and rng.random() < 0.5:
                continue
            p_, a_, q_ = _names(rng, 3)
            recs = [{"h": p_ + " some text", "seq": _seq(rng, rng.randint(1, 7)), "w": rng.randint(1, 4)},
                    {"h": a_ + " desc", "seq": _seq(rng, n), "w": w},
                    {"h": q_, "seq": _seq(rng, rng.randint(1, 5)), "w": rng.randint(1, 6)}]
            ivs = _all_intervals(a_, n) + _all_intervals(q_, len(recs[2]["seq"]))[:5] + _all_intervals(p_, len(recs[0]["seq"]))[:5]
            rng.shuffle(ivs)
            yield {"op": "fetch", "recs": recs, "ivs": ivs, "supplied": rng.random() < 0.3, "string": rng.random() < 0.5}
            yield {"op": "index", "recs": recs}
            yield {"op": "contig", "recs": recs, "supplied": False}
    # 2b. files larger than the reader's default chunk (5,000,000 bytes), >= 2 records inside a non-final chunk
    yield _large_case(rng, 7, 900_000)           # first chunk: five whole records, > 4 MB
    if big:
        yield _large_case(rng, 4, 1_700_000)
        yield _large_case(rng, 9, 1_300_000)
        yield _large_case(rng, 3, 2_600_000)
        yield _large_case(rng, 40, 300_000)       # > 10 MB, three chunks of ~16 records
    # 2c. many small records, chunk sizes that put several whole records into every chunk of a multi-chunk read
    for _ in range(250 if big else 30):
        k = rng.randint(8, 20)
        recs = []
        for i in range(k):
            n = rng.randint(1, 14)
            recs.append({"h": "s%d" % i + rng.choice(["", "", " d", "\tx y"]), "seq": _seq(rng, n),
                         "w": rng.choice([1, 2, 3, 5, n, 60])})
        if rng.random() < 0.3:                      # names that are not plain identifiers, from the first record on
            for r, nm in zip(recs, _names(rng, rng.randint(1, 5))):
                if nm not in [name_of(x) for x in recs]:
                    r["h"] = nm + r["h"][len(name_of(r)):]
        yield {"op": "index_chunked", "recs": recs, "chunk": rng.choice([48, 64, 90, 128, 160])}
        if rng.random() < 0.3:
            yield {"op": "index", "recs": recs}
    # 2d. create_index itself on headers that are empty, blank, or start with a blank (name = text before the first whitespace)
    for _ in range(150 if big else 25):
        recs = _rand_recs(rng, 10)
        for r in recs:
            if rng.random() < 0.5:
                r["h"] = rng.choice(["", " ", "  \t", " lead", "\tx", " a b", r["h"] + " ", "\x0b"])
        yield {"op": "create_index", "recs": recs}
    # 2e. sessions: several calls on ONE open IndexedFasta, interval tiles that start exactly where the previous read ended
    for _ in range(900 if big else 160):
        recs = _rand_recs(rng, 24 if rng.random() < 0.7 else 60, 9, big_file=rng.random() < 0.3)
        yield {"op": "session", "recs": recs, "steps": _session_steps(rng, recs)}
    # 2f. the FASTA at ONE path replaced by other content (same size in bytes: other bases / swapped record lengths / permuted
    #     records; or another size), its .fai removed, and opened again in the same process; also two files alive at once
    for _ in range(300 if big else 50):
        recs = _rand_recs(rng, 16)
        kind = rng.choice(["bases", "swap", "permute", "resize", "bases"])
        if kind == "bases":
            recs2 = [dict(r, seq=_seq(rng, len(r["seq"]))) for r in recs]
        elif kind == "swap" and len(recs) >= 2:
            # two records exchange their sequences (and widths): same bytes in total, different lengths per name
            i, j = rng.sample(range(len(recs)), 2)
            recs2 = [dict(r) for r in recs]
            recs2[i]["seq"], recs2[j]["seq"] = recs[j]["seq"], recs[i]["seq"]
            recs2[i]["w"], recs2[j]["w"] = recs[j]["w"], recs[i]["w"]
        elif kind == "permute":
            recs2 = recs[::-1]
        else:
            recs2 = [dict(r, seq=_seq(rng, len(r["seq"]) + rng.choice([1, 2, 5]))) for r in recs]
        yield {"op": "reopen", "recs": recs, "recs2": recs2, "via": rng.choice(["open_indexed", "genome"])}
    # 2g. a SECOND file of the same shape (same names and lengths, other bases, other line widths) that the object under test
    #     must not confuse with the one it was given: opened under a RELATIVE name (str / pathlib.Path) and fetched after the
    #     caller changed the working directory to a directory holding another file of that name (or none); ONE Genome object
    #     reading two FASTA files one after the other (and the first one again); a valid open on a path where an earlier
    #     open FAILED (FASTA missing / empty placeholder / not a FASTA / a directory at that time)
    for _ in range(240 if big else 45):
        recs = _rand_recs(rng, 16)
        recs2 = [dict(r, seq=_seq(rng, len(r["seq"])), w=rng.choice([r["w"], 1, 2, 3, 5, 7, len(r["seq"])])) for r in recs]
        yield {"op": "relative", "recs": recs, "recs2": recs2, "via": rng.choice(["open_indexed", "open_indexed", "genome", "genome_dict"]),
               "arg": rng.choice(["str", "path"]), "to": rng.choice(["other", "other", "empty"])}
        yield {"op": "genome_two", "recs": recs, "recs2": recs2, "how": rng.choice(["from_file", "from_dict"]),
               "first": rng.choice(["default", "explicit"])}
        yield {"op": "after_failed", "recs": recs, "fail": rng.choice(["missing", "missing", "empty", "empty", "noheader", "headeronly", "isdir"]),
               "first_via": rng.choice(["open_indexed", "genome"]), "second_via": rng.choice(["open_indexed", "genome"])}
    # 3. random multi-record files
    for _ in range(1500 if big else 120):
        # one file in four is several hundred bytes long (offsets beyond one line / one small chunk)
        recs = _rand_recs(rng, 70, 25, big_file=True) if rng.random() < 0.25 else _rand_recs(rng, 30 if big else 12)
        yield {"op": "index", "recs": recs}
        yield {"op": "contig", "recs": recs, "supplied": rng.random() < 0.3}
        ivs = []
        for _ in range(rng.randint(1, 8)):
            r = rng.choice(recs)
            n = len(r["seq"])
            a = rng.randrange(n)
            # bias towards line breaks
            cand = [a + 1, n] + [k for k in range(a + 1, n + 1) if k % r["w"] in (0, 1, r["w"] - 1)]
            ivs.append({"name": name_of(r), "a": a, "b": rng.choice(cand) if rng.random() < 0.7 else rng.randint(a + 1, n)})
        yield {"op": "fetch", "recs": recs, "ivs": ivs, "supplied": rng.random() < 0.3, "string": rng.random() < 0.5}
        # string-encoded chromosomes whose label order / label set differs from the file order
        yield {"op": "fetch", "recs": recs, "ivs": ivs, "supplied": False, "string": True,
               "label_order": rng.choice(["sorted", "reversed", "rotated", "file"]), "all_labels": rng.random() < 0.5}
        if rng.random() < (1.0 if big else 0.5):
            yield {"op": "genome", "recs": recs, "sort_names": rng.random() < 0.5}
        if rng.random() < 0.6:
            yield {"op": "index_chunked", "recs": recs, "chunk": rng.choice([16, 24, 40, 64, 100, 200])}


def _session_steps(rng, recs):
    """a mix of interval fetches, whole-contig fetches (also through items()/values()) and repeats; an interval fetch often
    starts exactly where the previous read on that object stopped (same contig: a = previous b; or base 0 of the next contig)"""
    names = [name_of(r) for r in recs]
    by = {name_of(r): r for r in recs}
    if rng.random() < 0.45:
        # the canonical triple: a tile, something that moves the file position, the adjacent tile (same access path)
        nm = rng.choice(names)
        n, w = len(by[nm]["seq"]), by[nm]["w"]
        if n >= 2:
            b1 = rng.choice([k for k in range(1, n) if k % w in (0, 1)] or [1]) if rng.random() < 0.5 else rng.randint(1, n - 1)
            a1 = rng.randrange(b1)
            b2 = rng.randint(b1 + 1, n)
            string = rng.random() < 0.5
            other = rng.choice(names)
            mid = rng.choice([{"k": "contig", "name": nm}, {"k": "contig", "name": other}, {"k": "items"}, {"k": "values"},
                              {"k": "fetch", "ivs": [{"name": other, "a": 0, "b": len(by[other]["seq"])}], "string": not string}])
            return [{"k": "fetch", "ivs": [{"name": nm, "a": a1, "b": b1}], "string": string}, mid,
                    {"k": "fetch", "ivs": [{"name": nm, "a": b1, "b": b2}], "string": string},
                    {"k": "contig", "name": nm}]
    steps, last = [], None            # last = (name, end) of the most recent read
    for _ in range(rng.randint(2, 7)):
        kind = rng.random()
        if kind < 0.55:
            ivs = []
            for _ in range(rng.choice([1, 1, 2, 3])):
                if last is not None and rng.random() < 0.7:
                    nm, a = last
                    if a >= len(by[nm]["seq"]):                      # previous read ended at the end of a contig
                        nm, a = names[(names.index(nm) + 1) % len(names)], 0
                else:
                    nm = rng.choice(names)
                    a = rng.randrange(len(by[nm]["seq"]))
                n, w = len(by[nm]["seq"]), by[nm]["w"]
                if a >= n:
                    a = n - 1
                cand = [a + 1, n] + [k for k in range(a + 1, n + 1) if k % w in (0, 1)]
                b = rng.choice(cand) if rng.random() < 0.6 else rng.randint(a + 1, n)
                ivs.append({"name": nm, "a": a, "b": b})
                last = (nm, b)
            steps.append({"k": "fetch", "ivs": ivs, "string": rng.random() < 0.5})
        elif kind < 0.8:
            nm = last[0] if (last is not None and rng.random() < 0.5) else rng.choice(names)
            steps.append({"k": "contig", "name": nm})
        elif kind < 0.88:
            steps.append({"k": "items"})
        elif kind < 0.94:
            steps.append({"k": "values"})
        else:
            steps.append({"k": "lengths"})
        if steps[-1]["k"] != "fetch" and rng.random() < 0.5:
            pass                                                        # `last` is kept: the next tile starts at the old position
    if rng.random() < 0.5 and steps:
        steps.append(dict(steps[0]))                                    # a repeated call
    return steps


def _large_case(rng, n_recs, rec_len):
    """a FASTA larger than the reader's default 5,000,000-byte chunk, several records per chunk (described by a seed, the
    sequences are regenerated from it)"""
    return {"op": "index_large", "seed": rng.randrange(10 ** 6), "n": n_recs, "len": rec_len, "w": rng.choice([60, 70, 80]),
            "recs": [{"h": "large", "seq": "A", "w": 1}]}


def _large_recs(c):
    r = np.random.RandomState(c["seed"])
    names = ["chr%d" % (i + 1) for i in range(c["n"])]
    out = []
    for i, nm in enumerate(names):
        n = c["len"] + int(r.randint(0, 1000))
        seq = np.array(list(b"ACGT"), dtype=np.uint8)[r.randint(0, 4, n)].tobytes().decode()
        out.append({"h": nm + (" desc %d" % i if i % 2 else ""), "seq": seq, "w": c["w"]})
    return out


def nontrivial(c):
    if c["op"] == "index_large":
        return True
    recs = c["recs"]
    if len(recs) >= 2 or any(" " in r["h"] for r in recs) or c["op"] in ("relative", "genome_two", "after_failed"):
        return True
    r = recs[0]
    n, w = len(r["seq"]), r["w"]
    if w == 1 or (n % w != 0 and n > w):
        return True
    return any(iv["a"] // w != (iv["b"] - 1) // w or iv["b"] % w == 0 or iv["a"] % w == 0 for iv in c.get("ivs", [])) or n > w


# ---------------------------------------------------------------- implementation

def _write(c, supplied=False):
    d = tempfile.mkdtemp(dir=_tmpdir())
    p = os.path.join(d, "x.fa")
    with open(p, "w") as fh:
        fh.write(file_text(c["recs"])[:-1] if c.get("no_final_newline") else file_text(c["recs"]))
    if supplied:
        with open(p + ".fai", "w") as fh:
            for row in true_index(c["recs"]):
                fh.write("\t".join(str(x) for x in row) + "\n")
    return d, p


def _genome_ivs(c):
    """one interval per record (taken in reverse file order), ending on / next to a line break where possible"""
    out = []
    for x in c["recs"][::-1]:
        n, w = len(x["seq"]), x["w"]
        b = min(n, max(1, (n // w) * w)) if n >= w else n
        out.append((min(b - 1, w - 1 if w <= b else 0), b))
    return out


def _natural(names):
    """`sort_names=True` is documented as "sort the chromosome names": plain string order (on names such as chr1, chr2, seq10
    this is also the natural order; on '007' vs '##x' or '10' vs '2' only the string order is what the keyword promises)"""
    return sorted(names)


def _labels(c):
    """label set / order of the string encoding of the interval chromosomes: the names used, in an order that need not be
    the file order; optionally all names of the file"""
    used = list(dict.fromkeys(x["name"] for x in c["ivs"]))
    names = [name_of(r) for r in c["recs"]] if c.get("all_labels") else used
    order = c.get("label_order", "sorted")
    if order == "sorted":
        return sorted(names)
    if order == "reversed":
        return names[::-1] if c.get("all_labels") else sorted(names, reverse=True)
    if order == "rotated":
        return names[1:] + names[:1]
    return names


def _impl_large(c):
    import bionumpy as bnp
    from bionumpy.datatypes import Interval
    recs = _large_recs(c)
    d, p = _write({"recs": recs})
    try:
        f = bnp.open_indexed(p)                 # the library's create_index with its real default chunk size
        rows = []
        for line in open(p + ".fai").read().split("\n"):
            if line:
                cols = line.split("\t")
                rows.append([cols[0]] + [int(x) for x in cols[1:]])
        lengths = [[k, int(v)] for k, v in f.get_contig_lengths().items()]
        ivs = _large_ivs(c, recs)
        iv = Interval.from_entry_tuples(ivs)
        got = [r.to_string() for r in f.get_interval_sequences(iv)]
        import hashlib
        whole = [[k, hashlib.sha1(f[k].to_string().encode()).hexdigest()] for k in list(f.keys())[::2]]
        return {"rows": rows, "lengths": lengths, "fetched": got, "whole": whole, "size": os.path.getsize(p)}
    finally:
        shutil.rmtree(d, ignore_errors=True)


def _large_ivs(c, recs):
    r = np.random.RandomState(c["seed"] + 1)
    out = []
    for x in recs:
        n, w = len(x["seq"]), x["w"]
        a = int(r.randint(0, n - 300))
        out.append((name_of(x), a, a + int(r.randint(1, 250))))
        out.append((name_of(x), n - w - 3, n))
        out.append((name_of(x), (n // w - 1) * w, (n // w) * w))
    return out


def _impl(c):
    import bionumpy as bnp
    from bionumpy.datatypes import Interval
    op = c["op"]
    if op == "index_large":
        return _impl_large(c)
    d, p = _write(c, supplied=c.get("supplied", False))
    try:
        if op == "index":
            f = bnp.open_indexed(p)
            rows = []
            for line in open(p + ".fai").read().split("\n"):
                if line:
                    cols = line.split("\t")
                    rows.append([cols[0]] + [int(x) for x in cols[1:]])
            keys = list(f.keys())
            lengths = [[k, int(v)] for k, v in f.get_contig_lengths().items()]
            if keys != [k for k, _ in lengths]:
                return {"err": "keys-differ", "keys": keys}
            if repr(f) != "Indexed Fasta File with chromosome sizes: " + repr({k: v for k, v in lengths}):
                return {"err": "repr-differs", "repr": repr(f)}
            # a GenomicSequence made directly from the indexed file takes its chromosome sizes from it
            from bionumpy.genomic_data.genomic_sequence import GenomicSequence
            gsz = GenomicSequence.from_indexed_fasta(f).genome_context.chrom_sizes
            if [[k, int(v)] for k, v in gsz.items()] != lengths and not any("_" in k for k in keys):
                return {"err": "genome-context-sizes-differ", "sizes": [[k, int(v)] for k, v in gsz.items()]}
            return {"rows": rows, "lengths": lengths, "fai": open(p + ".fai").read()}
        if op == "session":
            from bionumpy.encodings.string_encodings import StringEncoding
            f = bnp.open_indexed(p)
            live = []
            for st in c["steps"]:
                k = st["k"]
                if k == "fetch":
                    iv = Interval.from_entry_tuples([(x["name"], x["a"], x["b"]) for x in st["ivs"]])
                    if st.get("string"):
                        labels = sorted({x["name"] for x in st["ivs"]})
                        iv = bnp.replace(iv, chromosome=bnp.as_encoded_array([x["name"] for x in st["ivs"]], StringEncoding(labels)))
                    r = f.get_interval_sequences(iv)
                    live.append((r, lambda v: [x.to_string() for x in v]))
                elif k == "contig":
                    live.append((f[st["name"]], lambda v: v.to_string()))
                elif k == "items":
                    live.append((list(f.items()), lambda v: [[n, x.to_string()] for n, x in v]))
                elif k == "values":
                    live.append((list(f.values()), lambda v: [x.to_string() for x in v]))
                else:
                    live.append((f.get_contig_lengths(), lambda v: [[n, int(x)] for n, x in v.items()]))
                live[-1] = live[-1] + (live[-1][1](live[-1][0]),)      # what the result was right after the call
            final = [fn(obj) for obj, fn, _ in live]                   # ... and what it is after all the later calls
            if final != [first for _, _, first in live]:
                return {"err": "result-changed-after-a-later-call", "final": final}
            return final
        if op == "reopen":
            def observe():
                if c["via"] == "genome":
                    g = bnp.Genome.from_file(p)
                    gs = g.read_sequence()
                    sizes = g.get_genome_context().chrom_sizes
                    return {"lengths": sorted([k, int(v)] for k, v in sizes.items()),
                            "seqs": sorted([k, gs.extract_chromsome(k).to_string().upper()] for k in sizes)}, gs
                f = bnp.open_indexed(p)
                ivs = [(k, n // 2, n) for k, n in f.get_contig_lengths().items()]
                return {"lengths": sorted([k, int(v)] for k, v in f.get_contig_lengths().items()),
                        "seqs": sorted([k, f[k].to_string().upper()] for k in f.keys()),
                        "tails": [x.to_string().upper() for x in f.get_interval_sequences(Interval.from_entry_tuples(ivs))]}, f
            first, keep = observe()
            with open(p, "w") as fh:
                fh.write(file_text(c["recs2"]))
            os.remove(p + ".fai")
            second, keep2 = observe()
            return {"first": first, "second": second}
        if op in ("relative", "genome_two", "after_failed"):
            return _impl_second_file(c, d)
        if op == "create_index":
            from bionumpy.io.indexed_fasta import create_index
            idx = create_index(p)
            return {"rows": [[nm.to_string(), int(ln), int(st), int(cl), int(ll)] for nm, ln, st, cl, ll in
                             zip(idx.chromosome, idx.length, idx.start, idx.characters_per_line, idx.line_length)]}
        if op == "index_chunked":
            # the library's own create_index, made to read the file in several chunks by lowering the default
            # chunk size of the reader it calls (read_chunks() is called without arguments there)
            from bionumpy.io.indexed_fasta import create_index
            from bionumpy.io.npdataclassreader import NpDataclassReader
            fn = NpDataclassReader.read_chunks
            saved = fn.__defaults__
            fn.__defaults__ = (c["chunk"],) + tuple(saved[1:])
            try:
                idx = create_index(p)
            finally:
                fn.__defaults__ = saved
            rows = [[nm.to_string(), int(ln), int(st), int(cl), int(ll)] for nm, ln, st, cl, ll in
                    zip(idx.chromosome, idx.length, idx.start, idx.characters_per_line, idx.line_length)]
            return {"rows": rows}
        if op == "contig":
            f = bnp.open_indexed(p)
            held = dict(f.items())                                   # all contigs fetched first ...
            again = {k: f[k] for k in reversed(list(f.keys()))}     # ... and once more in the opposite order
            out = [[k, v.to_string()] for k, v in held.items()]     # only now looked at
            if [[k, again[k].to_string()] for k in held] != out:
                return {"err": "second-fetch-differs"}
            return out
        if op == "fetch":
            f = bnp.open_indexed(p)
            ivs = c["ivs"]
            iv = Interval.from_entry_tuples([(x["name"], x["a"], x["b"]) for x in ivs])
            if c.get("string"):
                from bionumpy.encodings.string_encodings import StringEncoding
                iv = bnp.replace(iv, chromosome=bnp.as_encoded_array([x["name"] for x in ivs], StringEncoding(_labels(c))))
            first = f.get_interval_sequences(iv)
            # a second, different fetch before the first result is looked at (results must not share storage)
            other = f.get_interval_sequences(iv[::-1])
            out = [r.to_string() for r in first]
            if [r.to_string() for r in other] != out[::-1]:
                return {"err": "second-fetch-differs"}
            return out
        if op == "genome":
            g = bnp.Genome.from_file(p, sort_names=bool(c.get("sort_names")))
            sizes = g.get_genome_context().chrom_sizes
            gs = g.read_sequence()
            seqs = [[k, gs.extract_chromsome(k).to_string()] for k in sizes]
            r = c["recs"][-1]
            n = len(r["seq"])
            iv = Interval.from_entry_tuples([(name_of(r), 0, n), (name_of(r), n // 2, n)])
            sub = [x.to_string() for x in gs.extract_intervals(iv)]
            # intervals over all records, encoded by the genome (its chromosome order, not the file's)
            tup = [(name_of(x), a, b) for x, (a, b) in zip(c["recs"][::-1], _genome_ivs(c))]
            gi = g.get_intervals(Interval.from_entry_tuples(tup))
            enc = [x.to_string() for x in gs[gi]]
            srt = sorted(sizes) if c.get("sort_names") else None
            return {"sizes": sorted([k, int(v)] for k, v in sizes.items()), "seqs": sorted(seqs), "sub": sub, "enc": enc,
                    "order_ok": srt is None or list(sizes) == _natural(list(sizes))}
    finally:
        shutil.rmtree(d, ignore_errors=True)


def _observe_indexed(f):
    from bionumpy.datatypes import Interval
    lengths = {k: int(v) for k, v in f.get_contig_lengths().items()}
    ivs = [(k, n // 2, n) for k, n in lengths.items()]
    return {"lengths": sorted([k, v] for k, v in lengths.items()),
            "seqs": sorted([k, f[k].to_string().upper()] for k in f.keys()),
            "items": sorted([k, v.to_string().upper()] for k, v in f.items()),
            "tails": [x.to_string().upper() for x in f.get_interval_sequences(Interval.from_entry_tuples(ivs))] if ivs else []}


def _observe_genomic(gs, names):
    return sorted([k, gs.extract_chromsome(k).to_string().upper()] for k in names)


def _impl_second_file(c, d):
    import bionumpy as bnp
    from pathlib import Path
    op = c["op"]
    names = [name_of(r) for r in c["recs"]]
    if op == "relative":
        a, b = os.path.join(d, "sampleA"), os.path.join(d, "sampleB")
        os.mkdir(a), os.mkdir(b)
        with open(os.path.join(a, "genome.fa"), "w") as fh:
            fh.write(file_text(c["recs"]))
        if c["to"] == "other":
            with open(os.path.join(b, "genome.fa"), "w") as fh:
                fh.write(file_text(c["recs2"]))
        cwd = os.getcwd()
        try:
            os.chdir(a)
            arg = Path("genome.fa") if c["arg"] == "path" else "genome.fa"
            if c["via"] == "open_indexed":
                f = bnp.open_indexed(arg)
                os.chdir(b)
                return _observe_indexed(f)
            if c["via"] == "genome":
                g = bnp.Genome.from_file(arg)
                gs = g.read_sequence()
            else:
                g = bnp.Genome.from_dict({name_of(r): len(r["seq"]) for r in c["recs"]})
                gs = g.read_sequence(arg)
            os.chdir(b)
            return {"seqs": _observe_genomic(gs, names)}
        finally:
            os.chdir(cwd)
    if op == "genome_two":
        pa, pb = os.path.join(d, "a.fa"), os.path.join(d, "b.fa")
        with open(pa, "w") as fh:
            fh.write(file_text(c["recs"]))
        with open(pb, "w") as fh:
            fh.write(file_text(c["recs2"]))
        if c["how"] == "from_file":
            g = bnp.Genome.from_file(pa)
        else:
            g = bnp.Genome.from_dict({name_of(r): len(r["seq"]) for r in c["recs"]})
        s1 = g.read_sequence() if (c["first"] == "default" and c["how"] == "from_file") else g.read_sequence(pa)
        s2 = g.read_sequence(pb)
        s1b = g.read_sequence(pa)
        return {"second": _observe_genomic(s2, names), "first": _observe_genomic(s1, names), "first_again": _observe_genomic(s1b, names)}
    # after_failed: an open that fails, the FASTA then put in place, a valid open on the same path
    p = os.path.join(d, "late.fa")
    kind = c["fail"]
    if kind == "empty":
        open(p, "w").close()
    elif kind == "noheader":
        with open(p, "w") as fh:
            fh.write("ACGT\nAC\n")
    elif kind == "headeronly":
        with open(p, "w") as fh:
            fh.write(">a\n")
    elif kind == "isdir":
        os.mkdir(p)

    def call(via):
        if via == "open_indexed":
            return _observe_indexed(bnp.open_indexed(p))
        g = bnp.Genome.from_file(p)
        sizes = g.get_genome_context().chrom_sizes
        return {"lengths": sorted([k, int(v)] for k, v in sizes.items()), "seqs": _observe_genomic(g.read_sequence(), list(sizes))}
    try:
        call(c["first_via"])
    except Exception:
        pass
    else:
        return {"first_call_did_not_fail": True}        # the premise of the case does not hold: nothing to judge
    if kind == "isdir":
        os.rmdir(p)
    with open(p, "w") as fh:
        fh.write(file_text(c["recs"]))
    return call(c["second_via"])


def impl(c):
    try:
        return _impl(c)
    except Exception as e:
        return {"err": "other:" + type(e).__name__}


# ---------------------------------------------------------------- oracle

def _name_before_ws(h):
    for i, ch in enumerate(h):
        if ch in " \t\n\r\x0b\x0c\x1c\x1d\x1e\x1f":
            return h[:i]
    return h


def oracle(c):
    recs = c["recs"]
    if c["op"] == "create_index":
        if not all(len(r["seq"]) >= 1 and r["w"] >= 1 and "\n" not in r["h"] and "\r" not in r["h"] for r in recs):
            return SKIP
        rows, off = [], 0
        for r in recs:
            off += len(r["h"]) + 2
            lenc = min(r["w"], len(r["seq"]))
            rows.append([_name_before_ws(r["h"]), len(r["seq"]), off, lenc, lenc + 1])
            off += len(wrap(r["seq"], r["w"])) + r.get("blank", 0)
        return {"rows": rows}
    if not in_domain(recs):
        return SKIP
    op = c["op"]
    by = {name_of(r): r for r in recs}
    if op == "index":
        return {"rows": true_index(recs), "lengths": [[name_of(r), len(r["seq"])] for r in recs],
                "fai": "".join("\t".join(str(x) for x in row) + "\n" for row in true_index(recs))}
    if op == "index_large":
        import hashlib
        big_recs = _large_recs(c)
        by2 = {name_of(r): r for r in big_recs}
        size = len(file_text(big_recs))
        if size <= 5_000_000:
            return SKIP
        return {"rows": true_index(big_recs), "lengths": [[name_of(r), len(r["seq"])] for r in big_recs],
                "fetched": [by2[n]["seq"][a:b] for n, a, b in _large_ivs(c, big_recs)],
                "whole": [[name_of(r), hashlib.sha1(r["seq"].encode()).hexdigest()] for r in big_recs[::2]], "size": size}
    if op == "index_chunked":
        return {"rows": true_index(recs)}
    if op == "reopen":
        if not in_domain(c["recs2"]) or (c["via"] == "genome" and any("_" in name_of(r) for r in recs + c["recs2"])):
            return SKIP

        def exp(rs):
            d = {"lengths": sorted([name_of(r), len(r["seq"])] for r in rs), "seqs": sorted([name_of(r), r["seq"].upper()] for r in rs)}
            if c["via"] != "genome":
                d["tails"] = [r["seq"][len(r["seq"]) // 2:].upper() for r in rs]
            return d
        return {"first": exp(recs), "second": exp(c["recs2"])}
    if op in ("relative", "genome_two", "after_failed"):
        genome = (op == "genome_two" or c.get("via") in ("genome", "genome_dict") or "genome" in (c.get("first_via"), c.get("second_via")))
        if (genome and any("_" in name_of(r) for r in recs)) or ("recs2" in c and not in_domain(c["recs2"])):
            return SKIP
        seqs = sorted([name_of(r), r["seq"].upper()] for r in recs)
        lengths = sorted([name_of(r), len(r["seq"])] for r in recs)
        full = {"lengths": lengths, "seqs": seqs, "items": seqs, "tails": [r["seq"][len(r["seq"]) // 2:].upper() for r in recs]}
        if op == "relative":
            return full if c["via"] == "open_indexed" else {"seqs": seqs}
        if op == "genome_two":
            if [(name_of(r), len(r["seq"])) for r in recs] != [(name_of(r), len(r["seq"])) for r in c["recs2"]]:
                return SKIP
            return {"second": sorted([name_of(r), r["seq"].upper()] for r in c["recs2"]), "first": seqs, "first_again": seqs}
        return full if c["second_via"] == "open_indexed" else {"lengths": lengths, "seqs": seqs}
    if op == "session":
        out = []
        for st in c["steps"]:
            k = st["k"]
            if k == "fetch":
                if any(x["name"] not in by or not (0 <= x["a"] < x["b"] <= len(by[x["name"]]["seq"])) for x in st["ivs"]):
                    return SKIP
                out.append([by[x["name"]]["seq"][x["a"]:x["b"]] for x in st["ivs"]])
            elif k == "contig":
                out.append(by[st["name"]]["seq"])
            elif k == "items":
                out.append([[name_of(r), r["seq"]] for r in recs])
            elif k == "values":
                out.append([r["seq"] for r in recs])
            else:
                out.append([[name_of(r), len(r["seq"])] for r in recs])
        return out
    if op == "contig":
        return [[name_of(r), r["seq"]] for r in recs]
    if op == "fetch":
        if not c["ivs"] or any(x["name"] not in by or not (0 <= x["a"] < x["b"] <= len(by[x["name"]]["seq"])) for x in c["ivs"]):
            return SKIP
        return [by[x["name"]]["seq"][x["a"]:x["b"]] for x in c["ivs"]]
    if op == "genome":
        if any("_" in name_of(r) for r in recs):
            return SKIP
        r = recs[-1]
        n = len(r["seq"])
        return {"sizes": sorted([name_of(x), len(x["seq"])] for x in recs), "seqs": sorted([name_of(x), x["seq"].upper()] for x in recs),
                "sub": [r["seq"][0:n].upper(), r["seq"][n // 2:n].upper()],
                "enc": [x["seq"][a:b].upper() for x, (a, b) in zip(recs[::-1], _genome_ivs(c))], "order_ok": True}
    return SKIP


def model_request(c):
    if c["op"] == "index_chunked":
        # the Lean model indexes the same chunks the real reader delivers (their sizes), so that it is the offset
        # accumulation that is compared
        from bionumpy.io.multiline_buffer import FastaIdxBuffer
        from bionumpy.io.files import bnp_open
        d, p = _write(c)
        try:
            sizes = [int(b.byte_size[0]) for b in bnp_open(p, buffer_type=FastaIdxBuffer).read_chunks(min_chunk_size=c["chunk"])]
        except Exception:
            sizes = [len(file_text(c["recs"]))]
        finally:
            shutil.rmtree(d, ignore_errors=True)
        return dict(c, sizes=sizes)
    return c


def agree_model(c, got, m):
    if c["op"] == "genome" and isinstance(got, dict) and "seqs" in got:
        got = dict(got, seqs=[[k, s.upper()] for k, s in got["seqs"]], sub=[s.upper() for s in got["sub"]])
        got = {k: got[k] for k in ("sizes", "seqs", "sub")}
        m = {"sizes": sorted(m["sizes"]), "seqs": sorted(m["seqs"]), "sub": m["sub"]}
    return core.canon(got) == core.canon(m)


def agree(c, got, exp):
    if c["op"] == "after_failed" and got == {"first_call_did_not_fail": True}:
        return True           # the first open did not fail on this tree: the case has no premise (a stale index of the harness's own making)
    if c["op"] == "genome" and isinstance(got, dict) and "seqs" in got:
        got = dict(got, seqs=[[k, s.upper()] for k, s in got["seqs"]], sub=[s.upper() for s in got["sub"]],
                   enc=[s.upper() for s in got["enc"]])
    return core.canon(got) == core.canon(exp)


def agree_spec(c, s, exp):
    if c["op"] == "genome":
        return core.canon({"sizes": sorted(s["sizes"]), "seqs": sorted(s["seqs"]), "sub": s["sub"]}) == \
            core.canon({k: exp[k] for k in ("sizes", "seqs", "sub")})
    return core.canon(s) == core.canon(exp)


def finding_key(c, got, exp):
    op = c["op"]
    if op == "index" and isinstance(got, dict) and "rows" in got:
        if got["rows"] != exp["rows"]:
            if len(got["rows"]) == len(exp["rows"]) and all(g[1:] == e[1:] and g[0].split()[:1] == [e[0]] for g, e in zip(got["rows"], exp["rows"])):
                return "index:name-column-keeps-description"
            return "index:wrong-row"
        if all(gl[0] == el[0] and gl[1] == row[3] for gl, el, row in zip(got["lengths"], exp["lengths"], exp["rows"])):
            return "contig_lengths:bases-per-line"
        return "contig_lengths:wrong"
    if op == "relative":
        return "relative_name:wrong-result-after-chdir"
    if op == "genome_two":
        return "genome_two_files:wrong-sequence"
    if op == "after_failed":
        return "after_failed_open:" + c["first_via"] + ":wrong-result"
    if op == "reopen":
        return "reopen:stale-object-for-a-replaced-file" if isinstance(got, dict) and got.get("first") == exp["first"] else "reopen:wrong-result"
    if op == "session":
        if isinstance(got, dict) and got.get("err") == "result-changed-after-a-later-call":
            return "session:result-changed-after-a-later-call"
        bad = [st["k"] for st, g, e in zip(c["steps"], got, exp) if g != e] if isinstance(got, list) and len(got) == len(exp) else ["?"]
        return "session:wrong-" + (bad[0] if bad else "result")
    if op == "index_large":
        return "index_large:" + ("wrong-row" if isinstance(got, dict) and got.get("rows") != exp["rows"] else "wrong-fetch")
    if c.get("no_final_newline") and isinstance(got, dict) and got.get("err") == "other:IndexError":
        return "fetch:no-final-newline-full-last-line"
    if op == "genome":
        if isinstance(got, dict) and got.get("err") == "other:ValueError" and any(" " in r["h"] for r in c["recs"]):
            return "genome_from_fasta:description-breaks-fai"
        if isinstance(got, dict) and "sizes" in got and got["sizes"] != exp["sizes"]:
            return "genome_from_fasta:wrong-sizes"
        return "genome_from_fasta:wrong-sequence"
    return op + ":wrong-result"
