"""Symbolic tracing of straight-line element-wise integer kernels (DESIGN §3.2).

The REAL Python function is executed on `Sym` operands that record the expression DAG; the DAG is
emitted as a Lean `def … : Int` (or `Bool`). A theorem about the emitted def is then a theorem
about what the code computes *now* for that kernel: the Gen file is regenerated on every run.
If the function stops being traceable (data-dependent control flow), `NotTraceable` is raised and
the caller records `traced: false` (the hand model + correspondence still stand).
"""
import dataclasses
import numpy as np


class NotTraceable(Exception):
    pass


_BIN = {"add": "+", "sub": "-", "mul": "*"}
_CMP = {"lt": "<", "le": "≤", "gt": ">", "ge": "≥", "eq": "=", "ne": "≠"}
_UFUNC = {"add": "add", "subtract": "sub", "multiply": "mul", "floor_divide": "fdiv", "remainder": "fmod",
          "maximum": "max", "minimum": "min", "less": "lt", "less_equal": "le", "greater": "gt",
          "greater_equal": "ge", "equal": "eq", "not_equal": "ne", "logical_and": "and", "logical_or": "or",
          "bitwise_and": "and", "bitwise_or": "or", "logical_not": "not", "invert": "not", "negative": "neg"}


def _lift(x):
    if isinstance(x, Sym):
        return x.e
    if isinstance(x, (bool, np.bool_)):
        return ("boollit", bool(x))
    if isinstance(x, (int, np.integer)):
        return ("lit", int(x))
    if isinstance(x, str) and len(x) == 1:
        return ("chr", x)
    if isinstance(x, np.ndarray) and x.ndim == 0:
        return _lift(x.item())
    raise NotTraceable(f"cannot lift {type(x).__name__} {x!r}")


class Sym:
    """symbolic element of an integer (or boolean / one-character) array"""
    __array_priority__ = 10000

    def __init__(self, e):
        self.e = e

    # ---- arithmetic
    def _b(self, op, o, rev=False):
        a, b = (_lift(o), self.e) if rev else (self.e, _lift(o))
        return Sym((op, a, b))

    def __add__(self, o): return self._b("add", o)
    def __radd__(self, o): return self._b("add", o, True)
    def __sub__(self, o): return self._b("sub", o)
    def __rsub__(self, o): return self._b("sub", o, True)
    def __mul__(self, o): return self._b("mul", o)
    def __rmul__(self, o): return self._b("mul", o, True)
    def __floordiv__(self, o): return self._b("fdiv", o)
    def __rfloordiv__(self, o): return self._b("fdiv", o, True)
    def __mod__(self, o): return self._b("fmod", o)
    def __rmod__(self, o): return self._b("fmod", o, True)
    def __neg__(self): return Sym(("neg", self.e))
    def __lt__(self, o): return self._b("lt", o)
    def __le__(self, o): return self._b("le", o)
    def __gt__(self, o): return self._b("gt", o)
    def __ge__(self, o): return self._b("ge", o)
    def __eq__(self, o): return self._b("eq", o)
    def __ne__(self, o): return self._b("ne", o)
    def __and__(self, o): return self._b("and", o)
    def __rand__(self, o): return self._b("and", o, True)
    def __or__(self, o): return self._b("or", o)
    def __ror__(self, o): return self._b("or", o, True)
    def __invert__(self): return Sym(("not", self.e))
    __hash__ = None

    # ---- numpy protocol
    def __array_ufunc__(self, ufunc, method, *inputs, **kwargs):
        if method != "__call__" or kwargs.get("out") is not None or ufunc.__name__ not in _UFUNC:
            raise NotTraceable(f"ufunc {ufunc.__name__}.{method}")
        return Sym((_UFUNC[ufunc.__name__],) + tuple(_lift(i) for i in inputs))

    def __array_function__(self, func, types, args, kwargs):
        if func is np.where and len(args) == 3:
            return Sym(("ite",) + tuple(_lift(a) for a in args))
        if func in (np.ravel, np.asarray, np.asanyarray, np.atleast_1d, np.copy):
            return self
        if func is np.maximum or func is np.minimum:
            return Sym(("max" if func is np.maximum else "min",) + tuple(_lift(a) for a in args))
        raise NotTraceable(f"array function {func.__name__}")

    # ---- shape-preserving no-ops
    def ravel(self): return self
    def copy(self): return self
    def astype(self, *a, **k): return self
    def raw(self): return self

    # ---- anything data dependent is not traceable
    def _no(self, *a, **k): raise NotTraceable("data-dependent use of a symbolic value")
    __bool__ = __int__ = __index__ = __len__ = __iter__ = __getitem__ = __float__ = _no


def var(name):
    return Sym(("var", name))


def row(cls_fields, **fields):
    """a tiny duck-typed one-row table whose fields are symbolic; works with dataclasses.replace"""
    Row = dataclasses.make_dataclass("Row", [(f, object) for f in cls_fields])
    return Row(**{f: fields[f] for f in cls_fields})


# ------------------------------------------------------------------ emission
def _vars(e, acc):
    if e[0] == "var":
        acc.setdefault(e[1], "Int")
    elif e[0] == "eq" and any(x[0] == "chr" for x in e[1:]):
        v = [x for x in e[1:] if x[0] == "var"]
        c = [x for x in e[1:] if x[0] == "chr"]
        if len(v) == 1 and len(c) == 1:
            acc[_chrvar(v[0][1], c[0][1])] = "Bool"
        else:
            raise NotTraceable("character comparison shape")
    elif e[0] not in ("lit", "boollit", "chr"):
        for x in e[1:]:
            _vars(x, acc)
    return acc


def _chrvar(v, c):
    names = {"+": "Plus", "-": "Minus", ".": "Dot"}
    return f"{v}Is{names.get(c, 'Chr%d' % ord(c))}"


def _bool(e):
    op = e[0]
    if op == "boollit":
        return "true" if e[1] else "false"
    if op in _CMP:
        if any(x[0] == "chr" for x in e[1:]):
            v = [x for x in e[1:] if x[0] == "var"][0][1]
            c = [x for x in e[1:] if x[0] == "chr"][0][1]
            t = _chrvar(v, c)
            return t if op == "eq" else f"(!{t})"
        return f"decide ({_int(e[1])} {_CMP[op]} {_int(e[2])})"
    if op == "and":
        return f"({_bool(e[1])} && {_bool(e[2])})"
    if op == "or":
        return f"({_bool(e[1])} || {_bool(e[2])})"
    if op == "not":
        return f"(!{_bool(e[1])})"
    raise NotTraceable(f"not a boolean expression: {op}")


def _int(e):
    op = e[0]
    if op == "lit":
        return f"({e[1]} : Int)" if e[1] < 0 else f"{e[1]}"
    if op == "var":
        return e[1]
    if op in _BIN:
        return f"({_int(e[1])} {_BIN[op]} {_int(e[2])})"
    if op == "neg":
        return f"(-{_int(e[1])})"
    if op == "fdiv":
        return f"(Int.fdiv {_int(e[1])} {_int(e[2])})"
    if op == "fmod":
        return f"(Int.fmod {_int(e[1])} {_int(e[2])})"
    if op in ("max", "min"):
        return f"({op} {_int(e[1])} {_int(e[2])})"
    if op == "ite":
        return f"(if {_bool(e[1])} then {_int(e[2])} else {_int(e[3])})"
    raise NotTraceable(f"not an integer expression: {op}")


def emit(name, sym, kind="Int", order=None):
    """Lean definition text for a traced value; parameters in `order` (default: sorted)"""
    vs = _vars(sym.e, {})
    names = [n for n in (order or sorted(vs)) if n in vs] + [n for n in sorted(vs) if order and n not in order]
    params = " ".join(f"({n} : {vs[n]})" for n in names)
    body = _int(sym.e) if kind == "Int" else _bool(sym.e)
    return f"def {name} {params} : {kind} :=\n  {body}\n", names


def evaluate(sym, env):
    """evaluate a traced expression on concrete Python values (used to cross-check the trace itself)"""
    def ev(e):
        op = e[0]
        if op in ("lit", "boollit", "chr"):
            return e[1]
        if op == "var":
            return env[e[1]]
        a = [ev(x) for x in e[1:]]
        return {"add": lambda: a[0] + a[1], "sub": lambda: a[0] - a[1], "mul": lambda: a[0] * a[1],
                "fdiv": lambda: a[0] // a[1], "fmod": lambda: a[0] % a[1], "neg": lambda: -a[0],
                "max": lambda: max(a), "min": lambda: min(a), "lt": lambda: a[0] < a[1], "le": lambda: a[0] <= a[1],
                "gt": lambda: a[0] > a[1], "ge": lambda: a[0] >= a[1], "eq": lambda: a[0] == a[1], "ne": lambda: a[0] != a[1],
                "and": lambda: a[0] and a[1], "or": lambda: a[0] or a[1], "not": lambda: not a[0],
                "ite": lambda: a[1] if a[0] else a[2]}[op]()
    return ev(sym.e)
