import BnpVerif.Model.C13
import Mathlib.Tactic.Ring
/-! Helper lemmas for C13: positional facts about `hashLE` and the proof that the 2-bit packed
sliding window (`BitArray.pack` / `sliding_window`, modelled on uint64 words in `Model/C13.lean`)
computes the little-endian base-4 number of every window. -/
namespace C13

theorem hashLE_lt (n : Nat) (letters : List Nat) (h : ∀ x ∈ letters, x < n) : hashLE n letters < n ^ letters.length := by
  induction letters with
  | nil => simp [hashLE]
  | cons x xs ih =>
    have h1 := ih (fun y hy => h y (by simp [hy]))
    have h2 : x < n := h x (by simp)
    simp only [hashLE, List.length_cons, Nat.pow_succ]
    calc x + n * hashLE n xs < n + n * hashLE n xs := by omega
      _ = n * (hashLE n xs + 1) := by ring
      _ ≤ n * n ^ xs.length := Nat.mul_le_mul_left n h1
      _ = n ^ xs.length * n := Nat.mul_comm _ _

theorem hashLE_append (n : Nat) (xs ys : List Nat) :
    hashLE n (xs ++ ys) = hashLE n xs + n ^ xs.length * hashLE n ys := by
  induction xs with
  | nil => simp [hashLE]
  | cons x xs ih =>
    simp only [List.cons_append, hashLE, ih, List.length_cons, Nat.pow_succ]
    ring

/-- the digits `i .. i+k-1` of a little-endian number are the number of that sub-list -/
theorem hashLE_drop_take (n : Nat) (xs : List Nat) (h : ∀ x ∈ xs, x < n) (i k : Nat) (hik : i + k ≤ xs.length) :
    hashLE n ((xs.drop i).take k) = hashLE n xs / n ^ i % n ^ k := by
  have hx : xs = xs.take i ++ ((xs.drop i).take k ++ (xs.drop i).drop k) := by
    rw [List.take_append_drop, List.take_append_drop]
  have hA : hashLE n (xs.take i) < n ^ i := by
    have := hashLE_lt n (xs.take i) (fun x hx => h x (List.mem_of_mem_take hx))
    rwa [List.length_take, Nat.min_eq_left (by omega)] at this
  have hB : hashLE n ((xs.drop i).take k) < n ^ k := by
    have := hashLE_lt n ((xs.drop i).take k) (fun x hx => h x (List.mem_of_mem_drop (List.mem_of_mem_take hx)))
    rwa [List.length_take, List.length_drop, Nat.min_eq_left (by omega)] at this
  have e : hashLE n xs = hashLE n (xs.take i) +
      n ^ i * (hashLE n ((xs.drop i).take k) + n ^ k * hashLE n ((xs.drop i).drop k)) := by
    conv => lhs; rw [hx]
    rw [hashLE_append, hashLE_append, List.length_take, List.length_take, List.length_drop,
      Nat.min_eq_left (by omega), Nat.min_eq_left (by omega)]
  rw [e]
  have hni : 0 < n ^ i := by omega
  rw [Nat.add_mul_div_left _ _ hni, Nat.div_eq_of_lt hA, Nat.zero_add, Nat.add_mul_mod_self_left,
    Nat.mod_eq_of_lt hB]

/-! ### packing -/

theorem four_pow (i : Nat) : (2 : Nat) ^ (2 * i) = 4 ^ i := by
  rw [Nat.pow_mul]

theorem packAcc_eq (xs : List Nat) (h : ∀ x ∈ xs, x < 4) (acc i : Nat) (hacc : acc < 4 ^ i)
    (hi : i + xs.length ≤ 32) : packAcc acc i xs = acc + 4 ^ i * hashLE 4 xs := by
  induction xs generalizing acc i with
  | nil => simp [packAcc, hashLE]
  | cons x xs ih =>
    have hx : x < 4 := h x (by simp)
    have hi' : i ≤ 31 := by simp at hi; omega
    have hle : 4 ^ (i + 1) ≤ 18446744073709551616 := by
      calc 4 ^ (i + 1) ≤ 4 ^ 32 := Nat.pow_le_pow_right (by omega) (by omega)
        _ = 18446744073709551616 := by decide
    have hxs : x * 4 ^ i + acc < 4 ^ (i + 1) := by
      rw [Nat.pow_succ]
      have : x * 4 ^ i ≤ 3 * 4 ^ i := Nat.mul_le_mul_right _ (by omega)
      omega
    have hw : word64 (x <<< (2 * i)) = x <<< (2 * i) := by
      unfold word64
      apply Nat.mod_eq_of_lt
      rw [Nat.shiftLeft_eq, four_pow]
      omega
    have hor : acc ||| x <<< (2 * i) = x * 4 ^ i + acc := by
      rw [Nat.or_comm, ← Nat.shiftLeft_add_eq_or_of_lt (by rw [four_pow]; exact hacc), Nat.shiftLeft_eq, four_pow]
    simp only [packAcc, hw, hor]
    rw [ih (fun y hy => h y (by simp [hy])) _ _ hxs (by simp at hi; omega)]
    simp only [hashLE, Nat.pow_succ]
    ring

theorem packWord_eq (chunk : List Nat) (h : ∀ x ∈ chunk, x < 4) (hl : chunk.length ≤ 32) :
    packWord chunk = hashLE 4 chunk := by
  unfold packWord
  rw [packAcc_eq chunk h 0 0 (by simp) (by omega)]
  simp

theorem pack_length (a : List Nat) : (pack a).length = (a.length + 31) / 32 := by simp [pack]

/-- register `r` is the base-4 number of letters `32r .. 32r+31` (0 beyond the data) -/
theorem pack_getD (a : List Nat) (h : ∀ x ∈ a, x < 4) (r : Nat) :
    (pack a).getD r 0 = hashLE 4 ((a.drop (32 * r)).take 32) := by
  rcases Nat.lt_or_ge r ((a.length + 31) / 32) with hr | hr
  · unfold pack
    rw [List.getD_eq_getElem?_getD, List.getElem?_map, List.getElem?_range hr]
    simp only [Option.map_some, Option.getD_some]
    exact packWord_eq _ (fun x hx => h x (List.mem_of_mem_drop (List.mem_of_mem_take hx))) (by simp)
  · have : (pack a).getD r 0 = 0 := by
      rw [List.getD_eq_getElem?_getD, List.getElem?_eq_none (by rw [pack_length]; exact hr)]; rfl
    rw [this, List.drop_eq_nil_of_le (by omega)]
    simp [hashLE]

/-! ### sliding -/

theorem windowMask_eq : ∀ k, k < 33 → windowMask k = 4 ^ k - 1 := by decide +kernel

theorem and_mask (x k : Nat) (hk : k < 33) : x &&& windowMask k = x % 4 ^ k := by
  rw [windowMask_eq k hk, ← four_pow, Nat.and_two_pow_sub_one_eq_mod]

/-- the two-register combination, as pure arithmetic -/
theorem slide_arith (w0 w1 i k : Nat) (hi : i < 32) (hk : k < 33) (hw0 : w0 < 4 ^ 32) :
    ((w0 >>> (2 * i)) ||| word64 (w1 <<< (64 - 2 * i))) &&& windowMask k = (w0 + 4 ^ 32 * w1) / 4 ^ i % 4 ^ k := by
  rw [and_mask _ _ hk]
  have hPQ : (4 : Nat) ^ i * 4 ^ (32 - i) = 4 ^ 32 := by rw [← Nat.pow_add]; congr 1; omega
  have hs : (2 : Nat) ^ (64 - 2 * i) = 4 ^ (32 - i) := by
    have : 64 - 2 * i = 2 * (32 - i) := by omega
    rw [this, four_pow]
  have h64 : (18446744073709551616 : Nat) = 4 ^ i * 4 ^ (32 - i) := by rw [hPQ]; decide
  have hP : 0 < 4 ^ i := Nat.pow_pos (by omega)
  -- the high part: (w1 * Q) mod (P * Q) = (w1 mod P) * Q
  have hhi : word64 (w1 <<< (64 - 2 * i)) = (w1 % 4 ^ i) <<< (64 - 2 * i) := by
    unfold word64
    rw [Nat.shiftLeft_eq, Nat.shiftLeft_eq, hs, h64, Nat.mul_mod_mul_right]
  -- the low part fits below the high part
  have hlo : w0 >>> (2 * i) < 2 ^ (64 - 2 * i) := by
    rw [Nat.shiftRight_eq_div_pow, four_pow, hs]
    apply Nat.div_lt_of_lt_mul
    rw [hPQ]; exact hw0
  rw [hhi, Nat.or_comm, ← Nat.shiftLeft_add_eq_or_of_lt hlo, Nat.shiftLeft_eq, hs, Nat.shiftRight_eq_div_pow, four_pow]
  -- right-hand side
  have e1 : (w0 + 4 ^ 32 * w1) / 4 ^ i = w0 / 4 ^ i + 4 ^ (32 - i) * w1 := by
    rw [← hPQ, Nat.mul_assoc, Nat.add_mul_div_left _ _ hP]
  rw [e1]
  have hk32 : (4 : Nat) ^ k * 4 ^ (32 - k) = 4 ^ 32 := by rw [← Nat.pow_add]; congr 1; omega
  have e2 : w0 / 4 ^ i + 4 ^ (32 - i) * w1 =
      (w1 % 4 ^ i * 4 ^ (32 - i) + w0 / 4 ^ i) + 4 ^ k * (4 ^ (32 - k) * (w1 / 4 ^ i)) := by
    have hw1 : w1 = 4 ^ i * (w1 / 4 ^ i) + w1 % 4 ^ i := (Nat.div_add_mod w1 (4 ^ i)).symm
    have : 4 ^ k * (4 ^ (32 - k) * (w1 / 4 ^ i)) = 4 ^ (32 - i) * (4 ^ i * (w1 / 4 ^ i)) := by
      rw [← Nat.mul_assoc, hk32, ← Nat.mul_assoc, Nat.mul_comm (4 ^ (32 - i)), hPQ]
    rw [this]
    conv => lhs; rw [hw1]
    ring
  rw [e2, Nat.add_mul_mod_self_left]

/-- every entry of the packed sliding window whose window fits in the data is the base-4 number of
that window -/
theorem slidingEntry_eq (a : List Nat) (h : ∀ x ∈ a, x < 4) (k : Nat) (hk : k ≤ 31) (j : Nat)
    (hj : j + k ≤ a.length) :
    slidingEntry k (pack a) (j / 32) (j % 32) = hashLE 4 ((a.drop j).take k) := by
  obtain ⟨r, hr⟩ : ∃ r, r = j / 32 := ⟨_, rfl⟩
  obtain ⟨i, hi⟩ : ∃ i, i = j % 32 := ⟨_, rfl⟩
  rw [← hr, ← hi]
  have hji : j = 32 * r + i := by omega
  have hi32 : i < 32 := by omega
  obtain ⟨Y, hY⟩ : ∃ Y, Y = a.drop (32 * r) := ⟨_, rfl⟩
  have hYlen : Y.length = a.length - 32 * r := by rw [hY, List.length_drop]
  have hYmem : ∀ x ∈ Y, x < 4 := fun x hx => h x (List.mem_of_mem_drop (hY ▸ hx))
  -- the two registers
  have hw0 : (pack a).getD r 0 = hashLE 4 (Y.take 32) := by rw [pack_getD a h r, hY]
  have hw1 : (pack a).getD (r + 1) 0 = hashLE 4 ((Y.drop 32).take 32) := by
    rw [pack_getD a h (r + 1), hY, List.drop_drop]
    congr 3
  -- the window inside the two-register text
  have hX : Y.take 64 = Y.take 32 ++ (Y.drop 32).take 32 := by
    have : (64 : Nat) = 32 + 32 := rfl
    rw [this, List.take_add]
  have hwin : (a.drop j).take k = ((Y.take 64).drop i).take k := by
    rw [List.drop_take, List.take_take, hY, List.drop_drop, Nat.min_eq_left (by omega), hji]
  have hXmem : ∀ x ∈ Y.take 64, x < 4 := fun x hx => hYmem x (List.mem_of_mem_take hx)
  have hXlen : i + k ≤ (Y.take 64).length := by rw [List.length_take, hYlen]; omega
  rw [hwin, hashLE_drop_take 4 _ hXmem i k hXlen, hX, hashLE_append]
  unfold slidingEntry
  simp only [hw0, hw1, pack_length]
  split
  · rename_i hnext
    have hfull : (Y.take 32).length = 32 := by rw [List.length_take, hYlen]; omega
    have hlt : hashLE 4 (Y.take 32) < 4 ^ 32 := by
      have := hashLE_lt 4 (Y.take 32) (fun x hx => hYmem x (List.mem_of_mem_take hx))
      rwa [hfull] at this
    rw [hfull]
    exact slide_arith _ _ i k hi32 (by omega) hlt
  · rename_i hnext
    have hempty : (Y.drop 32).take 32 = [] := by
      rw [List.drop_eq_nil_of_le (by rw [hYlen]; omega)]; rfl
    rw [hempty]
    simp only [hashLE, Nat.mul_zero, Nat.add_zero]
    rw [and_mask _ _ (by omega), Nat.shiftRight_eq_div_pow, four_pow]

/-- **the packed computation is the generic one**: for letters `< 4` and every `1 ≤ k ≤ 31`,
`BitArray.pack(a, 2).sliding_window(k)` is the list of little-endian base-4 numbers of the windows -/
theorem packedKmers_eq (a : List Nat) (h : ∀ x ∈ a, x < 4) (k : Nat) (hk1 : 1 ≤ k) (hk : k ≤ 31) :
    packedKmers k a = windows k (hashLE 4) a := by
  unfold packedKmers slidingWindow
  apply List.ext_getElem
  · simp only [List.length_take, List.length_map, List.length_range, pack_length, windows]
    omega
  · intro j h1 h2
    simp only [windows, List.length_map, List.length_range] at h2
    simp only [List.getElem_take, List.getElem_map, List.getElem_range, windows]
    exact slidingEntry_eq a h k hk j (by omega)

end C13
