/-! Run-length arrays `(events, values)` as npstructures / `GenomicRunLengthArray` keep them:
`events[0] = 0`, strictly increasing, `events.length = values.length + 1`; run `i` is
`[events[i], events[i+1])` with value `values[i]`. Dense meaning (`toDense`) and the code's
xor-diff / scatter / xor-accumulate expansion (`toArray`). Shared by C08 and C09. Import-free. -/
namespace Base.Rle

structure Rle (V : Type) where
  events : List Nat
  values : List V
deriving Repr, BEq

/-- expansion of consecutive runs: the *meaning* of a run-length array -/
def runs {V : Type} : List Nat → List V → List V
  | e0 :: e1 :: es, v :: vs => List.replicate (e1 - e0) v ++ runs (e1 :: es) vs
  | _, _ => []

def Rle.toDense {V : Type} (r : Rle V) : List V := runs r.events r.values

/-- well-formedness asserted by the `RunLengthArray` constructor -/
def Rle.WF {V : Type} (r : Rle V) : Prop :=
  r.events.length = r.values.length + 1 ∧ r.events.head? = some 0 ∧ r.events.Pairwise (· < ·)

instance {V : Type} (r : Rle V) : Decidable r.WF := by unfold Rle.WF; exact inferInstance

/-- `len(self)`: `ends[-1]`, or 0 when there is no run -/
def Rle.len {V : Type} (r : Rle V) : Nat :=
  match r.events with
  | [] => 0
  | [_] => 0
  | _ :: e :: es => (e :: es).getLast?.getD 0

/-- NumPy `array[idx] = vals` (successive writes; the last write to an index wins) -/
def scatter {V : Type} (arr : List V) (idx : List Nat) (vals : List V) : List V :=
  (idx.zip vals).foldl (fun a p => a.set p.1 p.2) arr

def accFrom {V : Type} (op : V → V → V) (acc : V) : List V → List V
  | [] => []
  | x :: xs => op acc x :: accFrom op (op acc x) xs

/-- `op.accumulate(array)` -/
def accumulate {V : Type} (op : V → V → V) : List V → List V
  | [] => []
  | x :: xs => x :: accFrom op x xs

/-- `GenomicRunLengthArray.to_array`: zeros, `array[starts[1:]] = values[:-1] xor values[1:]`,
`array[starts[0]] = values[0]`, xor-accumulate. `op`/`zero` are `xor`/`false` for booleans and
`Nat.xor`/`0` for integer and (viewed as unsigned) float bit patterns. -/
def Rle.toArray {V : Type} (op : V → V → V) (zero : V) (r : Rle V) : List V :=
  if r.len = 0 then [] else
  let starts := r.events.dropLast
  let diffs := List.zipWith op r.values.dropLast r.values.tail
  let a0 := List.replicate r.len zero
  let a1 := scatter a0 starts.tail diffs
  let a2 := match starts, r.values with
    | s0 :: _, v0 :: _ => a1.set s0 v0
    | _, _ => a1
  accumulate op a2

/-- `a[0::2] = x; a[1::2] = y` -/
def interleave {α : Type} : List α → List α → List α
  | a :: as, b :: bs => a :: b :: interleave as bs
  | _, _ => []

def tile2 {α : Type} (a b : α) : Nat → List α
  | 0 => []
  | n + 1 => a :: b :: tile2 a b n

/-- `GenomicRunLengthArray.from_intervals(starts, ends, size, values=v, default_value=dflt)` with a
scalar `values`: the optional `0` prefix / `size` postfix events and the tiled `[dflt, v]` values,
shifted by one when the first interval starts at 0, truncated to `len(events) - 1`. -/
def fromIntervals {V : Type} (S E : List Nat) (size : Nat) (v dflt : V) : Rle V :=
  let pre : List Nat := if S.head? = some 0 then [] else [0]
  let post : List Nat := if E.getLast? = some size then [] else [size]
  let events := pre ++ interleave S E ++ post
  let vals0 := tile2 dflt v (events.length / 2 + 1)
  let vals1 := if S.head? = some 0 then vals0.tail else vals0
  ⟨events, vals1.take (events.length - 1)⟩

end Base.Rle
