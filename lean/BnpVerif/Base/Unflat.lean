import BnpVerif.Base.Opt
/-! Re-wrapping a flat list by row lengths (`RaggedArray(data, lengths)`) and more `omap` lemmas
(flatten / reverse / take / drop / map / injectivity). Import-free apart from `Base.Opt`. -/
namespace Base

/-- re-wrap a flat list by row lengths -/
def unflatten {α} : List Nat → List α → List (List α)
  | [], _ => []
  | n :: ns, xs => xs.take n :: unflatten ns (xs.drop n)

theorem unflatten_flatten {α} (rows : List (List α)) :
    unflatten (rows.map List.length) rows.flatten = rows := by
  induction rows with
  | nil => simp [unflatten]
  | cons r rs ih => simp [unflatten, ih]

theorem unflatten_flatten_of_lengths {α} (lens : List Nat) (rows : List (List α))
    (h : rows.map List.length = lens) : unflatten lens rows.flatten = rows := by
  subst h; exact unflatten_flatten rows

theorem unflatten_length {α} (lens : List Nat) (xs : List α) : (unflatten lens xs).length = lens.length := by
  induction lens generalizing xs with
  | nil => simp [unflatten]
  | cons n ns ih => simp [unflatten, ih]

theorem omap_flatten {α β} (f : α → Option β) (rows : List (List α)) :
    omap f rows.flatten = (omap (omap f) rows).map List.flatten := by
  induction rows with
  | nil => simp
  | cons r rs ih =>
    simp only [List.flatten_cons, omap_append, ih, omap]
    cases omap f r <;> cases omap (omap f) rs <;> simp

theorem omap_reverse {α β} (f : α → Option β) (l : List α) :
    omap f l.reverse = (omap f l).map List.reverse := by
  induction l with
  | nil => simp
  | cons x xs ih =>
    simp only [List.reverse_cons, omap_append, ih, omap]
    cases f x <;> cases omap f xs <;> simp

theorem omap_map {α β γ} (g : β → Option γ) (h : α → β) (l : List α) :
    omap g (l.map h) = omap (fun a => g (h a)) l := by
  induction l with
  | nil => simp
  | cons x xs ih => simp only [List.map_cons, omap, ih]

/-- post-composing every element's result -/
theorem omap_comp_some {α β γ} (f : α → Option β) (f' : α → Option γ) (r : β → γ) (l : List α) (ys : List β)
    (hf : ∀ a ∈ l, f' a = (f a).map r) (h : omap f l = some ys) : omap f' l = some (ys.map r) := by
  induction l generalizing ys with
  | nil => simp at h; subst h; rfl
  | cons x xs ih =>
    obtain ⟨b, bs, hb, hbs, rfl⟩ := omap_cons_eq_some f x xs ys h
    have h1 : f' x = some (r b) := by rw [hf x (by simp), hb]; rfl
    exact omap_cons_some _ _ _ _ _ h1 (ih bs (fun a ha => hf a (by simp [ha])) hbs)

theorem omap_take {α β} (f : α → Option β) (l : List α) (r : List β) (n : Nat) (h : omap f l = some r) :
    omap f (l.take n) = some (r.take n) := by
  induction l generalizing r n with
  | nil => simp at h; subst h; simp
  | cons x xs ih =>
    obtain ⟨b, bs, hb, hbs, rfl⟩ := omap_cons_eq_some f x xs r h
    cases n with
    | zero => simp
    | succ n => simpa using omap_cons_some _ _ _ _ _ hb (ih bs n hbs)

theorem omap_drop {α β} (f : α → Option β) (l : List α) (r : List β) (n : Nat) (h : omap f l = some r) :
    omap f (l.drop n) = some (r.drop n) := by
  induction l generalizing r n with
  | nil => simp at h; subst h; simp
  | cons x xs ih =>
    obtain ⟨b, bs, hb, hbs, rfl⟩ := omap_cons_eq_some f x xs r h
    cases n with
    | zero => simpa using h
    | succ n => simpa using ih bs n hbs

theorem omap_getD {α β} (f : List α → Option (List β)) (hnil : f [] = some []) (l : List (List α)) (r : List (List β))
    (i : Nat) (h : omap f l = some r) : f (l.getD i []) = some (r.getD i []) := by
  induction l generalizing r i with
  | nil => simp at h; subst h; simpa using hnil
  | cons x xs ih =>
    obtain ⟨b, bs, hb, hbs, rfl⟩ := omap_cons_eq_some f x xs r h
    cases i with
    | zero => simpa using hb
    | succ i => simpa using ih bs i hbs

/-- results determine the arguments when `f` is injective on successful arguments -/
theorem omap_inj {α β} (f : α → Option β) (hinj : ∀ a a' b, f a = some b → f a' = some b → a = a')
    (l l' : List α) (r : List β) (h : omap f l = some r) (h' : omap f l' = some r) : l = l' := by
  induction l generalizing l' r with
  | nil =>
    simp at h; subst h
    cases l' with
    | nil => rfl
    | cons y ys =>
      obtain ⟨b, bs, _, _, hr⟩ := omap_cons_eq_some f y ys _ h'
      simp at hr
  | cons x xs ih =>
    obtain ⟨b, bs, hb, hbs, rfl⟩ := omap_cons_eq_some f x xs r h
    cases l' with
    | nil => simp at h'
    | cons y ys =>
      obtain ⟨b', bs', hb', hbs', hr⟩ := omap_cons_eq_some f y ys _ h'
      simp only [List.cons.injEq] at hr
      obtain ⟨rfl, rfl⟩ := hr
      rw [hinj x y b hb hb', ih ys bs hbs hbs']

theorem omap_mem {α β} (f : α → Option β) (l : List α) (r : List β) (h : omap f l = some r) :
    ∀ b ∈ r, ∃ a ∈ l, f a = some b := by
  induction l generalizing r with
  | nil => simp at h; subst h; simp
  | cons x xs ih =>
    obtain ⟨b, bs, hb, hbs, rfl⟩ := omap_cons_eq_some f x xs r h
    intro y hy
    simp only [List.mem_cons] at hy
    cases hy with
    | inl e => exact ⟨x, by simp, e ▸ hb⟩
    | inr e =>
      obtain ⟨a, ha, hfa⟩ := ih bs hbs y e
      exact ⟨a, by simp [ha], hfa⟩

/-- the rows of an `omap (omap f)` result have the lengths of the argument rows -/
theorem omap_omap_lengths {α β} (f : α → Option β) (rows : List (List α)) (out : List (List β))
    (h : omap (omap f) rows = some out) : out.map List.length = rows.map List.length := by
  induction rows generalizing out with
  | nil => simp at h; subst h; rfl
  | cons x xs ih =>
    obtain ⟨b, bs, hb, hbs, rfl⟩ := omap_cons_eq_some _ x xs out h
    simp [omap_length f x b hb, ih bs hbs]

end Base
