import BnpVerif.Base.Opt
/-! Python / NumPy index semantics as total functions from a length to a list of positions.
Core-only. -/
namespace Py
open Base

/-- one index: `i` in `[-len, len)` -/
def normIdx (len : Nat) (i : Int) : Option Nat :=
  if 0 ≤ i then (if i.toNat < len then some i.toNat else none)
  else (if (-i).toNat ≤ len then some (len - (-i).toNat) else none)

/-- `range(start, stop, step)` for `step ≠ 0`, as naturals (all members are in `[0, len)` when
produced by `sliceBounds`) -/
def rangeI (start stop step : Int) : Nat → List Nat
  | 0 => []
  | fuel+1 =>
    if (0 < step ∧ start < stop) ∨ (step < 0 ∧ start > stop) then
      start.toNat :: rangeI (start + step) stop step fuel
    else []

/-- CPython `PySlice_AdjustIndices`: clamp optional start/stop against `len` for the sign of `step` -/
def sliceBounds (len : Nat) (start stop : Option Int) (step : Int) : Int × Int :=
  let n : Int := len
  let lower : Int := if step < 0 then -1 else 0
  let upper : Int := if step < 0 then n - 1 else n
  let adj (v : Int) : Int :=
    let v := if v < 0 then v + n else v
    if v < lower then lower else if v > upper then upper else v
  let s := match start with
    | none => if step < 0 then upper else lower
    | some v => adj v
  let e := match stop with
    | none => if step < 0 then lower else upper
    | some v => adj v
  (s, e)

/-- positions selected by `a:b:step` on a sequence of length `len` (`step ≠ 0`) -/
def sliceIdx (len : Nat) (start stop : Option Int) (step : Int) : List Nat :=
  let (s, e) := sliceBounds len start stop step
  rangeI s e step (len + 1)

inductive Idx
  | int (i : Int)
  | slice (a b : Option Int) (s : Int)
  | mask (m : List Bool)
  | list (is : List Int)
deriving Repr

def maskPositions : Nat → List Bool → List Nat
  | _, [] => []
  | i, b :: bs => if b then i :: maskPositions (i + 1) bs else maskPositions (i + 1) bs

/-- the selected positions, in order; `none` = IndexError -/
def Idx.resolve (len : Nat) : Idx → Option (List Nat)
  | .int i => (normIdx len i).map (fun p => [p])
  | .slice a b s => if s = 0 then none else some (sliceIdx len a b s)
  | .mask m => if m.length = len then some (maskPositions 0 m) else none
  | .list is => omap (normIdx len) is

/-- gather the elements at the given positions (`none` if a position is out of range) -/
def pick {α} (l : List α) (pos : List Nat) : Option (List α) := omap (fun p => l[p]?) pos

theorem pick_map {α β} (f : α → β) (l : List α) (pos : List Nat) :
    pick (l.map f) pos = (pick l pos).map (List.map f) := by
  unfold pick
  induction pos with
  | nil => rfl
  | cons p ps ih =>
    simp only [omap]
    rw [ih, List.getElem?_map]
    cases l[p]? <;> cases omap (fun p => l[p]?) ps <;> simp

end Py
