/-! NumPy / Python first-axis index semantics as total functions to index lists
(specified external: NumPy `a[idx]` for idx an int, a slice, a boolean mask, a list of ints).
Import-free. Used by C04, C05, C07. -/
namespace PyIdx

/-- normalise a Python index against length `n` (`none` = IndexError) -/
def norm (n : Nat) (i : Int) : Option Nat :=
  if 0 ≤ i then (if i.toNat < n then some i.toNat else none)
  else (if (-i).toNat ≤ n then some (n - (-i).toNat) else none)

inductive Idx where
  | int (i : Int)
  | slice (a b : Option Int) (s : Int)
  | mask (m : List Bool)
  | ints (l : List Int)
  deriving Repr, DecidableEq

def clamp (lo hi x : Int) : Int := if x < lo then lo else if hi < x then hi else x

/-- `slice(a,b,s).indices(n)`: start -/
def sliceStart (n : Nat) (a : Option Int) (s : Int) : Int :=
  match a with
  | none => if 0 < s then 0 else (n : Int) - 1
  | some a =>
    let a' := if a < 0 then a + n else a
    if 0 < s then clamp 0 n a' else clamp (-1) ((n : Int) - 1) a'

/-- `slice(a,b,s).indices(n)`: stop -/
def sliceStop (n : Nat) (b : Option Int) (s : Int) : Int :=
  match b with
  | none => if 0 < s then n else -1
  | some b =>
    let b' := if b < 0 then b + n else b
    if 0 < s then clamp 0 n b' else clamp (-1) ((n : Int) - 1) b'

/-- `range(cur, stop, s)` for `s > 0`, fuel-indexed -/
def rangeUp (stop : Int) (s : Nat) : Nat → Int → List Nat
  | 0, _ => []
  | f + 1, cur => if cur < stop then cur.toNat :: rangeUp stop s f (cur + s) else []

/-- `range(cur, stop, -s)` for `s > 0`, fuel-indexed -/
def rangeDown (stop : Int) (s : Nat) : Nat → Int → List Nat
  | 0, _ => []
  | f + 1, cur => if stop < cur then cur.toNat :: rangeDown stop s f (cur - s) else []

/-- the positions a slice selects from an axis of length `n` (step 0 = ValueError = `none`) -/
def sliceList (n : Nat) (a b : Option Int) (s : Int) : Option (List Nat) :=
  if s = 0 then none
  else if 0 < s then some (rangeUp (sliceStop n b s) s.toNat (n + 1) (sliceStart n a s))
  else some (rangeDown (sliceStop n b s) (-s).toNat (n + 1) (sliceStart n a s))

def maskList : List Bool → Nat → List Nat
  | [], _ => []
  | true :: m, k => k :: maskList m (k + 1)
  | false :: m, k => maskList m (k + 1)

def normAll (n : Nat) : List Int → Option (List Nat)
  | [] => some []
  | i :: is =>
    match norm n i, normAll n is with
    | some k, some ks => some (k :: ks)
    | _, _ => none

/-- positions selected along an axis of length `n`; `none` = IndexError/ValueError -/
def Idx.toList (n : Nat) : Idx → Option (List Nat)
  | .int i => (norm n i).map (fun k => [k])
  | .slice a b s => sliceList n a b s
  | .mask m => if m.length = n then some (maskList m 0) else none
  | .ints l => normAll n l

/-- take the listed positions (positions out of range are dropped: never happens for `toList`) -/
def gather {α} (l : List α) (ixs : List Nat) : List α := ixs.filterMap (fun i => l[i]?)

/-- NumPy-style indexing of a Python list (the specification side) -/
def pyIndex {α} (l : List α) (ix : Idx) : Option (List α) := (ix.toList l.length).map (gather l)

/-! ### lemmas -/

theorem norm_lt {n : Nat} {i : Int} {k : Nat} (h : norm n i = some k) : k < n := by
  unfold norm at h
  split at h
  · split at h
    · simp at h; omega
    · simp at h
  · split at h
    · simp at h; omega
    · simp at h

theorem rangeUp_lt (stop : Int) (s : Nat) (n : Nat) (hstop : stop ≤ n) :
    ∀ (f : Nat) (cur : Int), 0 ≤ cur → ∀ k ∈ rangeUp stop s f cur, k < n := by
  intro f
  induction f with
  | zero => intro cur _ k hk; simp [rangeUp] at hk
  | succ f ih =>
    intro cur hcur k hk
    simp only [rangeUp] at hk
    split at hk
    · simp only [List.mem_cons] at hk
      cases hk with
      | inl h => omega
      | inr h => exact ih (cur + s) (by omega) k h
    · simp at hk

theorem rangeDown_lt (stop : Int) (s : Nat) (n : Nat) (hstop : -1 ≤ stop) :
    ∀ (f : Nat) (cur : Int), cur < n → ∀ k ∈ rangeDown stop s f cur, k < n := by
  intro f
  induction f with
  | zero => intro cur _ k hk; simp [rangeDown] at hk
  | succ f ih =>
    intro cur hcur k hk
    simp only [rangeDown] at hk
    split at hk
    · simp only [List.mem_cons] at hk
      cases hk with
      | inl h => omega
      | inr h => exact ih (cur - s) (by omega) k h
    · simp at hk

theorem maskList_lt : ∀ (m : List Bool) (k : Nat), ∀ i ∈ maskList m k, i < k + m.length := by
  intro m
  induction m with
  | nil => intro k i hi; simp [maskList] at hi
  | cons b m ih =>
    intro k i hi
    cases b with
    | true =>
      simp only [maskList, List.mem_cons] at hi
      cases hi with
      | inl h => simp; omega
      | inr h => have := ih (k + 1) i h; simp; omega
    | false =>
      simp only [maskList] at hi
      have := ih (k + 1) i hi; simp; omega

theorem normAll_lt (n : Nat) : ∀ (l : List Int) (ks : List Nat), normAll n l = some ks → ∀ k ∈ ks, k < n := by
  intro l
  induction l with
  | nil => intro ks h k hk; simp [normAll] at h; subst h; simp at hk
  | cons i is ih =>
    intro ks h k hk
    simp only [normAll] at h
    split at h
    · rename_i k0 ks0 h0 hs0
      simp at h; subst h
      simp only [List.mem_cons] at hk
      cases hk with
      | inl h => subst h; exact norm_lt h0
      | inr h => exact ih ks0 hs0 k h
    · simp at h

/-- every index form only ever selects positions inside the axis -/
theorem toList_lt (n : Nat) (ix : Idx) (ks : List Nat) (h : ix.toList n = some ks) : ∀ k ∈ ks, k < n := by
  cases ix with
  | int i =>
    simp only [Idx.toList] at h
    cases hn : norm n i with
    | none => simp [hn] at h
    | some k0 =>
      simp [hn] at h; subst h
      intro k hk; simp at hk; subst hk; exact norm_lt hn
  | slice a b s =>
    simp only [Idx.toList, sliceList] at h
    split at h
    · simp at h
    · split at h
      · rename_i hs
        simp at h; subst h
        apply rangeUp_lt _ _ n
        · unfold sliceStop; cases b with
          | none => simp [hs]
          | some b => simp only [hs, if_true]; unfold clamp; split <;> split <;> omega
        · unfold sliceStart; cases a with
          | none => simp [hs]
          | some a => simp only [hs, if_true]; unfold clamp; split <;> split <;> omega
      · rename_i hs0 hs
        simp at h; subst h
        apply rangeDown_lt _ _ n
        · unfold sliceStop; cases b with
          | none => simp [hs]
          | some b => simp only [hs, if_false]; unfold clamp; split <;> split <;> omega
        · unfold sliceStart; cases a with
          | none => simp [hs]; omega
          | some a => simp only [hs, if_false]; unfold clamp; split <;> split <;> omega
  | mask m =>
    simp only [Idx.toList] at h
    split at h
    · rename_i hl
      simp at h; subst h
      intro k hk; have := maskList_lt m 0 k hk; omega
    · simp at h
  | ints l =>
    simp only [Idx.toList] at h
    exact normAll_lt n l ks h

@[simp] theorem gather_nil {α} (l : List α) : gather l [] = [] := rfl

theorem gather_cons {α} (l : List α) (i : Nat) (is : List Nat) :
    gather l (i :: is) = (match l[i]? with | some x => x :: gather l is | none => gather l is) := by
  unfold gather
  simp only [List.filterMap_cons]
  cases l[i]? <;> rfl

theorem gather_map {α β} (f : α → β) (l : List α) (ixs : List Nat) :
    gather (l.map f) ixs = (gather l ixs).map f := by
  induction ixs with
  | nil => rfl
  | cons i is ih =>
    rw [gather_cons, gather_cons, ih]
    cases h : l[i]? <;> simp [h]

theorem gather_zipWith {α β γ} (f : α → β → γ) (a : List α) (b : List β) (hl : a.length = b.length)
    (ixs : List Nat) : gather (List.zipWith f a b) ixs = List.zipWith f (gather a ixs) (gather b ixs) := by
  induction ixs with
  | nil => rfl
  | cons i is ih =>
    rw [gather_cons, gather_cons, gather_cons, ih]
    by_cases hi : i < a.length
    · have hb : i < b.length := by omega
      simp [List.getElem?_zipWith, List.getElem?_eq_getElem hi, List.getElem?_eq_getElem hb]
    · have hb : ¬ i < b.length := by omega
      simp [List.getElem?_zipWith, List.getElem?_eq_none (Nat.le_of_not_lt hi), List.getElem?_eq_none (Nat.le_of_not_lt hb)]

theorem gather_length {α} (l : List α) (ixs : List Nat) (h : ∀ k ∈ ixs, k < l.length) :
    (gather l ixs).length = ixs.length := by
  induction ixs with
  | nil => rfl
  | cons i is ih =>
    rw [gather_cons]
    have hi : i < l.length := h i (by simp)
    simp [List.getElem?_eq_getElem hi, ih (fun k hk => h k (by simp [hk]))]

theorem mem_gather {α} (l : List α) (ixs : List Nat) (x : α) (h : x ∈ gather l ixs) : x ∈ l := by
  unfold gather at h
  simp only [List.mem_filterMap] at h
  obtain ⟨i, _, hi⟩ := h
  exact List.mem_of_getElem? hi

theorem pyIndex_map {α β} (f : α → β) (l : List α) (ix : Idx) : pyIndex (l.map f) ix = (pyIndex l ix).map (·.map f) := by
  unfold pyIndex
  rw [List.length_map]
  cases ix.toList l.length with
  | none => rfl
  | some ixs => simp [gather_map]

end PyIdx
