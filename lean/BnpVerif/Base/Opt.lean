/-! Option-valued map over lists with an induction-friendly definition (the element-wise
meaning of a NumPy lookup that may raise). Import-free. -/
namespace Base

/-- apply `f` to every element; `none` as soon as one element is rejected -/
def omap {α β} (f : α → Option β) : List α → Option (List β)
  | [] => some []
  | a :: as =>
    match f a, omap f as with
    | some b, some bs => some (b :: bs)
    | _, _ => none

@[simp] theorem omap_nil {α β} (f : α → Option β) : omap f [] = some [] := rfl

theorem omap_cons_some {α β} (f : α → Option β) (a : α) (as : List α) (b : β) (bs : List β)
    (ha : f a = some b) (has : omap f as = some bs) : omap f (a :: as) = some (b :: bs) := by
  simp [omap, ha, has]

theorem omap_cons_eq_some {α β} (f : α → Option β) (a : α) (as : List α) (r : List β)
    (h : omap f (a :: as) = some r) : ∃ b bs, f a = some b ∧ omap f as = some bs ∧ r = b :: bs := by
  simp only [omap] at h
  split at h
  · rename_i b bs hb hbs
    exact ⟨b, bs, hb, hbs, by simpa using h.symm⟩
  · simp at h

theorem omap_isSome_iff {α β} (f : α → Option β) (l : List α) :
    (omap f l).isSome ↔ ∀ a ∈ l, (f a).isSome := by
  induction l with
  | nil => simp
  | cons x xs ih =>
    simp only [omap, List.mem_cons, forall_eq_or_imp]
    cases hx : f x with
    | none => simp
    | some y =>
      cases hxs : omap f xs with
      | none => simp [← ih, hxs]
      | some ys => simp [← ih, hxs]

theorem omap_congr {α β} (f g : α → Option β) (l : List α)
    (h : ∀ a ∈ l, f a = g a) : omap f l = omap g l := by
  induction l with
  | nil => rfl
  | cons x xs ih =>
    simp only [omap, h x (by simp), ih (fun a ha => h a (by simp [ha]))]

theorem omap_some_map {α β} (f : α → Option β) (g : α → β) (l : List α)
    (h : ∀ a ∈ l, f a = some (g a)) : omap f l = some (l.map g) := by
  induction l with
  | nil => rfl
  | cons x xs ih =>
    simp [omap, h x (by simp), ih (fun a ha => h a (by simp [ha]))]

theorem omap_length {α β} (f : α → Option β) (l : List α) (r : List β) (h : omap f l = some r) :
    r.length = l.length := by
  induction l generalizing r with
  | nil => simp at h; subst h; rfl
  | cons x xs ih =>
    obtain ⟨b, bs, _, hbs, rfl⟩ := omap_cons_eq_some f x xs r h
    simp [ih bs hbs]

theorem omap_append {α β} (f : α → Option β) (l₁ l₂ : List α) :
    omap f (l₁ ++ l₂) = (match omap f l₁, omap f l₂ with
      | some a, some b => some (a ++ b)
      | _, _ => none) := by
  induction l₁ with
  | nil => cases h : omap f l₂ <;> simp [h]
  | cons x xs ih =>
    simp only [List.cons_append, omap, ih]
    cases f x <;> cases omap f xs <;> cases omap f l₂ <;> simp

theorem findIdx_congr {α} (p q : α → Bool) (l : List α) (h : ∀ a ∈ l, p a = q a) :
    l.findIdx p = l.findIdx q := by
  induction l with
  | nil => rfl
  | cons x xs ih =>
    simp only [List.findIdx_cons, h x (by simp), ih (fun a ha => h a (by simp [ha]))]

end Base
