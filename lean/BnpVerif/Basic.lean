def hello := "world"
