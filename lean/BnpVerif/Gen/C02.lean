import BnpVerif.Model.C02
/-! GENERATED on every run by harness/props/c02.py from the package imported from /repo: per-format column
schemas (dataclasses.fields of each buffer type's dataclass), delimiter, comment character, k-line layout, record
marker, and behaviourally measured coordinate shifts. Do not edit. -/
namespace Gen.C02
open _root_.C02

def bed3 : Schema := {
  cols := [("chromosome", "id"), ("start", "int"), ("stop", "int")],
  delim := 9, comment := 35, linesPerEntry := 1, lineOffsets := [], marker := 0, interiorComments := false }

def bed6 : Schema := {
  cols := [("chromosome", "id"), ("start", "int"), ("stop", "int"), ("name", "id"), ("score", "oint"), ("strand", "strand")],
  delim := 9, comment := 35, linesPerEntry := 1, lineOffsets := [], marker := 0, interiorComments := false }

def bed12 : Schema := {
  cols := [("chromosome", "id"), ("start", "int"), ("stop", "int"), ("name", "id"), ("score", "oint"), ("strand", "strand"), ("thick_start", "int"), ("thick_end", "int"), ("item_rgb", "str"), ("block_count", "int"), ("block_sizes", "ilist"), ("block_starts", "ilist")],
  delim := 9, comment := 35, linesPerEntry := 1, lineOffsets := [], marker := 0, interiorComments := false }

def bdg : Schema := {
  cols := [("chromosome", "id"), ("start", "int"), ("stop", "int"), ("value", "float")],
  delim := 9, comment := 35, linesPerEntry := 1, lineOffsets := [], marker := 0, interiorComments := false }

def narrowpeak : Schema := {
  cols := [("chromosome", "id"), ("start", "int"), ("stop", "int"), ("name", "id"), ("score", "oint"), ("strand", "strand"), ("signal_value", "float"), ("p_value", "float"), ("q_value", "float"), ("summit", "int")],
  delim := 9, comment := 35, linesPerEntry := 1, lineOffsets := [], marker := 0, interiorComments := false }

def sizes : Schema := {
  cols := [("name", "str"), ("size", "int")],
  delim := 9, comment := 35, linesPerEntry := 1, lineOffsets := [], marker := 0, interiorComments := false }

def gtf : Schema := {
  cols := [("chromosome", "id"), ("source", "str"), ("feature_type", "id"), ("start", "int"), ("stop", "int"), ("score", "str"), ("strand", "strand"), ("phase", "str"), ("atributes", "str")],
  delim := 9, comment := 35, linesPerEntry := 1, lineOffsets := [], marker := 0, interiorComments := false }

def gff : Schema := {
  cols := [("chromosome", "id"), ("source", "str"), ("feature_type", "id"), ("start", "int"), ("stop", "int"), ("score", "str"), ("strand", "strand"), ("phase", "str"), ("atributes", "str")],
  delim := 9, comment := 35, linesPerEntry := 1, lineOffsets := [], marker := 0, interiorComments := true }

def wig : Schema := {
  cols := [("chromosome", "id"), ("start", "int"), ("stop", "int"), ("value", "float")],
  delim := 9, comment := 35, linesPerEntry := 1, lineOffsets := [], marker := 0, interiorComments := true }

def pairs : Schema := {
  cols := [("read_id", "str"), ("chrom1", "id"), ("pos1", "int"), ("chrom2", "id"), ("pos2", "int"), ("strand1", "strand"), ("strand2", "strand")],
  delim := 9, comment := 35, linesPerEntry := 1, lineOffsets := [], marker := 0, interiorComments := false }

def sam : Schema := {
  cols := [("name", "id"), ("flag", "int"), ("chromosome", "id"), ("position", "int"), ("mapq", "int"), ("cigar", "str"), ("next_chromosome", "str"), ("next_position", "int"), ("length", "int"), ("sequence", "str"), ("quality", "str"), ("extra", "str")],
  delim := 9, comment := 64, linesPerEntry := 1, lineOffsets := [], marker := 0, interiorComments := false }

def gfa : Schema := {
  cols := [("name", "id"), ("sequence", "str")],
  delim := 9, comment := 35, linesPerEntry := 1, lineOffsets := [], marker := 0, interiorComments := false }

def vcf : Schema := {
  cols := [("chromosome", "id"), ("position", "int"), ("id", "str"), ("ref_seq", "str"), ("alt_seq", "str"), ("quality", "str"), ("filter", "str"), ("info", "info")],
  delim := 9, comment := 35, linesPerEntry := 1, lineOffsets := [], marker := 0, interiorComments := false }

def fasta : Schema := {
  cols := [("name", "id"), ("sequence", "str")],
  delim := 0, comment := 0, linesPerEntry := 0, lineOffsets := [], marker := 62, interiorComments := false }

def fasta2 : Schema := {
  cols := [("name", "id"), ("sequence", "str")],
  delim := 0, comment := 0, linesPerEntry := 2, lineOffsets := [1, 0], marker := 62, interiorComments := false }

def fastq : Schema := {
  cols := [("name", "id"), ("sequence", "str"), ("quality", "qual")],
  delim := 0, comment := 0, linesPerEntry := 4, lineOffsets := [1, 0, 0, 0], marker := 64, interiorComments := false }

def all : List (String × Schema) := [("bed3", bed3), ("bed6", bed6), ("bed12", bed12), ("bdg", bdg), ("narrowpeak", narrowpeak), ("sizes", sizes), ("gtf", gtf), ("gff", gff), ("wig", wig), ("pairs", pairs), ("sam", sam), ("gfa", gfa), ("vcf", vcf), ("fasta", fasta), ("fasta2", fasta2), ("fastq", fastq)]

def vcfPosShift : Int := -1
def bedStartShift : Int := 0
def samPosShift : Int := 0
def gtfStartShift : Int := 0
def fastaLineWidth : Int := 80

end Gen.C02
