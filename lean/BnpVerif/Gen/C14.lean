import BnpVerif.Model.C14
/-! GENERATED on every run by harness/props/c14.py from the package imported from /repo: behavioural
tabulation of `get_reverse_complement` on every one-symbol array of every DNA encoding (decode table and
complement table; `none` = raised / wrong shape) and of `translate_dna_to_protein` on all 64 codons in TCAG
order (0 = raised). Do not edit. -/
namespace Gen.C14
open _root_.C14

def ASCII : Tab := {
  dec := [0, 1, 2, 3, 4, 5, 6, 7, 8, 9, 10, 11, 12, 13, 14, 15, 16, 17, 18, 19, 20, 21, 22, 23, 24, 25, 26, 27, 28, 29, 30, 31, 32, 33, 34, 35, 36, 37, 38, 39, 40, 41, 42, 43, 44, 45, 46, 47, 48, 49, 50, 51, 52, 53, 54, 55, 56, 57, 58, 59, 60, 61, 62, 63, 64, 65, 66, 67, 68, 69, 70, 71, 72, 73, 74, 75, 76, 77, 78, 79, 80, 81, 82, 83, 84, 85, 86, 87, 88, 89, 90, 91, 92, 93, 94, 95, 96, 97, 98, 99, 100, 101, 102, 103, 104, 105, 106, 107, 108, 109, 110, 111, 112, 113, 114, 115, 116, 117, 118, 119, 120, 121, 122, 123, 124, 125, 126, 127],
  comp := [some 0, some 0, some 0, some 0, some 0, some 0, some 0, some 0, some 0, some 0, some 0, some 0, some 0, some 0, some 0, some 0, some 0, some 0, some 0, some 0, some 0, some 0, some 0, some 0, some 0, some 0, some 0, some 0, some 0, some 0, some 0, some 0, some 0, some 0, some 0, some 0, some 0, some 0, some 0, some 0, some 0, some 0, some 0, some 0, some 0, some 0, some 0, some 0, some 0, some 0, some 0, some 0, some 0, some 0, some 0, some 0, some 0, some 0, some 0, some 0, some 0, some 0, some 0, some 0, some 0, some 84, some 0, some 71, some 0, some 0, some 0, some 67, some 0, some 0, some 0, some 0, some 0, some 0, some 78, some 0, some 0, some 0, some 0, some 0, some 65, some 0, some 0, some 0, some 0, some 0, some 0, some 0, some 0, some 0, some 0, some 0, some 0, some 116, some 0, some 103, some 0, some 0, some 0, some 99, some 0, some 0, some 0, some 0, some 0, some 0, some 110, some 0, some 0, some 0, some 0, some 0, some 97, some 0, some 0, some 0, some 0, some 0, some 0, some 0, some 0, some 0, some 0, some 0] }

def ACGT : Tab := {
  dec := [65, 67, 71, 84],
  comp := [some 3, some 2, some 1, some 0] }

def ACGTN : Tab := {
  dec := [65, 67, 71, 84, 78],
  comp := [some 3, some 2, some 1, some 0, some 4] }

def ACTG : Tab := {
  dec := [65, 67, 84, 71],
  comp := [some 2, some 3, some 0, some 1] }

def ACTGN : Tab := {
  dec := [65, 67, 84, 71, 78],
  comp := [some 2, some 3, some 0, some 1, some 4] }

def all : List (String × Tab) := [("ASCII", ASCII), ("ACGT", ACGT), ("ACGTN", ACGTN), ("ACTG", ACTG), ("ACTGN", ACTGN)]

def codon : List Nat := [70, 70, 76, 76, 83, 83, 83, 83, 89, 89, 42, 42, 67, 67, 42, 87, 76, 76, 76, 76, 80, 80, 80, 80, 72, 72, 81, 81, 82, 82, 82, 82, 73, 73, 73, 77, 84, 84, 84, 84, 78, 78, 75, 75, 83, 83, 82, 82, 86, 86, 86, 86, 65, 65, 65, 65, 68, 68, 69, 69, 71, 71, 71, 71]

/-- `is_stranded()` of a derived interval object for a stranded / an unstranded original, per derivation -/
def giFlags : GFlags := { clip := ⟨true, false⟩, idx := ⟨true, false⟩, replace := ⟨true, false⟩, concat := ⟨true, false⟩, windows := ⟨true, false⟩ }

end Gen.C14
