/-! GENERATED on every run by harness/props/c17.py from the package imported from /repo: symbolic trace of the real
`IndexedFasta.get_interval_sequences` / `__getitem__` row/offset arithmetic (executed on symbolic index values `rlen offset
lenc lenb` and interval ends `a b` with a recording file object): the position passed to `seek`, the length passed to
`read`, the row length the code claims, the number of newline positions it deletes, the start column, the row count and
the bytes read for a whole contig; `trFast*` = the same quantities of the vectorised path `_get_interval_sequences_fast`
(string-encoded chromosomes), traced on symbolic columns of the looked-up index table. Do not edit. -/
set_option linter.unusedVariables false
namespace Gen.C17

def trSeek (a b rlen offset lenc lenb : Int) : Int :=
  (offset + (((Int.fdiv a lenc) * lenb) + (Int.fmod a lenc)))
def trReadLen (a b rlen offset lenc lenb : Int) : Int :=
  ((((Int.fdiv b lenc) * lenb) + (Int.fmod b lenc)) - (((Int.fdiv a lenc) * lenb) + (Int.fmod a lenc)))
def trRowLen (a b rlen offset lenc lenb : Int) : Int :=
  (((((Int.fdiv b lenc) * lenb) + (Int.fmod b lenc)) - (((Int.fdiv a lenc) * lenb) + (Int.fmod a lenc))) - ((Int.fdiv b lenc) - (Int.fdiv a lenc)))
def trNDel (a b rlen offset lenc lenb : Int) : Int :=
  ((Int.fdiv b lenc) - (Int.fdiv a lenc))
def trStartMod (a b rlen offset lenc lenb : Int) : Int :=
  (Int.fmod a lenc)
def trNRows (a b rlen offset lenc lenb : Int) : Int :=
  (Int.fdiv ((rlen + lenc) - 1) lenc)
def trBytesToRead (a b rlen offset lenc lenb : Int) : Int :=
  ((((Int.fdiv ((rlen + lenc) - 1) lenc) - 1) * lenb) + (rlen - (((Int.fdiv ((rlen + lenc) - 1) lenc) - 1) * lenc)))
def trFastSeek (a b rlen offset lenc lenb : Int) : Int :=
  (offset + (((Int.fdiv a lenc) * lenb) + (Int.fmod a lenc)))
def trFastReadLen (a b rlen offset lenc lenb : Int) : Int :=
  ((((Int.fdiv b lenc) * lenb) + (Int.fmod b lenc)) - (((Int.fdiv a lenc) * lenb) + (Int.fmod a lenc)))
def trFastNDel (a b rlen offset lenc lenb : Int) : Int :=
  ((Int.fdiv b lenc) - (Int.fdiv a lenc))
def trFastStartMod (a b rlen offset lenc lenb : Int) : Int :=
  (Int.fmod a lenc)
def trFastRowLen (a b rlen offset lenc lenb : Int) : Int :=
  (b - a)
/-- kernels that were really traced this run (the others fall back to the formula the proofs were written for) -/
def traced : List String := ["trSeek", "trReadLen", "trRowLen", "trNDel", "trStartMod", "trNRows", "trBytesToRead", "trFastSeek", "trFastReadLen", "trFastNDel", "trFastStartMod", "trFastRowLen"]

end Gen.C17
