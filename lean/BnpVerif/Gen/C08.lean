/-! GENERATED on every run by harness/props/c08.py: the element-wise kernels of `arithmetics.intervals.clip`,
`extend_to_size`, `Geometry.clip`, `Geometry.extend_to_size`, obtained by executing the real functions (package imported
from /repo) on symbolic columns and printing the recorded expression. `fwd` is `strand == "+"`. Do not edit. -/
set_option linter.unusedVariables false
namespace Gen.C08

def clipTraced : Bool := true
def clipStart (start stop size : Int) : Int := (max (0 : Int) start)
def clipStop (start stop size : Int) : Int := (min size stop)
def geoClipTraced : Bool := true
def geoClipStart (start stop size : Int) : Int := (max (0 : Int) start)
def geoClipStop (start stop size : Int) : Int := (min size stop)
def extTraced : Bool := true
def extStart (fwd : Bool) (start stop len size : Int) : Int := (if fwd = true then start else (stop - (min len stop)))
def extStop (fwd : Bool) (start stop len size : Int) : Int := (if fwd = true then (min (start + len) size) else stop)
def geoExtTraced : Bool := true
def geoExtStart (fwd : Bool) (start stop len size : Int) : Int := (if fwd = true then start else (stop - (min len stop)))
def geoExtStop (fwd : Bool) (start stop len size : Int) : Int := (if fwd = true then (min (start + len) size) else stop)

end Gen.C08
