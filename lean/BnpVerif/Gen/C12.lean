/-! GENERATED on every run by harness/props/c12.py from the package imported from /repo (behavioural probes of
`GenomeContext.chromosome_order`, `iter_chromosomes` and `SynchedStream.__iter__`). Do not edit. -/
namespace Gen.C12
/-- `chromosome_order()` leaves out included names that contain '_' -/
def orderSkipsUnderscore : Bool := false
/-- `iter_chromosomes` raises on a mis-ordered trailing group before handing out the last item -/
def iterLookahead : Bool := true
/-- `SynchedStream.__iter__` raises on a mis-ordered trailing group before handing out the last item -/
def syncLookahead : Bool := true
end Gen.C12
