import BnpVerif.Model.C16
/-! GENERATED on every run by harness/props/c16.py from the package imported from /repo (behavioural tabulation
through `bnp.open(file).read()` / `alignment_to_interval` on files written by the independent encoder). Do not edit. -/
namespace Gen.C16

/-- letters shown for CIGAR op codes 0..8 -/
def cigarLetters : List Nat := [77, 73, 68, 78, 83, 72, 80, 61, 88]
/-- letters shown for sequence codes 0..15 -/
def seqLetters : List Nat := [61, 65, 67, 77, 71, 82, 83, 86, 84, 87, 89, 72, 75, 68, 66, 78]
/-- does a single op of this code advance the reference? (codes 0..8) -/
def consumes : List Bool := [true, false, true, true, false, false, false, true, true]
/-- the op codes that advance the reference (positions of `true` above): what `count_reference_length` compares with -/
def consumingCodes : List Nat := [0, 2, 3, 7, 8]
/-- last 28 bytes of a file written by `bnp.open(f, 'w')` -/
def eofMarker : List Nat := [31, 139, 8, 4, 0, 0, 0, 0, 0, 255, 6, 0, 66, 67, 2, 0, 27, 0, 3, 0, 0, 0, 0, 0, 0, 0, 0, 0]
/-- does refID = -1 select the LAST reference name (shipped rule)? -/
def oldChrom : Bool := false
/-- does `n_cigar_op * 4` wrap at 2^16 (shipped rule)? -/
def oldCig : Bool := false
def probePad : Nat := 1100
def probeOffsets : List Nat := [4, 8, 9, 10, 11, 12, 13, 14, 15, 16, 17, 18, 19, 20, 21, 24, 25, 26, 27, 28, 29, 30, 31, 32, 33, 34, 35]
/-- per incremented byte offset: (ref index, pos, name length, mapq, #cigar ops, flag, seq length, qual length) -/
def probe : List (List Int) := [[1, 0, 0, 0, 0, 0, 0, 0], [0, 1, 0, 0, 0, 0, 0, 0], [0, 256, 0, 0, 0, 0, 0, 0], [0, 65536, 0, 0, 0, 0, 0, 0], [0, 16777216, 0, 0, 0, 0, 0, 0], [0, 0, 1, 0, 0, 0, 0, 0], [0, 0, 0, 1, 0, 0, 0, 0], [0, 0, 0, 0, 0, 0, 0, 0], [0, 0, 0, 0, 0, 0, 0, 0], [0, 0, 0, 0, 1, 0, 0, 0], [0, 0, 0, 0, 256, 0, 0, 0], [0, 0, 0, 0, 0, 1, 0, 0], [0, 0, 0, 0, 0, 256, 0, 0], [0, 0, 0, 0, 0, 0, 1, 1], [0, 0, 0, 0, 0, 0, 256, 256], [0, 0, 0, 0, 0, 0, 0, 0], [0, 0, 0, 0, 0, 0, 0, 0], [0, 0, 0, 0, 0, 0, 0, 0], [0, 0, 0, 0, 0, 0, 0, 0], [0, 0, 0, 0, 0, 0, 0, 0], [0, 0, 0, 0, 0, 0, 0, 0], [0, 0, 0, 0, 0, 0, 0, 0], [0, 0, 0, 0, 0, 0, 0, 0], [0, 0, 0, 0, 0, 0, 0, 0], [0, 0, 0, 0, 0, 0, 0, 0], [0, 0, 0, 0, 0, 0, 0, 0], [0, 0, 0, 0, 0, 0, 0, 0]]

end Gen.C16
