/-! GENERATED on every run by harness/props/c10.py from the package imported from /repo: symbolic traces of the real
`clip` / `extend_to_size` kernels (executed on symbolic columns; `own` = the size the code looked up for the row's own
chromosome, `other` = the size of the other row's chromosome) and the observed window flanks. Do not edit. -/
namespace Gen.C10

def clipGenomeS (s e L own other : Int) (fwd : Bool) : Int := (max (0 : Int) s)
def clipGenomeE (s e L own other : Int) (fwd : Bool) : Int := (min own e)
def clipGeometryS (s e L own other : Int) (fwd : Bool) : Int := (max (0 : Int) s)
def clipGeometryE (s e L own other : Int) (fwd : Bool) : Int := (min own e)
def extendGeometryS (s e L own other : Int) (fwd : Bool) : Int := (if fwd = true then s else (e - (min L e)))
def extendGeometryE (s e L own other : Int) (fwd : Bool) : Int := (if fwd = true then (min (s + L) own) else e)
def extendGenomeS (s e L own other : Int) (fwd : Bool) : Int := (if fwd = true then s else (e - (min L e)))
def extendGenomeE (s e L own other : Int) (fwd : Bool) : Int := (if fwd = true then (min (s + L) own) else e)
def locStart (s e : Int) (fwd : Bool) : Int := (if fwd = true then s else (e - (1 : Int)))
def locStop (s e : Int) (fwd : Bool) : Int := (if fwd = false then s else (e - (1 : Int)))
def locCenter (s e : Int) (fwd : Bool) : Int := ((s + e) / (2 : Int))
def locStartU (s e : Int) (fwd : Bool) : Int := s
def locCenterU (s e : Int) (fwd : Bool) : Int := ((s + e) / (2 : Int))
/-- kernels that were really traced this run (the others fall back to the hand model's formula) -/
def traced : List String := ["clipGenome", "clipGeometry", "extendGeometry", "extendGenome", "locStart", "locStop", "locCenter", "locStartU", "locCenterU"]
def flankTable : List (Nat × Int × Int) := [(0, 0, 1), (1, 1, 2), (2, 2, 3), (3, 3, 4), (4, 4, 5), (5, 5, 6), (6, 6, 7)]
def wsizeTable : List (Nat × Int × Int) := [(1, 0, 1), (2, 1, 1), (3, 1, 2), (4, 2, 2), (5, 2, 3), (6, 3, 3), (7, 3, 4), (8, 4, 4), (9, 4, 5), (10, 5, 5), (11, 5, 6), (12, 6, 6)]

end Gen.C10
