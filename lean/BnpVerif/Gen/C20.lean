/-! GENERATED on every run by harness/props/c20.py from the package imported from /repo: for every modelled in-place
write site, a probe call through the public entry with a special-path argument (also as a view of a larger array):
`true` = the call returned, the argument bytes were unchanged and a second call returned the same. Do not edit. -/
namespace Gen.C20

def sitesClean : List (String × Bool) := [("str_to_int", true), ("str_to_float", true), ("str_to_float_plain", true), ("str_to_float_with_missing", true), ("list_column", true), ("list_column_gz_chunks", true), ("single_list_column_no_final_newline", true), ("single_float_list_column_gz_chunks", true), ("GenotypeRowEncoding.encode", true), ("PhasedGenotypeRowEncoding.encode", true), ("genotype_column", true), ("merge_intervals", true)]

/-- np.shares_memory(source, result) of every tagged step of the heap programs (labels as in `C20.modelTags`) -/
def stepAliasing : List (String × Bool) := [("as_encoded_array(x) of an encoded ragged x", true), ("EncodedRaggedArray.copy()", false), ("ragged[bool mask], materialised", false), ("gather through RaggedView2 (field text of a file buffer)", false), ("gather of fields lying back to back (one-column list table, separators kept)", false), ("ragged.ravel() of contiguous data", true), ("ndarray basic slice a[:n]", true), ("np.maximum.accumulate(a)", false), ("table[bool mask] column", false), ("ndarray[bool mask]", false), ("np.bincount(a)", false), ("fresh ragged selection .copy() after ravel", false), ("str_to_int result", false), ("str_to_float result", false), ("merge_intervals result start/stop", false), ("GenotypeRowEncoding.encode result", false), ("VCF position column of a lazily read chunk, two accesses", false)]

end Gen.C20
