/-! GENERATED on every run by harness/props/c20.py from the package imported from /repo: for every modelled in-place
write site, a probe call through the public entry with a special-path argument (also as a view of a larger array):
`true` = the call returned, the argument bytes were unchanged and a second call returned the same. Do not edit. -/
namespace Gen.C20

def sitesClean : List (String × Bool) := [("str_to_int", true), ("str_to_float", true), ("str_to_float_plain", true), ("str_to_float_with_missing", true), ("list_column", true), ("list_column_gz_chunks", true), ("GenotypeRowEncoding.encode", true), ("PhasedGenotypeRowEncoding.encode", true), ("genotype_column", true), ("merge_intervals", true)]

end Gen.C20
