/-! C12 — per-chromosome streaming never silently drops or misattributes entries.

Python generators are modelled as explicit state machines with a `pull` step (run to the next
`yield`, to the end, or to a `raise`):
* `IterSt`  — `GenomeContext.iter_chromosomes` on top of `_included_groups(groupby(data))`,
* `SyncSt`  — `SynchedStream.__iter__` (`streams/multistream.py`),
* `LjSt`    — `left_join` (`streams/left_join.py`),
* `lookPull` — the one-item look-ahead put around the first two by the repair (the item is handed
  out only after the generator has been advanced once more, so the checks that sit after the last
  `yield` run before the last item is delivered),
and the consumers as functions of the `pull` step: `pullAll` (a `for` loop / `list(...)` /
`dict(...)`) and `zipAll` (Python's `zip`: pull left to right, stop at the first exhausted
iterator — also the evaluation order of the computation graph's `ComputationNode._get_buffer`).
Import-free. -/
namespace C12

abbrev Name := Nat
/-- what is handed out for one contig: the ids of the entries (`[]` = the empty table / default) -/
abbrev Item := List Nat

structure Group where
  name : Name
  items : Item
deriving DecidableEq, Repr, Inhabited

/-- result of one pull -/
inductive Step (σ : Type) where
  | yield (x : Item) (s : σ)
  | done
  | error
deriving Repr

/-! ## `groupby` over chunks + `join_groupbys` -/

/-- put one entry `(name, id)` in front of a group list -/
def consEntry (e : Name × Nat) : List Group → List Group
  | g :: t => if g.name = e.1 then { name := e.1, items := e.2 :: g.items } :: t
              else { name := e.1, items := [e.2] } :: g :: t
  | [] => [{ name := e.1, items := [e.2] }]

/-- groups of one chunk: maximal runs of equal contig name; entries are `(name, id)` -/
def chunkGroups (l : List (Name × Nat)) : List Group := l.foldr consEntry []

/-- put one group in front of an already joined group list -/
def joinOne (g : Group) : List Group → List Group
  | h :: t => if h.name = g.name then { name := g.name, items := g.items ++ h.items } :: t else g :: h :: t
  | [] => [g]

/-- `join_groupbys`: consecutive groups with the same key (across chunk borders) are concatenated -/
def joinGroups (l : List Group) : List Group := l.foldr joinOne []

/-- `get_ragged_changes` (change-point detection on a `str`-typed, ragged key column) for row `a` and the
flat data behind it, `b ++ after` (`b` = the next row): the positions of row `a` shifted by `len a` — clipped to
the last data position — are compared with row `a`, and a change of the row length is a change.
`useLen = false` is the rule without the length comparison. -/
def raggedChange (useLen : Bool) (a b after : List Nat) : Bool :=
  let rest := b ++ after
  (useLen && a.length != b.length) ||
    (List.range a.length).any (fun j => a.getD j 0 != rest.getD j (rest.getLast?.getD 0))

/-- the grouped stream of a chunked data stream -/
def groupsOfChunks (chunks : List (List (Name × Nat))) : List Group :=
  joinGroups (chunks.map chunkGroups).flatten

/-! ## `iter_chromosomes` -/

/-- `next(self._included_groups(grouped), None)`: skip ignored names, raise on a name that is not
included; returns the group (or `none` at the end) and the rest of the source -/
def nextIncluded (included ignored : List Name) : List Group → Option (Option Group × List Group)
  | [] => some (none, [])
  | g :: r =>
    if ignored.contains g.name then nextIncluded included ignored r
    else if included.contains g.name then some (some g, r)
    else none

inductive Phase where
  | start                       -- nothing run yet
  | afterGroup (name : Name)    -- suspended at `yield next_group`
  | afterEmpty (name : Name)    -- suspended at `yield dataclass.empty()`
deriving DecidableEq, Repr

structure IterSt where
  order : List Name             -- names of `real_order` not yet served
  included : List Name
  ignored : List Name
  src : List Group              -- groups not yet pulled from `grouped`
  next : Option Group           -- `(next_name, next_group)`
  seen : List Name
  phase : Phase
deriving Repr

def IterSt.init (order included ignored : List Name) (gs : List Group) : IterSt :=
  { order := order, included := included, ignored := ignored, src := gs, next := none, seen := [], phase := .start }

/-- from the top of `for name in real_order` to the next `yield`; after the loop the trailing check -/
def IterSt.serve (s : IterSt) : Step IterSt :=
  match s.order with
  | [] =>
    match nextIncluded s.included s.ignored s.src with
    | some (none, _) => .done
    | _ => .error
  | name :: rest =>
    match s.next with
    | some g =>
      if g.name = name then .yield g.items { s with order := rest, phase := .afterGroup name }
      else .yield [] { s with order := rest, phase := .afterEmpty name }
    | none => .yield [] { s with order := rest, phase := .afterEmpty name }

def IterSt.pull (s : IterSt) : Step IterSt :=
  match s.phase with
  | .start =>
    match nextIncluded s.included s.ignored s.src with
    | none => .error
    | some (nx, src') => IterSt.serve { s with next := nx, src := src' }
  | .afterGroup name =>
    match nextIncluded s.included s.ignored s.src with
    | none => .error
    | some (nx, src') =>
      if (match nx with | some g => s.seen.contains g.name || g.name == name | none => false) then .error
      else IterSt.serve { s with next := nx, src := src', seen := s.seen ++ [name] }
  | .afterEmpty name => IterSt.serve { s with seen := s.seen ++ [name] }


/-- the rule shipped before the repair f720bbc: a group repeating the chromosome that was just handed out is not noticed -/
def IterSt.pullOld (s : IterSt) : Step IterSt :=
  match s.phase with
  | .afterGroup name =>
    match nextIncluded s.included s.ignored s.src with
    | none => .error
    | some (nx, src') =>
      if (match nx with | some g => s.seen.contains g.name | none => false) then .error
      else IterSt.serve { s with next := nx, src := src', seen := s.seen ++ [name] }
  | _ => s.pull

/-! ## `SynchedStream.__iter__` -/

structure SyncSt where
  order : List Name             -- `contig_order`
  rest : List Name              -- `contig_order[cur_contig_idx:]`
  seen : List Name              -- `seen_contig_names`
  src : List Group
  cur : Option Group            -- the group being placed (inside the `while` loop)
  tail : Bool                   -- the `for` loop over the groups has ended
deriving Repr

def SyncSt.init (order : List Name) (gs : List Group) : SyncSt :=
  { order := order, rest := order, seen := [], src := gs, cur := none, tail := false }

/-- the `while` loop and the `if name == contig_order[cur_contig_idx]` below it, for the group `g`
(`contig_order[cur_contig_idx]` is the head of `rest`; past the end it is an `IndexError`) -/
def SyncSt.place (s : SyncSt) (g : Group) : Step SyncSt :=
  match s.rest with
  | n :: rest' =>
    if g.name ≠ n then .yield [] { s with seen := s.seen ++ [n], rest := rest', cur := some g }
    else .yield g.items { s with seen := s.seen ++ [n], rest := rest', cur := none }
  | [] => .error

def SyncSt.pull (s : SyncSt) : Step SyncSt :=
  match s.cur with
  | some g => s.place g
  | none =>
    if s.tail then
      (match s.rest with
        | _ :: r => .yield [] { s with rest := r }
        | [] => .done)
    else
      match s.src with
      | g :: r =>
        if s.seen.contains g.name then .error
        else if !s.order.contains g.name then .error
        else SyncSt.place { s with src := r } g
      | [] =>
        match s.rest with
        | _ :: r => .yield [] { s with rest := r, tail := true }
        | [] => .done

/-! ## `left_join` -/

structure LjSt where
  left : List Name
  right : List Group
  nr : Option Group             -- `(name_right, data_right)`
  started : Bool
deriving Repr

def LjSt.init (left : List Name) (gs : List Group) : LjSt :=
  { left := left, right := gs, nr := none, started := false }

def LjSt.body (s : LjSt) : Step LjSt :=
  match s.left with
  | [] => if s.nr.isNone && s.right.isEmpty then .done else .error
  | n :: rest =>
    match s.nr with
    | some g =>
      if g.name = n then .yield g.items { s with left := rest, nr := s.right.head?, right := s.right.tail }
      else .yield [] { s with left := rest }
    | none => .yield [] { s with left := rest }

def LjSt.pull (s : LjSt) : Step LjSt :=
  if s.started then s.body
  else LjSt.body { s with nr := s.right.head?, right := s.right.tail, started := true }

/-! ## one-item look-ahead (the repair) -/

inductive Hold where
  | fresh                       -- nothing pulled yet
  | holding (x : Item)          -- `x` was pulled from the inner generator and not handed out yet
  | last                        -- the last item has been handed out
deriving DecidableEq, Repr

/-- `prev = next(it); for item in it: yield prev; prev = item` … `yield prev` -/
def lookPull {σ : Type} (pull : σ → Step σ) : σ × Hold → Step (σ × Hold)
  | (s, .fresh) =>
    match pull s with
    | .error => .error
    | .done => .done
    | .yield x s₁ =>
      match pull s₁ with
      | .error => .error
      | .done => .yield x (s₁, .last)
      | .yield y s₂ => .yield x (s₂, .holding y)
  | (s, .holding y) =>
    match pull s with
    | .error => .error
    | .done => .yield y (s, .last)
    | .yield z s₂ => .yield y (s₂, .holding z)
  | (_, .last) => .done

/-! ## consumers -/

/-- a `for` loop / `list(...)`: pull until the generator ends; `none` = an exception was raised -/
def pullAll {σ : Type} (pull : σ → Step σ) : Nat → σ → Option (List Item)
  | 0, _ => none
  | f + 1, s =>
    match pull s with
    | .error => none
    | .done => some []
    | .yield x s' => (pullAll pull f s').map (x :: ·)

/-- the first `n` items, for a consumer that never comes back after the `n`-th -/
def takeN {σ : Type} (pull : σ → Step σ) : Nat → σ → Option (List Item × σ)
  | 0, s => some ([], s)
  | n + 1, s =>
    match pull s with
    | .yield x s' => (takeN pull n s').map (fun r => (x :: r.1, r.2))
    | _ => none

/-- the iterators that can be arguments of one `zip` -/
inductive M where
  | iter (s : IterSt)
  | lookIter (s : IterSt) (h : Hold)
  | sync (s : SyncSt)
  | lookSync (s : SyncSt) (h : Hold)
  | plain (l : List Item)

def M.pull : M → Step M
  | .iter s => match s.pull with
    | .yield x s' => .yield x (.iter s') | .done => .done | .error => .error
  | .lookIter s h => match lookPull IterSt.pull (s, h) with
    | .yield x s' => .yield x (.lookIter s'.1 s'.2) | .done => .done | .error => .error
  | .sync s => match s.pull with
    | .yield x s' => .yield x (.sync s') | .done => .done | .error => .error
  | .lookSync s h => match lookPull SyncSt.pull (s, h) with
    | .yield x s' => .yield x (.lookSync s'.1 s'.2) | .done => .done | .error => .error
  | .plain [] => .done
  | .plain (x :: r) => .yield x (.plain r)

inductive Round where
  | row (xs : List Item) (ms : List M)
  | stop
  | error

/-- one round of `zip`: pull the iterators left to right, stop at the first exhausted one
(the iterators to its right are not pulled) -/
def zipRound : List M → Round
  | [] => .row [] []
  | m :: r =>
    match m.pull with
    | .error => .error
    | .done => .stop
    | .yield x m' =>
      match zipRound r with
      | .row xs ms => .row (x :: xs) (m' :: ms)
      | .stop => .stop
      | .error => .error

/-- `list(zip(*iterators))`; `none` = an exception was raised -/
def zipAll : Nat → List M → Option (List (List Item))
  | 0, _ => none
  | f + 1, ms =>
    match zipRound ms with
    | .error => none
    | .stop => some []
    | .row xs ms' => (zipAll f ms').map (xs :: ·)


/-- at most `k` items of a generator: what a consumer sees that stops asking after `k` items (no pull `k+1`) -/
def pullUpTo {σ : Type} (pull : σ → Step σ) : Nat → σ → Option (List Item)
  | 0, _ => some []
  | k + 1, s =>
    match pull s with
    | .error => none
    | .done => some []
    | .yield x s' => (pullUpTo pull k s').map (x :: ·)

/-- the computation graph's evaluation of `get_mask()/get_track(..).get_data()` of a streamed array over `n` contigs:
at every index the chromosome-name stream is pulled first, then the data stream, then the chromosome sizes
(`ComputationNode._get_buffer` evaluates its arguments left to right and ends at the first `StopIteration`);
the result is the data column of the completed rows -/
def graphColumn (fuel n : Nat) (data : M) : Option (List Item) :=
  (zipAll fuel [.plain (List.replicate n []), data, .plain (List.replicate n [])]).map
    (fun rows => rows.map (fun r => r.getD 1 []))

/-! ## specification -/

/-- the items of the contig `n`: the (first) group carrying that name, or the empty table -/
def itemsOf (gs : List Group) (n : Name) : Item :=
  match gs.find? (fun g => g.name = n) with
  | some g => g.items
  | none => []

/-- the data names `l` occur in an order compatible with `order`: `l` is a subsequence of it -/
def compatible : List Name → List Name → Bool
  | [], _ => true
  | _ :: _, [] => false
  | a :: l, b :: order => if a = b then compatible l order else compatible (a :: l) order

/-- what the property demands of one synchronised stream: every contig of `order` gets exactly the
entries carrying its name (or the empty table); `none` (= an error must be raised) when the data
names a contig that is neither in `order` nor ignored or when the order of the contigs in the data
is incompatible with `order` -/
def specSync (order ignored : List Name) (gs : List Group) : Option (List Item) :=
  let kept := gs.filter (fun g => !ignored.contains g.name)
  if compatible (kept.map (·.name)) order then some (order.map (itemsOf kept)) else none

end C12
