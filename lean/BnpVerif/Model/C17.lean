import BnpVerif.Model.C18
/-! C17 — indexed FASTA random access (`bionumpy/io/indexed_fasta.py`, `FastaIdxBuffer.get_data`
in `multiline_buffer.py`). Executable model of the index builder (line scan with byte offsets),
the faidx-style lookup (`read_index`: first word of the name column), `get_contig_lengths`
(repaired rule and the rule shipped before the repair), the whole-contig read (row/column reshape)
and the interval read (row/mod arithmetic, newline bytes deleted), plus the specification
(wrapped layout, true sequences). Core-only imports.

Externals: the OS file (`seek(p); read(n)` = `(file.drop p).take n`; `readinto` a zero-filled
buffer), NumPy `reshape`, column slice, `ravel`, `delete`. LF line ends only (CRLF FASTA is outside
the property's quantifier). -/
namespace C17

abbrev Bytes := List Nat

/-! ### Specification: records and the wrapped layout -/

structure Rec where
  header : Bytes          -- text after '>' (name, optionally followed by a description)
  seq : Bytes
  width : Nat             -- line width W ≥ 1 used to wrap this record

/-- `seq` wrapped at `W` bases per line, every line (the last one too) followed by `'\n'` -/
def wrapBytes (W : Nat) (seq : Bytes) : Bytes :=
  if _h : seq = [] ∨ W = 0 then [] else
    seq.take W ++ 10 :: wrapBytes W (seq.drop W)
termination_by seq.length
decreasing_by
  have : seq.length ≠ 0 := fun hc => _h (Or.inl (List.eq_nil_of_length_eq_zero hc))
  simp only [List.length_drop]; omega

def recBytes (r : Rec) : Bytes := 62 :: r.header ++ 10 :: wrapBytes r.width r.seq

def fileOf (rs : List Rec) : Bytes := (rs.map recBytes).flatten

/-- byte position of base `i` inside the wrapped block -/
def posOf (W i : Nat) : Nat := (i / W) * (W + 1) + i % W

/-- ASCII whitespace as Python's `str.split()` sees it: space, `\t \n \v \f \r`, `\x1c`–`\x1f` -/
def isWs (b : Nat) : Bool := b == 32 || (decide (9 ≤ b) && decide (b ≤ 13)) || (decide (28 ≤ b) && decide (b ≤ 31))

/-- first whitespace-delimited word (`str.split()[0]` on a name without leading blanks) -/
def firstWord (h : Bytes) : Bytes := h.takeWhile (fun b => !isWs b)

structure IdxRow where
  name : Bytes
  rlen : Nat
  offset : Nat
  lenc : Nat
  lenb : Nat
deriving DecidableEq, Repr

/-- what the property says the index lists: name, true length, byte offset of the first base, bases
per line, bytes per line (both of the record's first sequence line, as `samtools faidx`) -/
def specIndexFrom (off : Nat) : List Rec → List IdxRow
  | [] => []
  | r :: rs =>
    let start := off + r.header.length + 2
    ⟨r.header, r.seq.length, start, min r.width r.seq.length, min r.width r.seq.length + 1⟩ ::
      specIndexFrom (start + (wrapBytes r.width r.seq).length) rs

def specIndex (rs : List Rec) : List IdxRow := specIndexFrom 0 rs

/-- records separated by blank lines: each record is followed by `k` empty lines (accepted by
`samtools faidx` and by the library's sequential reader) -/
def fileOfB (rs : List (Rec × Nat)) : Bytes := (rs.map (fun p => recBytes p.1 ++ List.replicate p.2 10)).flatten

/-- the index rows of a blank-line-separated file: the empty lines only move the later offsets -/
def specIndexFromB (off : Nat) : List (Rec × Nat) → List IdxRow
  | [] => []
  | (r, k) :: rs =>
    let start := off + r.header.length + 2
    ⟨r.header, r.seq.length, start, min r.width r.seq.length, min r.width r.seq.length + 1⟩ ::
      specIndexFromB (start + (wrapBytes r.width r.seq).length + k) rs

/-! ### Model of the code -/

/-- split at `'\n'`; the piece after the last newline is dropped when empty -/
def linesAux (cur : Bytes) : Bytes → List Bytes
  | [] => if cur = [] then [] else [cur.reverse]
  | b :: bs => if b = 10 then cur.reverse :: linesAux [] bs else linesAux (b :: cur) bs

def linesOf (bs : Bytes) : List Bytes := linesAux [] bs

def isHeader (l : Bytes) : Bool := l.head? == some 62

theorem length_dropWhile_le {α} (p : α → Bool) (l : List α) : (l.dropWhile p).length ≤ l.length := by
  induction l with
  | nil => simp
  | cons x xs ih => simp only [List.dropWhile_cons]; split <;> simp <;> omega

/-- `FastaIdxBuffer.get_data`, line by line with the running byte offset: for each header line,
the sequence lines up to the next header; length = total of their lengths, start = byte offset of
the first sequence line, characters per line = its length, line length = that + 1 -/
def indexLines (off : Nat) (lines : List Bytes) : List IdxRow :=
  match lines with
  | [] => []
  | h :: rest =>
    let seqLines := rest.takeWhile (fun l => !isHeader l)
    let after := rest.dropWhile (fun l => !isHeader l)
    let start := off + h.length + 1
    let first := seqLines.headD []
    ⟨h.drop 1, (seqLines.map List.length).sum, start, first.length, first.length + 1⟩ ::
      indexLines (start + (seqLines.map (fun l => l.length + 1)).sum) after
termination_by lines.length
decreasing_by
  simp only [List.length_cons]
  have := length_dropWhile_le (fun l => !isHeader l) rest
  omega

/-- `FastaIdxBuffer.get_data` over the whole file (one chunk): the name column is the full header -/
def buildIndex (file : Bytes) : List IdxRow := indexLines 0 (linesOf file)

/-- `create_index(filename)` as shipped before the repair: the full header line (name and
description) went into the name column of the written `.fai` -/
def createIndexOld (file : Bytes) : List IdxRow := buildIndex file

/-- `create_index(filename)` as repaired: the name column is the first word of the header -/
def createIndex (file : Bytes) : List IdxRow :=
  (buildIndex file).map (fun r => { r with name := firstWord r.name })

/-- `read_index`: rows keyed by the first word of the name column -/
def lookup (idx : List IdxRow) (name : Bytes) : Option IdxRow :=
  idx.find? (fun r => firstWord r.name == name)

/-- `get_contig_lengths` as repaired: the sequence length -/
def contigLengths (idx : List IdxRow) : List (Bytes × Nat) := idx.map (fun r => (firstWord r.name, r.rlen))

/-- `get_contig_lengths` as shipped before the repair: the bases-per-line column -/
def contigLengthsOld (idx : List IdxRow) : List (Bytes × Nat) := idx.map (fun r => (firstWord r.name, r.lenc))

/-! ### the `.fai` file: written by `IndexBuffer`, read back by `read_index` and `Genome.from_file` -/

/-- one line of the written index: name and the four integer columns (formatted by
`ints_to_strings`; column-wise in the code, which is element-wise by `C18.batch_independent`),
tab-separated -/
def faiLine (r : IdxRow) : Bytes :=
  List.intercalate [9] (r.name :: C18.intsToStrings [(r.rlen : Int), (r.offset : Int), (r.lenc : Int), (r.lenb : Int)]) ++ [10]

def faiText (idx : List IdxRow) : Bytes := (idx.map faiLine).flatten

/-- `read_index`: `line.split("\t")` must give five fields; name = first word; `int(...)` -/
def parseFaiLine (l : Bytes) : Option IdxRow :=
  match C18.split l 9 with
  | [n, a, b, c, d] =>
    match C18.specNat a, C18.specNat b, C18.specNat c, C18.specNat d with
    | some a, some b, some c, some d => some ⟨firstWord n, a, b, c, d⟩
    | _, _, _, _ => none
  | _ => none

def readIndex (text : Bytes) : Option (List IdxRow) := Base.omap parseFaiLine (linesOf text)

/-- `str.split()`: maximal runs of non-whitespace -/
def wordsAux (cur : Bytes) : Bytes → List Bytes
  | [] => if cur = [] then [] else [cur.reverse]
  | b :: bs =>
    if isWs b then (if cur = [] then wordsAux [] bs else cur.reverse :: wordsAux [] bs)
    else wordsAux (b :: cur) bs

def words (s : Bytes) : List Bytes := wordsAux [] s

/-- `Genome.from_file` on a `.fai`: `name, length = line.split()[:2]`, `int(length)` -/
def genomeSizes (text : Bytes) : Option (List (Bytes × Nat)) :=
  Base.omap (fun l => match words l with
    | n :: len :: _ => match C18.specNat len with
      | some v => some (n, v)
      | none => none
    | _ => none) (linesOf text)

/-- `create_index` over several chunks: each chunk indexed on its own, starts shifted by the total
size of the chunks before it (`offsets = cumsum([0] + byte sizes)`) -/
def createIndexChunkedFrom (off : Nat) : List Bytes → List IdxRow
  | [] => []
  | c :: cs =>
    (buildIndex c).map (fun r => { r with name := firstWord r.name, offset := r.offset + off }) ++
      createIndexChunkedFrom (off + c.length) cs

def createIndexChunked (chunks : List Bytes) : List IdxRow := createIndexChunkedFrom 0 chunks

/-- `f.seek(p); f.read(n)` -/
def readAt (file : Bytes) (p n : Nat) : Bytes := (file.drop p).take n

/-- `data.reshape(n_rows, lenb)[:, :lenc].ravel()` on a flat buffer -/
def reshapeCols (lenb lenc : Nat) : Nat → Bytes → Bytes
  | 0, _ => []
  | n + 1, data => (data.take lenb).take lenc ++ reshapeCols lenb lenc n (data.drop lenb)

/-- `IndexedFasta.__getitem__` -/
def fetchContig (file : Bytes) (r : IdxRow) : Bytes :=
  let nRows := (r.rlen + r.lenc - 1) / r.lenc
  let bytesToRead := (nRows - 1) * r.lenb + (r.rlen - (nRows - 1) * r.lenc)
  let got := readAt file r.offset bytesToRead
  let data := got ++ List.replicate (r.lenb * nRows - got.length) 0
  (reshapeCols r.lenb r.lenc nRows data).take r.rlen

/-- `np.delete(arr, idxs)` -/
def deleteIdxFrom (idxs : List Nat) (i : Nat) : Bytes → Bytes
  | [] => []
  | x :: xs => if idxs.contains i then deleteIdxFrom idxs (i + 1) xs else x :: deleteIdxFrom idxs (i + 1) xs

def deleteIdx (l : Bytes) (idxs : List Nat) : Bytes := deleteIdxFrom idxs 0 l

/-- `np.delete(arr, idxs)` with NumPy's bounds check: an index `≥ len(arr)` raises IndexError (`none`) -/
def deleteChecked (l : Bytes) (idxs : List Nat) : Option Bytes :=
  if idxs.all (fun i => decide (i < l.length)) then some (deleteIdx l idxs) else none

/-- the newline positions the code deletes from the bytes it read -/
def newlineIdxs (r : IdxRow) (a b : Nat) : List Nat :=
  (List.range (b / r.lenc - a / r.lenc)).map (fun j => r.lenb * (j + 1) - 1 - a % r.lenc)

/-- the bytes the code reads for `[a, b)` -/
def rawRead (file : Bytes) (r : IdxRow) (a b : Nat) : Bytes :=
  (file.drop (r.offset + (a / r.lenc * r.lenb + a % r.lenc))).take
    ((b / r.lenc * r.lenb + b % r.lenc) - (a / r.lenc * r.lenb + a % r.lenc))

/-- interval fetch with the IndexError of `np.delete` modelled, as shipped before the repair -/
def fetchIntervalOld (file : Bytes) (r : IdxRow) (a b : Nat) : Option Bytes :=
  deleteChecked (rawRead file r a b) (newlineIdxs r a b)

/-- … as repaired: a last newline position equal to the number of bytes read (a full last line at the
end of a file without final newline) is dropped -/
def fetchIntervalChecked (file : Bytes) (r : IdxRow) (a b : Nat) : Option Bytes :=
  let raw := rawRead file r a b
  let idxs := newlineIdxs r a b
  deleteChecked raw (if idxs.getLast? = some raw.length then idxs.dropLast else idxs)

/-- `pre_alloc[off : off + len(piece)] = piece` -/
def writeAt (buf : Bytes) (off : Nat) (piece : Bytes) : Bytes :=
  buf.take off ++ piece ++ buf.drop (off + piece.length)

/-- the pieces written one after the other at the offsets `cumsum(lengths)` -/
def fillPieces (buf : Bytes) (off : Nat) : List (Bytes × Nat) → Bytes
  | [] => buf
  | (p, l) :: r => fillPieces (writeAt buf off p) (off + l) r

/-- one interval given by contig name: row looked up in the index (`none` = KeyError), then the checked read -/
def fetchNamed (file : Bytes) (idx : List IdxRow) (q : Bytes × Nat × Nat) : Option Bytes :=
  match lookup idx q.1 with
  | some r => fetchIntervalChecked file r q.2.1 q.2.2
  | none => none

/-- `get_interval_sequences(intervals)` for ANY list of intervals: per interval the row is looked up
by name and the bytes are read and cleaned (with NumPy's bounds check); the cleaned pieces are written
into one pre-allocated flat buffer at the offsets `cumsum(stop − start)` and the buffer is re-wrapped
as a ragged array with row lengths `stop − start` (`none` = KeyError / IndexError) -/
def getIntervalSequences (file : Bytes) (idx : List IdxRow) (ivs : List (Bytes × Nat × Nat)) : Option (List Bytes) :=
  match Base.omap (fetchNamed file idx) ivs with
  | none => none
  | some pieces =>
    let lens := ivs.map (fun q => q.2.2 - q.2.1)
    some (C18.unflatten lens (fillPieces (List.replicate lens.sum 0) 0 (pieces.zip lens)))

/-- `get_interval_sequences` for one interval `[a, b)` (both code paths use this arithmetic) -/
def fetchInterval (file : Bytes) (r : IdxRow) (a b : Nat) : Bytes :=
  let startRow := a / r.lenc
  let startMod := a % r.lenc
  let startOffset := startRow * r.lenb + startMod
  let stopRow := b / r.lenc
  let stopOffset := stopRow * r.lenb + b % r.lenc
  let raw := readAt file (r.offset + startOffset) (stopOffset - startOffset)
  deleteIdx raw ((List.range (stopRow - startRow)).map (fun j => r.lenb * (j + 1) - 1 - startMod))

end C17
