import BnpVerif.Base.RleC08
/-! C08 — interval-set operations. Executable models mirroring
`bionumpy/arithmetics/intervals.py` (`merge_intervals`, `get_boolean_mask`, `sort_intervals`,
`count_overlap`, `intersect`, `unique_intersect`, `clip`, `extend_to_size`),
`arithmetics/bedgraph.py` (`get_pileup`, the in-repo event algorithm),
`arithmetics/similarity_measures.py` (contingency table, Jaccard, Forbes), plus the
per-base specification (`cov`). Core-only imports. -/
namespace C08
open Base.Rle

abbrev Iv := Nat × Nat

/-! ### Specification: per-base coverage -/

def inIv (p : Nat) (iv : Iv) : Bool := decide (iv.1 ≤ p) && decide (p < iv.2)

/-- number of intervals covering base `p` -/
def cov (I : List Iv) (p : Nat) : Nat := I.countP (inIv p)

/-- base `p` lies in some interval of the list -/
def covered (I : List Iv) (p : Nat) : Bool := I.any (inIv p)

def specPileup (I : List Iv) (size : Nat) : List Nat := (List.range size).map (cov I)
def specMask (I : List Iv) (size : Nat) : List Bool := (List.range size).map (fun p => decide (0 < cov I p))

/-- maximal runs of `{p < size | cov I p > 0}`, bridging uncovered gaps of length ≤ d
(scan over the bases; `cur` is the run being built, `gap` the number of uncovered bases since its end) -/
def specMergeGo (I : List Iv) (d : Nat) : List Nat → Option Iv → List Iv
  | [], none => []
  | [], some r => [r]
  | p :: ps, none => if 0 < cov I p then specMergeGo I d ps (some (p, p + 1)) else specMergeGo I d ps none
  | p :: ps, some (s, e) =>
    if 0 < cov I p then
      (if p ≤ e + d then specMergeGo I d ps (some (s, p + 1)) else (s, e) :: specMergeGo I d ps (some (p, p + 1)))
    else specMergeGo I d ps (some (s, e))

def specMerge (I : List Iv) (d size : Nat) : List Iv := specMergeGo I d (List.range size) none

/-! ### stable sort (specification of `argsort(kind="mergesort")`, `np.lexsort`, `sorted`) -/

def insertBy {α : Type} (le : α → α → Bool) (a : α) : List α → List α
  | [] => [a]
  | b :: bs => if le a b then a :: b :: bs else b :: insertBy le a bs

def isort {α : Type} (le : α → α → Bool) : List α → List α
  | [] => []
  | a :: as => insertBy le a (isort le as)

def natLe (a b : Nat) : Bool := decide (a ≤ b)
def startLe (a b : Iv) : Bool := decide (a.1 ≤ b.1)

/-! ### `merge_intervals` -/

/-- `np.maximum.accumulate` -/
def runMax (m : Nat) : List Nat → List Nat
  | [] => []
  | x :: xs => max m x :: runMax (max m x) xs

/-- boolean-mask selection `a[mask]` -/
def select {α : Type} : List Bool → List α → List α
  | true :: ms, x :: xs => x :: select ms xs
  | false :: ms, _ :: xs => select ms xs
  | _, _ => []

/-- `merge_intervals` as the code computes it (input sorted by start): running maximum of the
stops, `+ distance`, `start[1:] > stops[:-1]`, select with `[True]+mask` / `mask+[True]`, `- distance` -/
def mergeVec (d : Nat) (I : List Iv) : List Iv :=
  match I with
  | [] => []
  | _ :: _ =>
    let starts := I.map (·.1)
    let stops := (runMax 0 (I.map (·.2))).map (· + d)
    let valid := List.zipWith (fun s t => decide (s > t)) starts.tail stops
    let ns := select (true :: valid) starts
    let ne := (select (valid ++ [true]) stops).map (· - d)
    ns.zip ne

/-- recursive form used in the proofs (`mergeVec_eq_mergeRec`) -/
def mergeGo (d cs ce : Nat) : List Iv → List Iv
  | [] => [(cs, ce)]
  | (s, e) :: rest =>
    if s > ce + d then (cs, ce) :: mergeGo d s (max ce e) rest else mergeGo d cs (max ce e) rest

def mergeRec (d : Nat) : List Iv → List Iv
  | [] => []
  | (s, e) :: rest => mergeGo d s e rest

def sortedByStart (I : List Iv) : Bool :=
  match I with
  | [] => true
  | a :: rest => (List.zipWith (fun x y => decide (x.1 ≤ y.1)) (a :: rest) rest).all id

/-! ### `get_boolean_mask` -/

def mask (I : List Iv) (size : Nat) : Rle Bool :=
  let merged := mergeVec 0 (isort startLe I)
  let kept := merged.filter (fun iv => iv.1 != iv.2)
  fromIntervals (kept.map (·.1)) (kept.map (·.2)) size true false

def maskDense (I : List Iv) (size : Nat) : List Bool := (mask I size).toArray xor false

/-! ### `bedgraph.get_pileup` (event algorithm in the repository) -/

def cumsum (acc : Int) : List Int → List Int
  | [] => []
  | x :: xs => (acc + x) :: cumsum (acc + x) xs

/-- keep index `i` unless `pos[i+1] == pos[i]` (`np.delete(…, flatnonzero(pos[1:] == pos[:-1]))`) -/
def dedupLast {α : Type} : List (Nat × α) → List (Nat × α)
  | [] => []
  | [x] => [x]
  | x :: y :: rest => if x.1 == y.1 then dedupLast (y :: rest) else x :: dedupLast (y :: rest)

def pileupEvents (I : List Iv) (size : Nat) : Rle Int :=
  let n := I.length
  let positions := [0] ++ I.map (·.1) ++ I.map (·.2) ++ [size]
  let tagged := positions.zipIdx            -- (position, original index)
  let sorted := isort (fun a b => natLe a.1 b.1) tagged
  let deltas : List Int := (sorted.map (fun a => if a.2 ≥ n + 1 then (-1 : Int) else 1)).set 0 0
  let cum := cumsum 0 deltas
  let kept := dedupLast ((sorted.map (·.1)).zip cum)
  ⟨kept.map (·.1), (kept.map (·.2)).dropLast⟩

/-! ### `sort_intervals` -/

/-- (chromosome key rank, start, stop) -/
abbrev Rec := Nat × Nat × Nat

def lex3 (a b : Rec) : Bool :=
  decide (a.1 < b.1) || (a.1 == b.1 && (decide (a.2.1 < b.2.1) || (a.2.1 == b.2.1 && decide (a.2.2 ≤ b.2.2))))

/-- the shipped `np.lexsort((start, chromosome))` path: stop is not a key -/
def lex2 (a b : Rec) : Bool :=
  decide (a.1 < b.1) || (a.1 == b.1 && decide (a.2.1 ≤ b.2.1))

def sortIntervals (xs : List Rec) : List Rec := isort lex3 xs
def sortIntervalsOld (xs : List Rec) : List Rec := isort lex2 xs

/-! ### `count_overlap`, `intersect`, `unique_intersect` -/

def countOverlap (A B : List Iv) : Int :=
  let st := isort natLe (A.map (·.1) ++ B.map (·.1))
  let sp := isort natLe (A.map (·.2) ++ B.map (·.2))
  (List.zipWith (fun (e s : Nat) => max ((e : Int) - (s : Int)) 0) sp st.tail).sum

def intersect (A B : List Iv) : List Iv :=
  let st := isort natLe (A.map (·.1) ++ B.map (·.1))
  let sp := isort natLe (A.map (·.2) ++ B.map (·.2))
  (st.tail.zip sp).filter (fun p => decide (p.2 > p.1))

/-- each operand internally non-overlapping (touching allowed), non-empty intervals -/
def disjointSorted : List Iv → Bool
  | [] => true
  | [a] => decide (a.1 < a.2)
  | a :: b :: rest => decide (a.1 < a.2) && decide (a.2 ≤ b.1) && disjointSorted (b :: rest)

def internallyDisjoint (A : List Iv) : Bool := disjointSorted (isort startLe A)

def specCountOverlap (A B : List Iv) (size : Nat) : Nat :=
  (List.range size).countP (fun p => decide (0 < cov A p) && decide (0 < cov B p))

def uniqueIntersect (A B : List Iv) (size : Nat) : List Iv :=
  let m := maskDense B size
  A.filter (fun iv => ((m.drop iv.1).take (iv.2 - iv.1)).any id)

def specUniqueIntersect (A B : List Iv) : List Iv :=
  A.filter (fun iv => (List.range iv.2).any (fun p => decide (iv.1 ≤ p) && decide (0 < cov B p)))

/-! ### contingency table, Jaccard, Forbes -/

def countBoth (x y : List Bool) (bx bY : Bool) : Nat :=
  (x.zip y).countP (fun p => p.1 == bx && p.2 == bY)

/-- `[[sum(a&b), sum(a&~b)], [sum(~a&b), sum(~a&~b)]]` -/
def contingency (A B : List Iv) (size : Nat) : Nat × Nat × Nat × Nat :=
  let ma := maskDense A size
  let mb := maskDense B size
  (countBoth ma mb true true, countBoth ma mb true false, countBoth ma mb false true, countBoth ma mb false false)

def specContingency (A B : List Iv) (size : Nat) : Nat × Nat × Nat × Nat :=
  let f := fun (ba bb : Bool) => (List.range size).countP (fun p => decide (0 < cov A p) == ba && decide (0 < cov B p) == bb)
  (f true true, f true false, f false true, f false false)

/-! ### `clip`, `extend_to_size` kernels (element-wise, over `Int`) -/

def clipK (start stop size : Int) : Int × Int := (max 0 start, min size stop)

def extendK (fwd : Bool) (start stop len size : Int) : Int × Int :=
  (if fwd then start else stop - min len stop, if fwd then min (start + len) size else stop)

/-- the kernel as shipped before the repair for unsigned columns: `max (stop - len) 0`. Over the integers it is the same
function (`extendK_eq_old`); on an unsigned NumPy column `stop - len` wraps around before the maximum is taken. -/
def extendKOld (fwd : Bool) (start stop len size : Int) : Int × Int :=
  (if fwd then start else max (stop - len) 0, if fwd then min (start + len) size else stop)

/-! ### exported `get_pileup`: the part that lives in the repository -/

/-- `get_pileup(intervals, size)`: an empty set gives the run-length array `[0, size] / [0]`; otherwise the counting
is delegated to npstructures (`RunLength2dArray.from_intervals(...).sum(axis=0)`, specified external `ext`) -/
def getPileup (ext : List Iv → Nat → List Nat) (I : List Iv) (size : Nat) : List Nat :=
  if I.isEmpty then (Rle.toDense ⟨[0, size], [0]⟩) else ext I size

/-! ### `Geometry.clip` / `Geometry.extend_to_size`: the size is looked up per row by chromosome -/

/-- row = (chromosome index, start, stop); `global_offset.get_size(intervals.chromosome)` is `sizes[chrom]` -/
def geoClip (chromSizes : List Int) (rows : List (Nat × Int × Int)) : List (Int × Int) :=
  rows.map (fun r => clipK r.2.1 r.2.2 (chromSizes.getD r.1 0))

def geoExtend (chromSizes : List Int) (len : Int) (rows : List (Nat × Bool × Int × Int)) : List (Int × Int) :=
  rows.map (fun r => extendK r.2.1 r.2.2.1 r.2.2.2 len (chromSizes.getD r.1 0))

end C08

namespace C08
open Base.Rle

/-! ### `global_intersect`: intersect on several chromosomes at once (`np.lexsort` on (chromosome, position)) -/

/-- (chromosome, start, stop) -/
abbrev CIv := Nat × Nat × Nat

def lexCP (a b : Nat × Nat) : Bool := decide (a.1 < b.1) || (a.1 == b.1 && decide (a.2 ≤ b.2))

/-- `sameChrom = true` is the repaired code (fix 35da59d): a stop is paired with the next start only inside one
chromosome; `false` is the rule shipped before -/
def globalIntersectWith (sameChrom : Bool) (A B : List CIv) : List CIv :=
  let all := A ++ B
  let st := isort lexCP (all.map (fun r => (r.1, r.2.1)))
  let sp := isort lexCP (all.map (fun r => (r.1, r.2.2)))
  ((st.tail.zip sp).filter (fun p => decide (p.2.2 > p.1.2) && (!sameChrom || p.2.1 == p.1.1))).map
    (fun p => (p.1.1, p.1.2, p.2.2))

def globalIntersect := globalIntersectWith true
def globalIntersectOld := globalIntersectWith false

def covC (L : List CIv) (c x : Nat) : Nat := L.countP (fun r => r.1 == c && decide (r.2.1 ≤ x) && decide (x < r.2.2))

/-! ### `intervals.pileup`: the pileup as a bedGraph (runs between consecutive endpoints, equal neighbours joined) -/

/-- windows between consecutive sorted endpoints with the running count, empty windows dropped -/
def windows : List (Nat × Int) → List (Nat × Nat × Int)
  | x :: y :: rest => if x.1 == y.1 then windows (y :: rest) else (x.1, y.1, x.2) :: windows (y :: rest)
  | _ => []

/-- `values[1:] == values[:-1]` → the two windows are joined -/
def joinWindows : List (Nat × Nat × Int) → List (Nat × Nat × Int)
  | a :: b :: rest => if a.2.2 == b.2.2 then joinWindows ((a.1, b.2.1, a.2.2) :: rest) else a :: joinWindows (b :: rest)
  | l => l
termination_by l => l.length

def pileupBg (I : List Iv) : List (Nat × Nat × Int) :=
  let n := I.length
  let tagged := (I.map (·.1) ++ I.map (·.2)).zipIdx
  let sorted := isort (fun a b => natLe a.1 b.1) tagged
  let cum := cumsum 0 (sorted.map (fun a => if a.2 ≥ n then (-1 : Int) else 1))
  joinWindows (windows ((sorted.map (·.1)).zip cum))

/-! ### `bedgraph.value_hist`: bases per value (`np.bincount(value, weights = stop - start)`) -/

def valueHist (bg : List (Nat × Nat × Nat)) : List Nat :=
  match (bg.map (·.2.2)).max? with
  | none => []
  | some m => (List.range (m + 1)).map (fun v => ((bg.filter (fun r => r.2.2 == v)).map (fun r => r.2.1 - r.1)).sum)

/-! ### `Geometry.sort`: by position on the concatenated genome (`sort_by('start')` on global coordinates) -/

def lexCS2 (a b : Rec) : Bool := decide (a.1 < b.1) || (a.1 == b.1 && decide (a.2.1 ≤ b.2.1))

def geoSort (xs : List Rec) : List Rec := isort lexCS2 xs

end C08

namespace C08

/-! ### Jaccard / Forbes over several contigs (`similarity_measures.jaccard` / `forbes`, `Geometry.jaccard`) -/

/-- one contig: (size, intervals a, intervals b) -/
abbrev Contig2 := Nat × List Iv × List Iv

def add4 (x y : Nat × Nat × Nat × Nat) : Nat × Nat × Nat × Nat :=
  (x.1 + y.1, x.2.1 + y.2.1, x.2.2.1 + y.2.2.1, x.2.2.2 + y.2.2.2)

/-- `get_contingency_table` summed over the contigs (`streamable(sum)`) -/
def contingencyGenome (cs : List Contig2) : Nat × Nat × Nat × Nat :=
  (cs.map (fun c => contingency c.2.1 c.2.2 c.1)).foldl add4 (0, 0, 0, 0)

def specContingencyGenome (cs : List Contig2) : Nat × Nat × Nat × Nat :=
  (cs.map (fun c => specContingency c.2.1 c.2.2 c.1)).foldl add4 (0, 0, 0, 0)

/-- `float(a/(N-d))`: the IEEE quotient of the two counts -/
def jaccardF (t : Nat × Nat × Nat × Nat) : Float := Float.ofNat t.1 / Float.ofNat (t.1 + t.2.1 + t.2.2.1)

/-- `float(a*N/((a+b)*(a+c)))` -/
def forbesF (t : Nat × Nat × Nat × Nat) : Float :=
  Float.ofNat (t.1 * (t.1 + t.2.1 + t.2.2.1 + t.2.2.2)) / Float.ofNat ((t.1 + t.2.1) * (t.1 + t.2.2.1))

def jaccard (cs : List Contig2) : Float := jaccardF (contingencyGenome cs)
def forbes (cs : List Contig2) : Float := forbesF (contingencyGenome cs)

/-- the per-base definition: the same quotients of the per-base counts -/
def specJaccard (cs : List Contig2) : Float := jaccardF (specContingencyGenome cs)
def specForbes (cs : List Contig2) : Float := forbesF (specContingencyGenome cs)

end C08
