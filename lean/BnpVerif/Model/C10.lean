import BnpVerif.Base.Opt
/-! C10 — genome-wide operations respect chromosome boundaries.

Executable model of `genomic_data/global_offset.py` (prefix sums, `searchsorted(side="right") - 1`,
bound checks), of the name → index encoding and ignored-chromosome filtering of
`GenomeContext.__init__/mask_data`, and of the whole-genome operations of
`genomic_intervals.py` / `geometry.py` / `genomic_track.py` as "shift to the concatenated
coordinate space, run the single-contig operation there, cut the result back per chromosome",
plus the property-level specification ("the single-contig operation on that chromosome's entries
alone"). The single-contig operations themselves (`arithmetics/intervals.py`: pile-up, mask,
merge, clip, extend) are modelled by their list-level meaning; their own correctness is C08.
Core-only imports. -/
namespace C10
open Base

/-! ## GlobalOffset -/

/-- `np.insert(np.cumsum(sizes), 0, 0)` -/
def offsets : List Nat → List Nat
  | [] => [0]
  | s :: ss => 0 :: (offsets ss).map (· + s)

def total (sizes : List Nat) : Nat := sizes.sum
/-- `self._offset[c]` -/
def offset (sizes : List Nat) (c : Nat) : Nat := (offsets sizes).getD c 0
/-- `self._sizes[c]` -/
def size (sizes : List Nat) (c : Nat) : Nat := sizes.getD c 0

/-- `np.searchsorted(a, g, side="right")` on a non-decreasing array: number of leading elements ≤ g -/
def searchsortedRight (a : List Nat) (g : Nat) : Nat := (a.takeWhile (· ≤ g)).length

/-- `np.searchsorted(self._offset, g, side="right") - 1` -/
def chromIdx (sizes : List Nat) (g : Nat) : Nat := searchsortedRight (offsets sizes) g - 1

/-- `to_local_coordinates` -/
def toLocal (sizes : List Nat) (g : Nat) : Nat × Nat :=
  (chromIdx sizes g, g - offset sizes (chromIdx sizes g))

/-- `from_local_coordinates`: raises when `p ≥ size` (an unknown chromosome raises in the name encoding) -/
def fromLocal (sizes : List Nat) (c p : Nat) : Option Nat :=
  if c < sizes.length ∧ p < size sizes c then some (offset sizes c + p) else none

/-! ### Specification of the coordinate map (written independently: walk the chromosomes) -/

def specToLocal : List Nat → Nat → Nat × Nat
  | [], g => (0, g)
  | s :: ss, g => if g < s then (0, g) else ((specToLocal ss (g - s)).1 + 1, (specToLocal ss (g - s)).2)

def specOffset (sizes : List Nat) (c : Nat) : Nat := (sizes.take c).sum

/-! ## Entries -/

/-- an interval entry with valid (non-negative) coordinates; `fwd = false` is the `-` strand -/
structure Iv where
  c : Nat
  s : Nat
  e : Nat
  fwd : Bool := true
deriving DecidableEq, Repr, Inhabited

/-- an interval entry whose coordinates may lie outside the chromosome (input of clip / extend / windows) -/
structure IvZ where
  c : Nat
  s : Int
  e : Int
  fwd : Bool := true
deriving DecidableEq, Repr, Inhabited

/-- the interval lies inside its own chromosome (the domain of the whole-genome operations):
`start < size`, `stop ≤ size` and (since repair 0868386) `start ≤ stop` are what `start_ends_from_intervals` checks;
`0 ≤ start` is checked on the integer input, see `IvZ.checked` -/
def Iv.valid (sizes : List Nat) (iv : Iv) : Bool :=
  iv.c < sizes.length && iv.s < size sizes iv.c && iv.e ≤ size sizes iv.c && iv.s ≤ iv.e

/-! ## Integer input: negative coordinates (repair 0868386) -/

/-- `start_ends_from_intervals` on the integer columns: a negative start raises (it would reach into the previous
chromosome), so does a stop before the start; the remaining checks are `Iv.valid` -/
def IvZ.checked (iv : IvZ) : Option Iv :=
  if 0 ≤ iv.s ∧ iv.s ≤ iv.e then some { c := iv.c, s := iv.s.toNat, e := iv.e.toNat, fwd := iv.fwd } else none

/-- `from_local_coordinates` on an integer offset: `offset < 0` and `offset ≥ size` raise -/
def fromLocalZ (sizes : List Nat) (c : Nat) (p : Int) : Option Nat :=
  if p < 0 then none else fromLocal sizes c p.toNat

/-- the rule shipped before repair 0868386: only `offset ≥ size` was rejected -/
def fromLocalOldZ (sizes : List Nat) (c : Nat) (p : Int) : Option Int :=
  if c < sizes.length ∧ p < (size sizes c : Int) then some ((offset sizes c : Int) + p) else none

/-! ## Name encoding and ignored chromosomes (`GenomeContext.__init__`, `mask_data`) -/

/-- number of included (not ignored) chromosomes -/
def nIncluded (ign : List Bool) : Nat := (ign.filter (!·)).length

/-- code of original chromosome `i` in `StringEncoding(included ++ ignored)` -/
def encodeIdx (ign : List Bool) (i : Nat) : Nat :=
  if ign.getD i false then nIncluded ign + ((ign.take i).filter (·)).length
  else ((ign.take i).filter (!·)).length

/-- sizes of the included chromosomes, in genome order (`_chrom_size_dict`) -/
def includedSizes : List Nat → List Bool → List Nat
  | s :: ss, g :: gs => if g then includedSizes ss gs else s :: includedSizes ss gs
  | _, _ => []

/-- `mask_data`: encode the chromosome column, keep the rows on included chromosomes -/
def maskData (ign : List Bool) (ivs : List Iv) : List Iv :=
  (ivs.map (fun iv => { iv with c := encodeIdx ign iv.c })).filter (fun iv => iv.c < nIncluded ign)

def maskDataZ (ign : List Bool) (ivs : List IvZ) : List IvZ :=
  (ivs.map (fun iv => { iv with c := encodeIdx ign iv.c })).filter (fun iv => iv.c < nIncluded ign)

/-- specification: rows on ignored chromosomes are dropped, the others keep their order and get the
rank of their chromosome among the included ones -/
def specMask (ign : List Bool) (ivs : List Iv) : List Iv :=
  (ivs.filter (fun iv => !(ign.getD iv.c false))).map
    (fun iv => { iv with c := ((ign.take iv.c).filter (!·)).length })

/-! ## Concatenated coordinates -/

/-- `start_ends_from_intervals` (no clipping): raises unless the interval is inside its chromosome -/
def toGlobal (sizes : List Nat) (iv : Iv) : Option (Nat × Nat) :=
  if iv.valid sizes then some (offset sizes iv.c + iv.s, offset sizes iv.c + iv.e) else none

/-- `to_local_interval` of one global interval (asserts `stop ≤ size` of the start's chromosome) -/
def toLocalIv (sizes : List Nat) (g : Nat × Nat) : Option Iv :=
  let c := chromIdx sizes g.1
  if g.2 - offset sizes c ≤ size sizes c then some { c := c, s := g.1 - offset sizes c, e := g.2 - offset sizes c }
  else none

/-- `start_ends_from_intervals(interval, do_clip)` of one integer entry: a start outside its chromosome and a stop before
the start raise; with `do_clip` the stop is clipped to the end of the entry's OWN chromosome (before the offset is added),
without it a stop beyond that end raises -/
def globaliseZ (sizes : List Nat) (clip : Bool) (iv : IvZ) : Option (Nat × Nat) :=
  if iv.c < sizes.length ∧ 0 ≤ iv.s ∧ iv.s < (size sizes iv.c : Int) ∧ iv.s ≤ iv.e ∧
      (clip = true ∨ iv.e ≤ (size sizes iv.c : Int)) then
    some (offset sizes iv.c + iv.s.toNat, offset sizes iv.c + min iv.e.toNat (size sizes iv.c))
  else none

/-- a deviating rule (clip against the end of the whole genome, after the offset was added) -/
def globaliseGenomeEndZ (sizes : List Nat) (iv : IvZ) : Option (Nat × Nat) :=
  if iv.c < sizes.length ∧ 0 ≤ iv.s ∧ iv.s < (size sizes iv.c : Int) ∧ iv.s ≤ iv.e then
    some (offset sizes iv.c + iv.s.toNat, min (offset sizes iv.c + iv.e.toNat) (total sizes))
  else none

/-! ## Pile-up and mask -/

/-- number of intervals covering position `g` (list-level meaning of
`RunLength2dArray.from_intervals(starts, stops, n).sum(axis=0)[g]`) -/
def covCount (gs : List (Nat × Nat)) (g : Nat) : Nat := (gs.filter (fun x => x.1 ≤ g && g < x.2)).length

/-- `get_pileup(global intervals, total size)` as a dense array -/
def pileupGlobal (sizes : List Nat) (ivs : List Iv) : Option (List Nat) :=
  match omap (toGlobal sizes) ivs with
  | none => none
  | some gs => some ((List.range (total sizes)).map (covCount gs))

/-- `get_boolean_mask(global intervals, total size)` as a dense 0/1 array -/
def maskGlobal (sizes : List Nat) (ivs : List Iv) : Option (List Nat) :=
  match omap (toGlobal sizes) ivs with
  | none => none
  | some gs => some ((List.range (total sizes)).map (fun g => if covCount gs g = 0 then 0 else 1))

/-- `global_track[offset : offset + size]` (`extract_chromsome`, `to_dict`) -/
def extractChrom {α} (sizes : List Nat) (dense : List α) (c : Nat) : List α :=
  (dense.drop (offset sizes c)).take (size sizes c)

/-- `GenomicArrayGlobal.to_dict()` as a list in genome order -/
def toDict {α} (sizes : List Nat) (dense : List α) : List (List α) :=
  (List.range sizes.length).map (extractChrom sizes dense)

/-- specification: single-contig pile-up of chromosome `c`'s own entries -/
def specPileupChrom (sizes : List Nat) (ivs : List Iv) (c : Nat) : List Nat :=
  (List.range (size sizes c)).map (fun p => ((ivs.filter (fun iv => iv.c = c)).filter (fun iv => iv.s ≤ p && p < iv.e)).length)

def specMaskChrom (sizes : List Nat) (ivs : List Iv) (c : Nat) : List Nat :=
  (specPileupChrom sizes ivs c).map (fun n => if n = 0 then 0 else 1)

/-! ## Merge -/

/-- single-contig `merge_intervals` (running maximum of the stops; a new interval starts where
`start > running stop + d`), on start-sorted input -/
def mergeGo (d : Nat) (cs ce : Nat) : List (Nat × Nat) → List (Nat × Nat)
  | [] => [(cs, ce)]
  | x :: r => if x.1 > ce + d then (cs, ce) :: mergeGo d x.1 x.2 r else mergeGo d cs (max ce x.2) r

def merge1 (d : Nat) : List (Nat × Nat) → List (Nat × Nat)
  | [] => []
  | x :: r => mergeGo d x.1 x.2 r

def startsSorted : List (Nat × Nat) → Bool
  | x :: y :: r => x.1 ≤ y.1 && startsSorted (y :: r)
  | _ => true

/-- `merge_intervals` with its sortedness assertion -/
def merge1Checked (d : Nat) (l : List (Nat × Nat)) : Option (List (Nat × Nat)) :=
  if startsSorted l then some (merge1 d l) else none

/-- the rule shipped before the repair (`Geometry.merge_intervals`, and `GenomicIntervalsFull.merged`
once its attribute typo is passed): merge in concatenated coordinates, then map back -/
def mergeGlobalOld (d : Nat) (sizes : List Nat) (ivs : List Iv) : Option (List Iv) :=
  match omap (toGlobal sizes) ivs with
  | none => none
  | some gs =>
    match merge1Checked d gs with
    | none => none
    | some m => omap (toLocalIv sizes) m

/-- maximal runs of equal chromosome, in order (`groupby(intervals, "chromosome")`) -/
def runs : List Iv → List (Nat × List Iv)
  | [] => []
  | x :: r =>
    match runs r with
    | g :: t => if x.c = g.1 then (g.1, x :: g.2) :: t else (x.c, [x]) :: g :: t
    | [] => [(x.c, [x])]

/-- merge of one chromosome's entries, re-attached to the chromosome -/
def mergeChrom (d : Nat) (c : Nat) (l : List Iv) : Option (List Iv) :=
  match merge1Checked d (l.map (fun iv => (iv.s, iv.e))) with
  | none => none
  | some m => some (m.map (fun x => { c := c, s := x.1, e := x.2 }))

/-- the repaired rule: group by chromosome, merge every group with the single-contig function -/
def mergeFixed (d : Nat) (ivs : List Iv) : Option (List Iv) :=
  (omap (fun g => mergeChrom d g.1 g.2) (runs ivs)).map List.flatten

/-- `np.all(a[:-1] <= a[1:])` -/
def sortedAdj : List Nat → Bool
  | x :: y :: r => x ≤ y && sortedAdj (y :: r)
  | _ => true

/-- the in-memory entry points (`Geometry.merge_intervals`, `GenomicIntervalsFull.merged`): the conversion to
concatenated coordinates is run first for its checks (an interval that does not lie inside its chromosome raises)
and the global starts must be non-decreasing (genome order), then the per-chromosome merge -/
def mergeChecked (d : Nat) (sizes : List Nat) (ivs : List Iv) : Option (List Iv) :=
  if ivs.all (fun iv => iv.valid sizes) && sortedAdj (ivs.map (fun iv => offset sizes iv.c + iv.s))
  then mergeFixed d ivs else none

/-- specification: for every chromosome in genome order, the single-contig merge of its own entries -/
def specMerge (d : Nat) (n : Nat) (ivs : List Iv) : Option (List Iv) :=
  (omap (fun c => mergeChrom d c (ivs.filter (fun iv => iv.c = c))) (List.range n)).map List.flatten

/-! ## Clip, extend to size, windows (size looked up by the row's own chromosome) -/

/-- single-contig `clip` -/
def clip1 (sz : Nat) (s e : Int) : Int × Int := (max 0 s, min (sz : Int) e)

/-- single-contig `extend_to_size` -/
def extend1 (sz : Nat) (L : Int) (fwd : Bool) (s e : Int) : Int × Int :=
  (if fwd then s else max (e - L) 0, if fwd then min (s + L) (sz : Int) else e)

def clipG (sizes : List Nat) (iv : IvZ) : IvZ :=
  let r := clip1 (size sizes iv.c) iv.s iv.e
  { iv with s := r.1, e := r.2 }

def extendG (sizes : List Nat) (L : Int) (iv : IvZ) : IvZ :=
  let r := extend1 (size sizes iv.c) L iv.fwd iv.s iv.e
  { iv with s := r.1, e := r.2 }

/-- `get_windows`: flanks from `flank` or `window_size`, then clip -/
def flanks (flank : Option Nat) (wsize : Nat) : Int × Int :=
  match flank with
  | some f => (f, f + 1)
  | none => ((wsize / 2 : Nat), (wsize / 2 + wsize % 2 : Nat))

def windowG (sizes : List Nat) (fl : Int × Int) (c : Nat) (p : Int) (fwd : Bool) : IvZ :=
  clipG sizes { c := c, s := p - fl.1, e := p + fl.2, fwd := fwd }

/-- `get_location(where)`; `w` = 0 start, 1 stop, 2 center -/
def location (stranded : Bool) (w : Nat) (iv : Iv) : Int :=
  if w = 2 then ((iv.s + iv.e) / 2 : Nat)
  else if !stranded then iv.s
  else if iv.fwd == (w == 0) then iv.s else (iv.e : Int) - 1

/-! ## Sorting in genome order -/

def keyLe (a b : Iv) : Bool :=
  a.c < b.c || (a.c = b.c && (a.s < b.s || (a.s = b.s && a.e ≤ b.e)))

/-- `np.lexsort([stop, start, chromosome.raw()])`: stable sort on (chromosome index, start, stop) -/
def sortGenome (ivs : List Iv) : List Iv := ivs.mergeSort keyLe

/-- `Geometry.sort`: order by global start -/
def sortByGlobalStart (sizes : List Nat) (ivs : List Iv) : List Iv :=
  ivs.mergeSort (fun a b => offset sizes a.c + a.s ≤ offset sizes b.c + b.s)

/-! ## Values under intervals -/

/-- `global_track[global_intervals]`, rows reversed on `-` when stranded -/
def extractRow {α} (sizes : List Nat) (dense : List α) (stranded : Bool) (iv : Iv) : Option (List α) :=
  match toGlobal sizes iv with
  | none => none
  | some g =>
    let row := (dense.drop g.1).take (g.2 - g.1)
    some (if stranded && !iv.fwd then row.reverse else row)

/-- specification: the slice of the chromosome's own dense array -/
def specExtractRow {α} (arrays : List (List α)) (stranded : Bool) (iv : Iv) : List α :=
  let row := ((arrays.getD iv.c []).drop iv.s).take (iv.e - iv.s)
  if stranded && !iv.fwd then row.reverse else row

/-! ## The streamed per-chromosome path and genome-wide quantities -/

/-- single-contig `get_pileup(intervals, size)` as a dense array -/
def pile1 (sz : Nat) (l : List (Nat × Nat)) : List Nat := (List.range sz).map (covCount l)

/-- the streamed path (`from_interval_stream` / `as_stream`): `iter_chromosomes` hands out one table per
chromosome of the genome order (the empty table where there are no entries), zipped with the chromosome
sizes; every table goes through the single-contig pile-up -/
def pileupStream (sizes : List Nat) (ivs : List Iv) : List (List Nat) :=
  (List.range sizes.length).map (fun c => pile1 (size sizes c) ((ivs.filter (fun iv => iv.c = c)).map (fun iv => (iv.s, iv.e))))

def maskStream (sizes : List Nat) (ivs : List Iv) : List (List Nat) :=
  (pileupStream sizes ivs).map (fun d => d.map (fun n => if n = 0 then 0 else 1))

/-- `(track == 0).sum()` / `(~mask).sum()` -/
def zerosOf (d : List Nat) : Nat := (d.filter (fun v => v = 0)).length

/-- `np.histogram(track, bins=[0, 1, 2, 3])[0]` (the last bin is closed) -/
def histOf (d : List Nat) : List Nat :=
  [(d.filter (fun v => v = 0)).length, (d.filter (fun v => v = 1)).length, (d.filter (fun v => v = 2 || v = 3)).length]

/-! ## Chromosome-name lookup (`StringEncoding.encode` → `AsciiHashTable`) -/

def bigMod : Nat := 2147483647      -- `AsciiHashTable.big_mod = 2**31 - 1`

/-- `get_ascii_hash`: `sum((powers * bytes) % mod) % mod` with `powers[i] = 129^i` reduced step by step -/
def hashGo (p : Nat) : List Nat → Nat
  | [] => 0
  | b :: r => (p * b) % bigMod + hashGo ((p * 129) % bigMod) r

def asciiHash (bs : List Nat) : Nat := hashGo 1 bs % bigMod

/-- `self._hash_table[hashes]`: the index stored under the query's hash (`IndexError` → `EncodingError` when absent);
the npstructures `HashTable` is an external: key ↦ value -/
def lookupName (names : List (List Nat)) (q : List Nat) : Option Nat :=
  let hs := names.map asciiHash
  if hs.idxOf (asciiHash q) < hs.length then some (hs.idxOf (asciiHash q)) else none

/-! ## Per-chromosome views of a genome-wide array (`GenomicArrayGlobal`) -/

/-- `track[locations]` (`extract_locations`): the value at `from_local_coordinates(c, p)` -/
def extractAt (sizes : List Nat) (dense : List Nat) (c p : Nat) : Option Nat :=
  match fromLocal sizes c p with
  | some g => dense[g]?
  | none => none

/-- `track[mask]` (`_index_boolean`): the values at the positions where the genome-wide mask is set -/
def boolIndex (dense mask : List Nat) : List Nat :=
  ((dense.zip mask).filter (fun x => x.2 != 0)).map (·.1)

/-! ## Binned counts (`BinnedGenome`) -/

/-- `(chrom_sizes + bin_size - 1) // bin_size` -/
def nBins (b : Nat) (sizes : List Nat) : List Nat := sizes.map (fun s => (s + b - 1) / b)

/-- `self._bin_offsets[chrom] + position // bin_size` -/
def binIndex (b : Nat) (sizes : List Nat) (c p : Nat) : Nat := offset (nBins b sizes) c + p / b

/-- `np.bincount(bin_nr, minlength=n_bins_total)`, then `count_dict`: one slice per chromosome -/
def binnedCounts (b : Nat) (sizes : List Nat) (pts : List (Nat × Nat)) : List (List Nat) :=
  toDict (nBins b sizes)
    ((List.range (total (nBins b sizes))).map (fun g => (pts.filter (fun x => binIndex b sizes x.1 x.2 == g)).length))

/-- `BinnedGenome.count` with its validation (repair 5922e40): a position outside its chromosome raises -/
def binnedChecked (b : Nat) (sizes : List Nat) (pts : List (Nat × Nat)) : Option (List (List Nat)) :=
  if pts.all (fun x => decide (x.1 < sizes.length) && decide (x.2 < size sizes x.1)) then some (binnedCounts b sizes pts) else none

/-- specification: for every chromosome, per bin, the number of that chromosome's own locations in the bin -/
def specBinned (b : Nat) (sizes : List Nat) (pts : List (Nat × Nat)) : List (List Nat) :=
  (List.range sizes.length).map (fun c =>
    (List.range ((size sizes c + b - 1) / b)).map (fun k => (pts.filter (fun x => x.1 == c && x.2 / b == k)).length))

/-! ## Locations → intervals (`map_locations`, `find_indices`) -/

/-- `np.searchsorted(a, v, side="left")` / `side="right"` on a sorted array: the number of elements `< v` / `≤ v` -/
def countLt {β} (l : List (Nat × β)) (v : Nat) : Nat := (l.filter (fun x => x.1 < v)).length
def countLe {β} (l : List (Nat × β)) (v : Nat) : Nat := (l.filter (fun x => x.1 ≤ v)).length

/-- the locations (global position, local position), sorted by global position, that `find_indices` assigns to
the global interval `[gs, ge)`; `right = true` is the rule shipped before the repair (`side="right"` for the stop) -/
def locSlice (right : Bool) (gl : List (Nat × Nat)) (gs ge : Nat) : List (Nat × Nat) :=
  (gl.drop (countLt gl gs)).take ((if right then countLe gl ge else countLt gl ge) - countLt gl gs)

/-- `GenomicIntervalsFull.map_locations`: (interval index, location − interval start) -/
def mapLocs (right : Bool) (sizes : List Nat) (ivs : List Iv) (pts : List (Nat × Nat)) : Option (List (Nat × Int)) :=
  match omap (fun (x : Nat × Nat) => (fromLocal sizes x.1 x.2).map (fun g => (g, x.2))) pts, omap (toGlobal sizes) ivs with
  | some gl, some gis =>
    some ((List.range ivs.length).flatMap (fun i =>
      (locSlice right gl (gis.getD i (0, 0)).1 (gis.getD i (0, 0)).2).map
        (fun x => (i, (x.2 : Int) - ((ivs.getD i default).s : Int)))))
  | _, _ => none

/-- specification: every (interval, location) pair on the same chromosome with `start ≤ position < stop` -/
def specMapLocs (ivs : List Iv) (pts : List (Nat × Nat)) : List (Nat × Int) :=
  (List.range ivs.length).flatMap (fun i =>
    (pts.filter (fun x => x.1 == (ivs.getD i default).c && (ivs.getD i default).s ≤ x.2 && x.2 < (ivs.getD i default).e)).map
      (fun x => (i, (x.2 : Int) - ((ivs.getD i default).s : Int))))

/-! ## Genome-wide similarity (`Geometry.jaccard`) -/

def interCount (a b : List Nat) : Nat := ((a.zip b).filter (fun x => x.1 != 0 && x.2 != 0)).length
def unionCount (a b : List Nat) : Nat := ((a.zip b).filter (fun x => x.1 != 0 || x.2 != 0)).length

/-! ## Sorted locations, intervals from a mask -/

def locLe (a b : Nat × Nat) : Bool := a.1 < b.1 || (a.1 == b.1 && a.2 ≤ b.2)

/-- `GenomicLocationGlobal.sorted()`: lexsort on (chromosome index, position) -/
def sortLocs (pts : List (Nat × Nat)) : List (Nat × Nat) := pts.mergeSort locLe

/-- the maximal runs of non-zero entries of a dense array, as half-open intervals
(`GenomicArray.get_data()` of a boolean track: `Interval(starts, ends)[values]`) -/
def onesRunsFrom (pos : Nat) (cur : Option Nat) : List Nat → List (Nat × Nat)
  | [] => match cur with
    | some s => [(s, pos)]
    | none => []
  | v :: r =>
    if v != 0 then onesRunsFrom (pos + 1) (some (cur.getD pos)) r
    else (match cur with
      | some s => [(s, pos)]
      | none => []) ++ onesRunsFrom (pos + 1) none r

def onesRuns (d : List Nat) : List (Nat × Nat) := onesRunsFrom 0 none d


/-! ## The streamed path as a walk over the chromosome runs (`iter_chromosomes` zipped with the sizes) -/

/-- hand out, for the chromosomes `k, k+1, …` (`m` of them), the next run if it is that chromosome's, else the empty table -/
def assignRuns : Nat → Nat → List (Nat × List Iv) → List (List Iv)
  | _, 0, _ => []
  | k, m + 1, [] => [] :: assignRuns (k + 1) m []
  | k, m + 1, g :: t => if g.1 = k then g.2 :: assignRuns (k + 1) m t else [] :: assignRuns (k + 1) m (g :: t)

/-- streamed pile-up: group the (genome-ordered) entries into runs, walk the genome order, single-contig pile-up per table -/
def pileupStreamRuns (sizes : List Nat) (ivs : List Iv) : List (List Nat) :=
  ((assignRuns 0 sizes.length (runs ivs)).zip sizes).map (fun x => pile1 x.2 (x.1.map (fun iv => (iv.s, iv.e))))

def maskStreamRuns (sizes : List Nat) (ivs : List Iv) : List (List Nat) :=
  (pileupStreamRuns sizes ivs).map (fun d => d.map (fun n => if n = 0 then 0 else 1))

/-! ## The grouping shipped between 5ae8cf0 and 57736e2 (`groupby` with its first-key = last-key fast path) -/

def groupFast (l : List Iv) : List (Nat × List Iv) :=
  match l, l.getLast? with
  | x :: _, some y => if y.c = x.c then [(x.c, l)] else runs l
  | _, _ => []

def mergeGroupedOld (d : Nat) (ivs : List Iv) : Option (List Iv) :=
  (omap (fun g => mergeChrom d g.1 g.2) (groupFast ivs)).map List.flatten

/-! ## Sequence under intervals: reverse complement on the minus strand -/

/-- complement of an upper-case base given as its ASCII code (`A↔T`, `C↔G`, others unchanged) -/
def compBase (b : Nat) : Nat :=
  if b = 65 then 84 else if b = 84 then 65 else if b = 67 then 71 else if b = 71 then 67 else b

def revComp (l : List Nat) : List Nat := (l.map compBase).reverse

/-- `GenomicSequence.extract_intervals`: the slice in concatenated coordinates, reverse-complemented on `-` when stranded -/
def extractSeqRow (sizes : List Nat) (dense : List Nat) (stranded : Bool) (iv : Iv) : Option (List Nat) :=
  match toGlobal sizes iv with
  | none => none
  | some g =>
    let row := (dense.drop g.1).take (g.2 - g.1)
    some (if stranded && !iv.fwd then revComp row else row)

def specSeqRow (seqs : List (List Nat)) (stranded : Bool) (iv : Iv) : List Nat :=
  let row := ((seqs.getD iv.c []).drop iv.s).take (iv.e - iv.s)
  if stranded && !iv.fwd then revComp row else row

end C10
