import BnpVerif.Base.PyIdx
/-! C04 — pass-through of unmodified records. Executable model of
`TextThroughputExtractor.__getitem__/concatenate/_make_contigous/data/get_fields_by_range`,
`TextBufferExtractor.get_field_by_number`, `SAMBufferExctractor._get_extra_field`,
`DelimitedBuffer._get_buffer_extractor/_modify_for_carriage_return/join_fields` (via `join_columns`),
`OneLineBuffer._get_buffer_extractor/_modify_for_carriage_return/join_fields`, `FastQBuffer.join_fields`,
`SAMBuffer._get_buffer_extractor`, `BamBufferExtractor.__getitem__/_make_contigous/data`,
`BamBuffer._find_starts`, `LazyBNPDataClass.get_buffer`, plus the property-level Spec
(programs over lists of records). Core-only imports. -/
namespace C04
open PyIdx

abbrev Bytes := List Nat

/-- `data[s : s+l]` (a `RaggedView2(starts, lens)` row) -/
def slice {α} (d : List α) (s l : Nat) : List α := (d.drop s).take l

/-! ### the extractor (struct of parallel arrays, as the code keeps it) -/

structure Ext where
  data : Bytes
  fStart : List (List Nat)     -- n_entries × n_fields
  fLen : List (List Nat)
  eStart : List Nat
  eEnd : List Nat
  contiguous : Bool
  deriving Repr, DecidableEq

structure Row where
  fS : List Nat
  fL : List Nat
  eS : Nat
  eE : Nat
  deriving Repr, DecidableEq

def Ext.len (e : Ext) : Nat := e.fStart.length

/-- the i-th entries of the four parallel arrays -/
def Ext.rows (e : Ext) : List Row :=
  List.zipWith (fun (p : List Nat × List Nat) (q : Nat × Nat) => Row.mk p.1 p.2 q.1 q.2)
    (List.zip e.fStart e.fLen) (List.zip e.eStart e.eEnd)

def Ext.ofRows (data : Bytes) (rs : List Row) (c : Bool) : Ext :=
  ⟨data, rs.map (·.fS), rs.map (·.fL), rs.map (·.eS), rs.map (·.eE), c⟩

/-- `TextThroughputExtractor.__getitem__` with the index already resolved to positions:
the same index is applied to all four arrays, the data is shared, `is_contiguous=False` -/
def Ext.select (e : Ext) (ixs : List Nat) : Ext :=
  { data := e.data, fStart := gather e.fStart ixs, fLen := gather e.fLen ixs,
    eStart := gather e.eStart ixs, eEnd := gather e.eEnd ixs, contiguous := false }

def Ext.index (e : Ext) (ix : Idx) : Option Ext := (ix.toList e.len).map e.select

/-- `TextThroughputExtractor.concatenate`: `off` is the running sum of the data sizes of the
buffers already placed (`offsets = insert(cumsum(sizes), 0, 0)`), all offsets are shifted by it -/
def concatFrom (off : Nat) : List Ext → Ext
  | [] => ⟨[], [], [], [], [], true⟩
  | e :: es =>
    let r := concatFrom (off + e.data.length) es
    { data := e.data ++ r.data,
      fStart := e.fStart.map (·.map (· + off)) ++ r.fStart,
      fLen := e.fLen ++ r.fLen,
      eStart := e.eStart.map (· + off) ++ r.eStart,
      eEnd := e.eEnd.map (· + off) ++ r.eEnd,
      contiguous := e.contiguous && r.contiguous }

def Ext.concat (es : List Ext) : Ext := concatFrom 0 es

/-- `_make_contigous`, row by row: `acc` = `new_starts[i]` = sum of the previous record lengths;
`field_starts - (entry_starts - new_starts)` is written `fs + acc - eS` (equal whenever the
field lies inside its record, which is the invariant `WF`) -/
def compactRows (data : Bytes) : Nat → List Row → List Row × Bytes
  | _, [] => ([], [])
  | acc, r :: rs =>
    let n := r.eE - r.eS
    let rest := compactRows data (acc + n) rs
    ({ fS := r.fS.map (fun s => s + acc - r.eS), fL := r.fL, eS := acc, eE := acc + n } :: rest.1,
     slice data r.eS n ++ rest.2)

def Ext.compact (e : Ext) : Ext :=
  let r := compactRows e.data 0 e.rows
  Ext.ofRows r.2 r.1 true

/-- the `data` property: compacts (in place) when not contiguous. Returns the new state too. -/
def Ext.touch (e : Ext) : Ext := if e.contiguous then e else e.compact

def Ext.bytes (e : Ext) : Bytes := e.touch.data

/-- `get_field_by_number(j)` : the text of column j of every entry -/
def Ext.fieldText (e : Ext) (j : Nat) : List Bytes :=
  e.rows.map (fun r => slice e.data (r.fS.getD j 0) (r.fL.getD j 0))

/-- `get_fields_by_range(from_nr=j)` (VCF "rest of line"): shipped rule, measured from `entry_ends` -/
def Ext.restOld (e : Ext) (j : Nat) : List Bytes :=
  e.rows.map (fun r => slice e.data (r.fS.getD j 0) (r.eE - r.fS.getD j 0 - 1))

/-- `get_fields_by_range(from_nr=j)` after the repair: up to the end of the last (CR-stripped) field -/
def Ext.rest (e : Ext) (j : Nat) : List Bytes :=
  e.rows.map (fun r => slice e.data (r.fS.getD j 0) (r.fS.getLastD 0 + r.fL.getLastD 0 - r.fS.getD j 0))

def byteAt (d : Bytes) (i : Nat) : Nat := d.getD i 0

/-- `SAMBufferExctractor._get_extra_field` as shipped: measured from `entry_ends` (which was CR-adjusted) -/
def Ext.samExtraOld (e : Ext) : List Bytes :=
  e.rows.map (fun r =>
    let st := r.fS.getLastD 0 + r.fL.getLastD 0 + 1
    slice e.data st (r.eE - st - 1))

/-- `SAMBufferExctractor._get_extra_field` (repaired): everything after the 11th field and its
separator, up to the line terminator ("\n" or "\r\n") -/
def Ext.samExtra (e : Ext) : List Bytes :=
  e.rows.map (fun r =>
    let st := r.fS.getLastD 0 + r.fL.getLastD 0 + 1
    let lineEnd := r.eE - 1 - (if byteAt e.data (r.eE - 2) == 13 then 1 else 0)
    slice e.data st (lineEnd - st))

/-! ### construction from a raw chunk -/

def posFrom (p : Nat → Bool) : Nat → Bytes → List Nat
  | _, [] => []
  | k, b :: bs => if p b then k :: posFrom p (k + 1) bs else posFrom p (k + 1) bs

def chunksOf {α} (n : Nat) : Nat → List α → List (List α)
  | 0, _ => []
  | f + 1, l => if l.isEmpty || n == 0 then [] else l.take n :: chunksOf n f (l.drop n)

/-- subtract one from the end of the last field of a row when the byte before it is CR -/
def stripCR (d : Bytes) (ends : List Nat) : List Nat :=
  match ends.getLast? with
  | none => ends
  | some e => ends.dropLast ++ [if byteAt d (e - 1) == 13 then e - 1 else e]

/-- `DelimitedBuffer.from_raw_buffer` + `_get_buffer_extractor` + `_modify_for_carriage_return`.
`fixed = false` is the shipped rule `entry_ends = ends[:, -1] + 1` *after* the CR adjustment;
`fixed = true` is the repaired rule (record end = one past the newline). -/
def buildDelimited (fixed : Bool) (sep : Nat) (raw : Bytes) : Option Ext :=
  let isDelim := fun b => b == 10 || b == sep
  let delims := posFrom isDelim 0 raw              -- flatnonzero(mask)
  let dchars := raw.filter isDelim                  -- chunk[delimiters]
  match (posFrom (· == 10) 0 raw).getLast? with    -- delimiters[entry_ends[-1]]
  | none => none
  | some lastNl =>
    let nCols := dchars.findIdx (· == 10) + 1      -- entry_ends[0] + 1
    let data := raw.take (lastNl + 1)
    let ds := delims.filter (· ≤ lastNl)
    let starts := (0 :: ds.dropLast.map (· + 1))
    let sRows := chunksOf nCols ds.length starts
    let eRows := chunksOf nCols ds.length ds
    if ds.length % nCols != 0 then none else
    let cr := match eRows.head? with
      | some r0 => (r0.getLastD 0 != 0) && byteAt data (r0.getLastD 0 - 1) == 13
      | none => false
    let eRows' := if cr then eRows.map (stripCR data) else eRows
    some { data := data, fStart := sRows,
           fLen := List.zipWith (fun ss es => List.zipWith (fun s e => e - s) ss es) sRows eRows',
           eStart := sRows.map (·.headD 0),
           eEnd := (if fixed then eRows else eRows').map (fun r => r.getLastD 0 + 1),
           contiguous := true }

/-- `RaggedArray(delimiters, n_fields)` with `n_fields` = the gaps between the newlines among the delimiter
characters (`chunk[delimiters]`): the delimiter positions regrouped line by line (each group ends with a newline position;
delimiters after the last newline are dropped) -/
def splitGroups : List Nat → List Nat → List Nat → List (List Nat)
  | c :: cs, p :: ps, cur => if c == 10 then (cur ++ [p]) :: splitGroups cs ps [] else splitGroups cs ps (cur ++ [p])
  | _, _, _ => []

/-- `SAMBuffer._get_buffer_extractor` (+ its `_modify_for_carriage_return`): the first 11 columns
are fields, the record runs to one past the newline; when the first line ends in CR, a CR before
each line's newline is stripped from the line's last column -/
def buildSam (raw : Bytes) : Option Ext :=
  let delims := posFrom (fun b => b == 10 || b == 9) 0 raw
  let groups := splitGroups (raw.filter (fun b => b == 10 || b == 9)) delims []
  match groups.getLast? with
  | none => none
  | some lastG =>
    let lastNl := lastG.getLastD 0
    let data := raw.take (lastNl + 1)
    let lineStarts := 0 :: (groups.dropLast.map (fun g => g.getLastD 0 + 1))
    let cr := match groups.head? with
      | some g0 => (g0.getLastD 0 != 0) && byteAt data (g0.getLastD 0 - 1) == 13
      | none => false
    if groups.any (fun g => g.length < 11) then none else
    let groups' := if cr then groups.map (stripCR data) else groups
    let sRows := List.zipWith (fun ls g => (ls :: g.map (· + 1)).take 11) lineStarts groups
    let eRows := groups'.map (·.take 11)
    some { data := data, fStart := sRows,
           fLen := List.zipWith (fun ss es => List.zipWith (fun s e => e - s) ss es) sRows eRows,
           eStart := lineStarts,
           eEnd := groups.map (fun g => g.getLastD 0 + 1),
           contiguous := true }

/-- `OneLineBuffer.from_raw_buffer` + `_get_buffer_extractor` + `_modify_for_carriage_return`
for `k` lines per entry with per-line start offsets `offs` (FASTA `[1,0]`, FASTQ `[1,0,0,0]`) -/
def buildKLine (k : Nat) (offs : List Nat) (raw : Bytes) : Option Ext :=
  let nlAll := posFrom (· == 10) 0 raw
  if nlAll.length < k || k == 0 then none else
  let nls := nlAll.take (nlAll.length - nlAll.length % k)
  let data := raw.take (nls.getLastD 0 + 1)
  let tmp := 0 :: nls.map (· + 1)
  let endRows := chunksOf k nls.length nls
  let guard := match endRows.head? with
    | some r0 => r0.headD 0 < 1
    | none => true
  let cr := !guard && ((endRows.take k).any (fun r => byteAt data (r.headD 0 - 1) == 13))
  let endRows' := if cr then endRows.map (·.map (fun e => if byteAt data (e - 1) == 13 then e - 1 else e)) else endRows
  let startRows := (chunksOf k nls.length tmp.dropLast).map (fun r => List.zipWith (· + ·) r offs)
  let lineStartRows := chunksOf k nls.length tmp.dropLast
  some { data := data, fStart := startRows,
         fLen := List.zipWith (fun ss es => List.zipWith (fun s e => e - s) ss es) startRows endRows',
         eStart := lineStartRows.map (·.headD 0),
         eEnd := endRows.map (fun r => r.getLastD 0 + 1),
         contiguous := true }

/-! ### writing modified data: `LazyBNPDataClass.get_buffer` → `join_fields` -/

def transposeN {α} (n : Nat) (cols : List (List (List α))) : List (List (List α)) :=
  (List.range n).map (fun i => cols.map (fun c => c.getD i []))

def intercalate (sep : Bytes) : List Bytes → Bytes
  | [] => []
  | [x] => x
  | x :: y :: r => x ++ sep ++ intercalate sep (y :: r)

/-- `join_columns(columns, sep).ravel()`: every row is its fields separated by `sep`, then "\n" -/
def joinDelimited (sep : Nat) (n : Nat) (cols : List (List Bytes)) : Bytes :=
  ((transposeN n cols).map (fun r => intercalate [sep] r ++ [10])).flatten

/-- `OneLineBuffer.join_fields`: line i = (header char if i = 0) ++ field ++ "\n" -/
def joinKLine (header : Nat) (n : Nat) (cols : List (List Bytes)) : Bytes :=
  ((transposeN n cols).map (fun r =>
     match r with
     | [] => []
     | h :: t => (header :: h ++ [10]) ++ (t.map (· ++ [10])).flatten)).flatten

/-! ### BAM: records are `block_size`-prefixed blobs -/

def le32 (d : Bytes) (i : Nat) : Nat := byteAt d i + 256 * byteAt d (i + 1) + 65536 * byteAt d (i + 2) + 16777216 * byteAt d (i + 3)

/-- `BamBuffer._find_starts`: follow the block sizes while the record fits -/
def bamStarts (d : Bytes) : Nat → Nat → List Nat
  | 0, _ => []
  | f + 1, s => if s ≤ d.length then s :: (if s + 4 ≤ d.length then bamStarts d f (s + le32 d s + 4) else []) else []

def buildBam (raw : Bytes) : Ext :=
  let st := bamStarts raw (raw.length + 1) 0
  { data := raw.take (st.getLastD 0), fStart := st.dropLast.map (fun _ => []), fLen := st.dropLast.map (fun _ => []),
    eStart := st.dropLast, eEnd := st.drop 1, contiguous := true }

/-! ### Specification: a table is a list of records; programs over tables -/

/-- a record = its raw bytes + the table of (offset, length) of its fields relative to the record -/
structure Rec where
  raw : Bytes
  rel : List (Nat × Nat)
  deriving Repr, DecidableEq

def Rec.field (r : Rec) (j : Nat) : Bytes :=
  match r.rel[j]? with
  | some (s, l) => slice r.raw s l
  | none => []

def absRow (data : Bytes) (r : Row) : Rec :=
  ⟨slice data r.eS (r.eE - r.eS), List.zipWith (fun s l => (s - r.eS, l)) r.fS r.fL⟩

/-- abstraction function: the list of records an extractor denotes -/
def Ext.abs (e : Ext) : List Rec := e.rows.map (absRow e.data)

/-- selection / concatenation programs (leaf k = the k-th table read from a file;
`touch` = the bytes were asked for in between, which compacts the extractor in place) -/
inductive Prog where
  | leaf (k : Nat)
  | sel (p : Prog) (ix : Idx)
  | cat (p q : Prog)
  | catRange (a n : Nat)        -- np.concatenate of tables a .. a+n-1 (n-ary concatenate)
  | touch (p : Prog)
  | seq (p q : Prog)            -- evaluate p (e.g. write a child of a shared table), discard it, continue with q
  deriving Repr

def Prog.evalExt (tabs : List Ext) : Prog → Option Ext
  | .leaf k => tabs[k]?
  | .sel p ix => (p.evalExt tabs).bind (fun e => e.index ix)
  | .cat p q =>
    match p.evalExt tabs, q.evalExt tabs with
    | some a, some b => some (Ext.concat [a, b])
    | _, _ => none
  | .catRange a n => if a + n ≤ tabs.length ∧ 0 < n then some (Ext.concat ((tabs.drop a).take n)) else none
  | .touch p => (p.evalExt tabs).map Ext.touch
  | .seq p q => (p.evalExt tabs).bind (fun _ => q.evalExt tabs)

def Prog.evalSpec {α} (tabs : List (List α)) : Prog → Option (List α)
  | .leaf k => tabs[k]?
  | .sel p ix => (p.evalSpec tabs).bind (fun l => pyIndex l ix)
  | .cat p q =>
    match p.evalSpec tabs, q.evalSpec tabs with
    | some a, some b => some (a ++ b)
    | _, _ => none
  | .catRange a n => if a + n ≤ tabs.length ∧ 0 < n then some ((tabs.drop a).take n).flatten else none
  | .touch p => p.evalSpec tabs
  | .seq p q => (p.evalSpec tabs).bind (fun _ => q.evalSpec tabs)

/-- what the property says is written: the selected records' original bytes, in order -/
def specBytes (recs : List Rec) : Bytes := (recs.map (·.raw)).flatten

/-- what the property says a modified write contains: per record, field j is the new text if j
was replaced, the original text otherwise -/
def specFields (nF : Nat) (repl : List (Nat × List Bytes)) (recs : List Rec) : List (List Bytes) :=
  (List.range recs.length).map (fun i =>
    (List.range nF).map (fun j =>
      match repl.find? (·.1 == j) with
      | some (_, col) => col.getD i []
      | none => ((recs[i]?).map (·.field j)).getD []))

end C04

namespace C04
/-! ### eager fallback: buffers without `concatenate` (FASTQ, two-line FASTA)
`np.concatenate` on such lazy tables materialises them (`get_data_object`: every entry-type field is
fetched as text) and yields an eager table; a table is then either a pass-through extractor or rows of
field texts (the fields in question are text columns, parsing and formatting them is the identity). -/

def transposeRows (n : Nat) (cols : List (List Bytes)) : List (List Bytes) :=
  (List.range n).map (fun i => cols.map (fun c => c.getD i []))

/-- the entry-type fields (buffer field numbers `fidx`) of every record, as text -/
def Ext.entryRows (fidx : List Nat) (e : Ext) : List (List Bytes) := transposeRows e.len (fidx.map e.fieldText)

inductive Tab where
  | lz (e : Ext)
  | eg (rows : List (List Bytes))
  deriving Repr

def Tab.rows (fidx : List Nat) : Tab → List (List Bytes)
  | .lz e => e.entryRows fidx
  | .eg r => r

def Prog.evalTab (canCat : Bool) (fidx : List Nat) (tabs : List Ext) : Prog → Option Tab
  | .leaf k => (tabs[k]?).map Tab.lz
  | .sel p ix =>
    match p.evalTab canCat fidx tabs with
    | some (.lz e) => (e.index ix).map Tab.lz
    | some (.eg r) => (PyIdx.pyIndex r ix).map Tab.eg
    | none => none
  | .cat p q =>
    match p.evalTab canCat fidx tabs, q.evalTab canCat fidx tabs with
    | some (.lz a), some (.lz b) =>
      if canCat then some (.lz (Ext.concat [a, b])) else some (.eg (a.entryRows fidx ++ b.entryRows fidx))
    | some a, some b => some (.eg (a.rows fidx ++ b.rows fidx))
    | _, _ => none
  | .catRange a n =>
    if a + n ≤ tabs.length ∧ 0 < n then
      (if canCat then some (.lz (Ext.concat ((tabs.drop a).take n)))
       else some (.eg (((tabs.drop a).take n).map (·.entryRows fidx)).flatten))
    else none
  | .touch p =>
    match p.evalTab canCat fidx tabs with
    | some (.lz e) => some (.lz e.touch)
    | some (.eg r) => some (.eg r)
    | none => none
  | .seq p q => (p.evalTab canCat fidx tabs).bind (fun _ => q.evalTab canCat fidx tabs)
end C04

namespace C04
/-! ### executable checker of the representation invariant (proved sound in Props; the driver
evaluates it on every extractor built from a generated file) -/
def rowWFb (dlen : Nat) (r : Row) : Bool :=
  decide (r.eS ≤ r.eE) && decide (r.eE ≤ dlen) && (r.fS.length == r.fL.length) &&
  r.fS.all (fun s => decide (r.eS ≤ s)) && (List.zip r.fS r.fL).all (fun p => decide (p.1 + p.2 ≤ r.eE))

def Ext.invB (e : Ext) : Bool :=
  (e.fLen.length == e.fStart.length) && (e.eStart.length == e.fStart.length) && (e.eEnd.length == e.fStart.length) &&
  e.rows.all (rowWFb e.data.length) && (!e.contiguous || e.data == specBytes e.abs)

/-- rest of line from field j, as a function of the abstract record -/
def Rec.rest (r : Rec) (j : Nat) : Bytes :=
  match r.rel[j]?, r.rel.getLast? with
  | some (s, _), some (ls, ll) => slice r.raw s (ls + ll - s)
  | _, _ => []

/-- everything after the last regular field and its separator, up to the line terminator
("\n" or "\r\n") (SAM tags) -/
def Rec.extra (r : Rec) : Bytes :=
  match r.rel.getLast? with
  | some (ls, ll) =>
    let lineEnd := r.raw.length - 1 - (if byteAt r.raw (r.raw.length - 2) == 13 then 1 else 0)
    slice r.raw (ls + ll + 1) (lineEnd - (ls + ll + 1))
  | none => []
end C04

namespace C04
/-- which rule the current tree uses for the record end of delimited formats
(false = shipped `ends[:, -1] + 1` after CR stripping, true = repaired) -/
def delimitedFixed : Bool := true

/-! ### modified writes as the driver runs them: `LazyBNPDataClass.get_buffer` fetches every entry-type column that was not
replaced as text (`get_field_range_as_text`) and hands the columns to the buffer class's `join_fields` -/

/-- how one column of the entry type is fetched from the extractor -/
inductive ColKind where
  | field (k : Nat)     -- `get_field_by_number(k)`
  | rest (k : Nat)      -- `get_fields_by_range(from_nr = k)` (VCF genotype columns)
  | extra               -- `SAMBufferExctractor._get_extra_field` (SAM tags)
  deriving Repr, DecidableEq

/-- the entry type's columns per format (FASTQ's third entry field is the fourth line) -/
def colKinds (fmt : String) (nF : Nat) : List ColKind :=
  (List.range nF).map (fun j =>
    match fmt, j with
    | "sam", 11 => ColKind.extra
    | "vcfg", 8 => ColKind.rest 8
    | "fastq", 2 => ColKind.field 3
    | _, _ => ColKind.field j)

def Ext.col (e : Ext) : ColKind → List Bytes
  | .field k => e.fieldText k
  | .rest k => if delimitedFixed then e.rest k else e.restOld k
  | .extra => e.samExtra

/-- the columns `get_buffer` assembles: replaced columns as given, the others fetched as text -/
def Ext.columns (kinds : List ColKind) (repl : List (Nat × List Bytes)) (e : Ext) : List (List Bytes) :=
  (List.range kinds.length).map (fun j =>
    match repl.find? (·.1 == j) with
    | some (_, col) => col
    | none => e.col (kinds.getD j (.field j)))

/-- the writer's record layout -/
inductive Layout where
  | delimited (sep : Nat)                 -- `DelimitedBuffer.join_fields`
  | kline (header : Nat) (plus : Bool)    -- `OneLineBuffer.join_fields`; `plus`: FASTQ inserts a '+' line before the quality
  deriving Repr

/-- `join_fields` on the assembled columns -/
def writeCols (lay : Layout) (n : Nat) (cols : List (List Bytes)) : Bytes :=
  match lay with
  | .delimited sep => joinDelimited sep n cols
  | .kline h false => joinKLine h n cols
  | .kline h true => joinKLine h n (cols.take 2 ++ [List.replicate n [43]] ++ cols.drop 2)

/-- what `bnp.open(out, "w").write(t)` hands to the file for a lazy table with replaced columns (or a foreign writer) -/
def Ext.writeModified (lay : Layout) (kinds : List ColKind) (repl : List (Nat × List Bytes)) (e : Ext) : Bytes :=
  writeCols lay e.len (e.columns kinds repl)

/-- the same for an eager table (rows of field texts) -/
def writeRowsModified (lay : Layout) (nF : Nat) (repl : List (Nat × List Bytes)) (rows : List (List Bytes)) : Bytes :=
  writeCols lay rows.length ((List.range nF).map (fun j =>
    match repl.find? (·.1 == j) with
    | some (_, col) => col
    | none => rows.map (fun r => r.getD j [])))

/-- the specification of a column: a function of the abstract record alone -/
def Rec.col (r : Rec) : ColKind → Bytes
  | .field k => r.field k
  | .rest k => r.rest k
  | .extra => r.extra

/-- one record of a modified write: replaced columns take the new text of this record, the others its original text -/
def specRow (kinds : List ColKind) (repl : List (Nat × List Bytes)) (i : Nat) (r : Rec) : List Bytes :=
  (List.range kinds.length).map (fun j =>
    match repl.find? (·.1 == j) with
    | some (_, col) => col.getD i []
    | none => r.col (kinds.getD j (.field j)))

def specRows (kinds : List ColKind) (repl : List (Nat × List Bytes)) (recs : List Rec) : List (List Bytes) :=
  (List.range recs.length).map (fun i => specRow kinds repl i (recs.getD i ⟨[], []⟩))

/-- the bytes of one written record -/
def layoutRow : Layout → List Bytes → Bytes
  | .delimited sep, row => intercalate [sep] row ++ [10]
  | .kline h plus, row =>
    match (if plus then row.take 2 ++ [[43]] ++ row.drop 2 else row) with
    | [] => []
    | x :: t => (h :: x ++ [10]) ++ (t.map (· ++ [10])).flatten
end C04
