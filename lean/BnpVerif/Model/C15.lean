import BnpVerif.Model.C01
/-! C15 — malformed input is reported with the right line number.
Model of `OneLineBuffer._validate` / `FastQBuffer._validate` (marker at every entry start, `+` on
the third line, and the line-number formulas), of the row computed from an `EncodingError` offset
in delimited columns (matrix and ragged formula), and of the offset layering of the readers
(each layer adds the number of lines delivered before the chunk). Core-only. -/
namespace C15
open C01

abbrev Line := List Nat          -- a line without its newline
abbrev Entry := List Line        -- n lines

def PLUS : Nat := 43

/-- first index at which `p` fails, if any -/
def firstBad {α} (p : α → Bool) (l : List α) : Option Nat :=
  let i := l.findIdx (fun a => !p a)
  if i < l.length then some i else none

def markerOK (marker : Nat) (e : Entry) : Bool :=
  match e with
  | (c :: _) :: _ => c == marker
  | _ => false

def plusOK (e : Entry) : Bool :=
  match e with
  | _ :: _ :: (c :: _) :: _ => c == PLUS
  | _ => false

/-- the earlier of two optional line numbers (the header line wins a tie) -/
def minLine : Option Nat → Option Nat → Option Nat
  | some a, some b => some (if b < a then b else a)
  | some a, none => some a
  | none, b => b

/-- `_validate` of one chunk made of whole entries; `n` lines per entry; `checkPlus` for FASTQ.
Mirrors the (repaired) code: the first entry whose marker is wrong gives line entry·n, the first
entry whose third line does not start with `+` gives line entry·n + 2, and the EARLIER of the two
lines is reported (`FastQBuffer._validate` raises the `+` error only if its line is smaller). -/
def validateChunk (n : Nat) (marker : Nat) (checkPlus : Bool) (es : List Entry) : Option Nat :=
  minLine ((firstBad (markerOK marker) es).map (· * n))
    (if checkPlus then (firstBad plusOK es).map (· * n + 2) else none)

/-- the code before the repair: the marker test over ALL entries of the chunk came first, so a
chunk holding a bad `+` line and, later, a bad header reported the later line -/
def validateChunkOld (n : Nat) (marker : Nat) (checkPlus : Bool) (es : List Entry) : Option Nat :=
  match firstBad (markerOK marker) es with
  | some i => some (i * n)
  | none =>
    if checkPlus then
      match firstBad plusOK es with
      | some i => some (i * n + 2)
      | none => none
    else none

/-- the reader layering: chunks are validated in order; the error of chunk `i` is reported as
(lines delivered in chunks before `i`) + (local line). `none` = the read completes. -/
def reported (n : Nat) (marker : Nat) (checkPlus : Bool) : Nat → List (List Entry) → Option Nat
  | _, [] => none
  | linesRead, c :: cs =>
    match validateChunk n marker checkPlus c with
    | some l => some (linesRead + l)
    | none => reported n marker checkPlus (linesRead + c.length * n) cs

def reportedOld (n : Nat) (marker : Nat) (checkPlus : Bool) : Nat → List (List Entry) → Option Nat
  | _, [] => none
  | linesRead, c :: cs =>
    match validateChunkOld n marker checkPlus c with
    | some l => some (linesRead + l)
    | none => reportedOld n marker checkPlus (linesRead + c.length * n) cs

/-! ### delimited columns: row of an encoding-error offset -/

/-- digit matrix (all rows padded to width `w`): `row = offset // w` -/
def rowOfOffsetMatrix (w : Nat) (offset : Nat) : Nat := offset / w

def cumsum : List Nat → List Nat
  | [] => []
  | x :: xs => x :: (cumsum xs).map (· + x)

/-- ragged text: `np.searchsorted(np.cumsum(lengths), offset, side="right")` = number of prefix
sums ≤ offset -/
def rowOfOffsetRagged (lengths : List Nat) (offset : Nat) : Nat :=
  (cumsum lengths).countP (fun c => c ≤ offset)

/-- rows are parsed chunk by chunk; the first chunk with a bad row reports rows-before + row -/
def reportedRows : Nat → List (List Bool) → Option Nat
  | _, [] => none
  | before, c :: cs =>
    match firstBad id c with
    | some i => some (before + i)
    | none => reportedRows (before + c.length) cs

/-! ### delimited column-count validation (`DelimitedBuffer.from_raw_buffer`) -/

/-- every line must have as many columns as the first line of the same buffer -/
def firstIrregular (counts : List Nat) : Option Nat :=
  match counts with
  | [] => none
  | c :: _ => firstBad (fun x => x == c) counts

def reportedCols : Nat → List (List Nat) → Option Nat
  | _, [] => none
  | before, c :: cs =>
    match firstIrregular c with
    | some i => some (before + i)
    | none => reportedCols (before + c.length) cs

/-! ### bytes → entries (used by the driver to run the real chunking of C01 through validation) -/

def entriesOf (n : Nat) (b : Bytes) : List Entry := entriesK n b

/-- end-to-end model: read in chunks (C01 model), validate each delivered chunk in order -/
def readValidate (n : Nat) (marker : Nat) (checkPlus : Bool) (mode : Mode) (file : Bytes) (k : Nat) : Option Nat :=
  reported n marker checkPlus 0 ((readAll (Fmt.kLine n) true mode file k).map (entriesOf n))

/-! ### a truncated last record (fix "Incomplete entry at end of file")

At the end of the file the reader looks at what is left after the last complete entry
(`chunk[buff.size:]` of the final chunk, or the pending bytes when no complete entry was found): anything but
line ends is a truncated entry, reported at the line where it starts = the number of lines delivered.
Before the repair these bytes were dropped silently and a table without the last record was returned. -/

/-- the bytes of the terminated file that the chunked reader never delivered -/
def leftoverOf (n : Nat) (mode : Mode) (file : Bytes) (k : Nat) : Bytes :=
  (norm file).drop (readAll (Fmt.kLine n) true mode file k).flatten.length

/-- chunked reading with the end-of-file test -/
def readValidateT (n : Nat) (marker : Nat) (checkPlus : Bool) (mode : Mode) (file : Bytes) (k : Nat) : Option Nat :=
  match readValidate n marker checkPlus mode file k with
  | some l => some l
  | none =>
    if isBlank (leftoverOf n mode file k) then none
    else some (countNL (readAll (Fmt.kLine n) true mode file k).flatten)

/-- chunked reading as the code does it: validate the delivered chunks in order; when the iteration ends, the reader's own
end-of-file test on the bytes it is looking at (`readAllRest`: site 1 or site 2) -/
def readValidateR (n : Nat) (marker : Nat) (checkPlus : Bool) (mode : Mode) (file : Bytes) (k : Nat) : Option Nat :=
  match readValidate n marker checkPlus mode file k with
  | some l => some l
  | none =>
    if isBlank (readAllRest (Fmt.kLine n) mode file k) then none
    else some (countNL (readAll (Fmt.kLine n) true mode file k).flatten)

/-- `f.read()`: the whole file is one buffer; `Res.err` = "no complete entry" (`IncompleteEntryException`) -/
def wholeValidateT (n : Nat) (marker : Nat) (checkPlus : Bool) (file : Bytes) : Res (Option Nat) :=
  let c := norm file
  if c.isEmpty then .ok none
  else if countNL c < n then .err
  else
    let d := c.take ((Fmt.kLine n).cutLen c)
    match validateChunk n marker checkPlus (entriesOf n d) with
    | some l => .ok (some l)
    | none => if isBlank (c.drop d.length) then .ok none else .ok (some (countNL d))

/-! ### end to end for delimited formats: the C01 reader cuts the file, every chunk's rows are parsed -/

/-- cut `l` into consecutive pieces of the given sizes -/
def splitBy {α} : List Nat → List α → List (List α)
  | [], _ => []
  | n :: ns, l => l.take n :: splitBy ns (l.drop n)

/-- `flags[i]` = "data line i parses" (zero-based, counted from the start of the data). The file is
read in chunks by the C01 reader model; the rows of each chunk are parsed in order. -/
def readValidateRows (flags : List Bool) (mode : Mode) (file : Bytes) (k : Nat) : Option Nat :=
  reportedRows 0 (splitBy ((readAll (Fmt.kLine 1) true mode file k).map countNL) flags)

/-- column validation happens when a buffer is made, value parsing when its fields are read: per chunk, a
column-count error of that chunk precedes its parse error -/
def reportedBoth (colcheck : Bool) : Nat → List (List Nat) → List (List Bool) → Option Nat
  | before, c :: cs, f :: fs =>
    match (if colcheck then firstIrregular c else none) with
    | some i => some (before + i)
    | none => match firstBad id f with
      | some i => some (before + i)
      | none => reportedBoth colcheck (before + c.length) cs fs
  | _, _, _ => none

def readValidateDelim (colcheck : Bool) (cols : List Nat) (flags : List Bool) (mode : Mode) (file : Bytes) (k : Nat) : Option Nat :=
  let sizes := (readAll (Fmt.kLine 1) true mode file k).map countNL
  reportedBoth colcheck 0 (splitBy sizes cols) (splitBy sizes flags)

/-! ### lazy reading: the chunk's offset is captured when the chunk is read, used when a field is looked at -/

/-- a lazily read chunk remembers the number of lines delivered before it (`ItemGetter._start_line`,
captured by `NpDataclassReader.read_chunk` BEFORE it asks the reader for the chunk) -/
structure LazyChunk where
  start : Nat
  rows : List Bool

/-- reading lazily: nothing is parsed; every chunk is handed out with its captured start line, while
the reader's own counter (`NumpyFileReader.n_lines_read`) moves on -/
def readLazy : Nat → List (List Bool) → List LazyChunk
  | _, [] => []
  | linesRead, c :: cs => { start := linesRead, rows := c } :: readLazy (linesRead + c.length) cs

/-- a field of a lazily read chunk is parsed when it is first looked at — possibly long after later
chunks were read; `ItemGetter.__call__` adds the chunk's own start line -/
def accessLazy (c : LazyChunk) : Option Nat := (firstBad id c.rows).map (· + c.start)

/-- `np.concatenate` of lazily read chunks (`ItemGetter.concatenate`): the buffers are joined, the start line of the FIRST
operand is kept -/
def concatLazy (cs : List LazyChunk) : LazyChunk :=
  { start := (cs.head?.map (·.start)).getD 0, rows := (cs.map (·.rows)).flatten }

end C15
