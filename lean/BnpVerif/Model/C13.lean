/-! C13 — sliding-window sequence functions. Executable model of `sequence/rollable.py`
(`RollableFunction.rolling_window`), `sequence/kmers.py` (`KmerEncoder`, `convolution`,
`_get_dna_kmers`, `get_kmers`, `count_kmers`), `sequence/minimizers.py`, `sequence/string_matcher.py`
(`StringMatcher`), `sequence/position_weight_matrix.py` (`PWM.calculate_scores`, `get_motif_scores`),
`sequence/count_encoded.py` (`count_encoded`), `encodings/kmer_encodings.py`
(`KmerEncoding.encode/to_string`), plus the property-level specification. Core-only, import-free. -/
namespace C13

/-! ### Specification -/

/-- the values defined on ONE sequence: `f` of every window `[i, i+w)` lying entirely inside it
(none when the sequence is shorter than `w`) -/
def windows {α β} (w : Nat) (f : List α → β) (xs : List α) : List β :=
  (List.range (xs.length + 1 - w)).map (fun i => f ((xs.drop i).take w))

/-- row-local specification: every row on its own -/
def spec {α β} (w : Nat) (f : List α → β) (rows : List (List α)) : List (List β) := rows.map (windows w f)

/-- little-endian base-`n` number of the letters (Horner form) -/
def hashLE (n : Nat) : List Nat → Nat
  | [] => 0
  | x :: xs => x + n * hashLE n xs

/-! ### Model of the shared mechanism: flatten, convolve, re-wrap, trim -/

/-- length of Python `row[:e]` for a row of declared length `len` (`none` = `[:None]`) -/
def endLen (len : Nat) : Option Int → Nat
  | none => len
  | some e => if e < 0 then len - e.natAbs else min len e.toNat

/-- `RaggedArray(flat, lens, safe_mode=False)[..., :e]`: row `i` is
`flat[start_i : start_i + endLen len_i e]` with the DECLARED lengths (the flat result may be
shorter than their sum; the missing tail is never addressed) -/
def rewrapSlice {β} (e : Option Int) : List Nat → List β → List (List β)
  | [], _ => []
  | l :: ls, c => c.take (endLen l e) :: rewrapSlice e ls (c.drop l)

/-- the shipped slice end: `[..., :(-w+1)]`, i.e. `[..., :0]` for `w = 1` -/
def trimOld (w : Nat) : Option Int := some (-(w : Int) + 1)

/-- the repaired slice end: `[..., :(-w+1) or None]` -/
def trimNew (w : Nat) : Option Int := if -(w : Int) + 1 = 0 then none else some (-(w : Int) + 1)

/-- flatten, apply `f` to every flat window (the result is `w-1` short), re-wrap with the original
row lengths, trim. `extra` = what the flat result carries beyond the valid windows (nothing for
`sliding_window_view`; the partial sums of `PWM.calculate_scores`). -/
def rollingWith {α β} (trim : Nat → Option Int) (w : Nat) (f : List α → β) (extra : List β)
    (rows : List (List α)) : List (List β) :=
  rewrapSlice (trim w) (rows.map List.length) (windows w f rows.flatten ++ extra)

def rolling {α β} (w : Nat) (f : List α → β) (rows : List (List α)) : List (List β) :=
  rollingWith trimNew w f [] rows

def rollingOld {α β} (w : Nat) (f : List α → β) (rows : List (List α)) : List (List β) :=
  rollingWith trimOld w f [] rows

/-! ### `mode="same"`: one value per position, windows that do not fit in the row set to 0 -/

/-- start of Python `row[s:]` for a row of length `len` -/
def startIdx (len : Nat) (s : Int) : Nat := if s < 0 then len - s.natAbs else min len s.toNat

/-- `row[s:] = 0` (`none` = no assignment) -/
def zeroFrom {β} (zero : β) (s : Option Int) (row : List β) : List β :=
  match s with
  | none => row
  | some s => row.take (startIdx row.length s) ++ List.replicate (row.length - startIdx row.length s) zero

/-- re-wrap a full-length flat result by row lengths (safe shape: lengths sum to the data) -/
def rewrapFull {β} : List Nat → List β → List (List β)
  | [], _ => []
  | l :: ls, c => c.take l :: rewrapFull ls (c.drop l)

/-- the shipped rule: `out[..., (-w+1):] = 0` — for `w = 1` that is `out[..., 0:] = 0` -/
def sameStartOld (w : Nat) : Option Int := some (-(w : Int) + 1)
/-- the repaired rule: nothing is zeroed for `w = 1` -/
def sameStartNew (w : Nat) : Option Int := if w ≤ 1 then none else some (-(w : Int) + 1)

/-- `rolling_window(..., mode="same")`: `as_strided` yields one window per flat position (the last
`w-1` of them run past the buffer: `tail` stands for whatever `f` returns on those), re-wrap with
the row lengths, zero the last `w-1` columns of every row -/
def rollingSameWith {α β} (start : Nat → Option Int) (w : Nat) (f : List α → β) (zero : β) (tail : List β)
    (rows : List (List α)) : List (List β) :=
  (rewrapFull (rows.map List.length) (windows w f rows.flatten ++ tail)).map (zeroFrom zero (start w))

def rollingSame {α β} := @rollingSameWith α β sameStartNew
def rollingSameOld {α β} := @rollingSameWith α β sameStartOld

/-- per row: the values of the windows that fit, then zeros up to the row's length -/
def specSame {α β} (w : Nat) (f : List α → β) (zero : β) (rows : List (List α)) : List (List β) :=
  rows.map (fun r => windows w f r ++ List.replicate (r.length - (r.length + 1 - w)) zero)

/-! ### k-mer hash and rendering -/

def dot : List Nat → List Nat → Nat
  | x :: xs, y :: ys => x * y + dot xs ys
  | _, _ => 0

/-- `alphabet_size ** np.arange(k)` -/
def powers (n k : Nat) : List Nat := (List.range k).map (fun i => n ^ i)

/-- int64 two's-complement wrap-around of an exact integer -/
def wrap64 (x : Int) : Int :=
  let m := x % 18446744073709551616
  if m < 9223372036854775808 then m else m - 18446744073709551616

/-- `KmerEncoder.__call__`: `sequence.data.dot(self._convolution)` in int64 -/
def kmerHash (n : Nat) (letters : List Nat) : Int := wrap64 (dot letters (powers n letters.length))

/-- `KmerEncoding.to_string` digits: `(kmer // n ** arange(k)) % n` (for `n = 4`: `(kmer >> 2i) & 3`,
the same number) -/
def kmerDigits (n k : Nat) (h : Nat) : List Nat := (List.range k).map (fun i => h / n ^ i % n)

def render (alphabet : List Nat) (k : Nat) (h : Nat) : List Nat :=
  (kmerDigits alphabet.length k h).map (fun d => alphabet.getD d 0)

/-- `get_kmers` (both paths: the 2-bit packed `_get_dna_kmers` is specified as the same number) -/
def getKmers (n k : Nat) (rows : List (List Nat)) : List (List Int) := rolling k (kmerHash n) rows
def getKmersOld (n k : Nat) (rows : List (List Nat)) : List (List Int) := rollingOld k (kmerHash n) rows

/-! ### the 2-bit packed path (`npstructures.bitarray.BitArray`, modelled literally on uint64 words) -/

/-- uint64 truncation -/
def word64 (x : Nat) : Nat := x % 18446744073709551616

/-- one register of `BitArray.pack(array, bit_stride=2)`: `bits = array[0::32]` then, for
`i = 1..31`, `bits |= array[i::32] << 2i` (the accumulator starts with entry 0 unshifted) -/
def packAcc (acc i : Nat) : List Nat → Nat
  | [] => acc
  | x :: xs => packAcc (acc ||| word64 (x <<< (2 * i))) (i + 1) xs

def packWord (chunk : List Nat) : Nat := packAcc 0 0 chunk

/-- register `r` holds entries `32r .. 32r+31` -/
def pack (a : List Nat) : List Nat :=
  (List.range ((a.length + 31) / 32)).map (fun r => packWord ((a.drop (32 * r)).take 32))

/-- `mask = (~uint64(0)) >> (64 - 2k)` -/
def windowMask (k : Nat) : Nat := 18446744073709551615 >>> (64 - 2 * k)

/-- `BitArray.sliding_window(k)`, entry `i` of register `r`:
`res = data[:, None] >> shifts; res[:-1] |= data[1:, None] << (shifts[::-1] + 2); res &= mask` -/
def slidingEntry (k : Nat) (words : List Nat) (r i : Nat) : Nat :=
  let lo := words.getD r 0 >>> (2 * i)
  let v := if r + 1 < words.length then lo ||| word64 (words.getD (r + 1) 0 <<< (64 - 2 * i)) else lo
  v &&& windowMask k

/-- `res.ravel()[: N - k + 1]` -/
def slidingWindow (k N : Nat) (words : List Nat) : List Nat :=
  ((List.range (32 * words.length)).map (fun j => slidingEntry k words (j / 32) (j % 32))).take (N + 1 - k)

/-- `_get_dna_kmers` on the flat sequence: pack two bits per letter, slide -/
def packedKmers (k : Nat) (a : List Nat) : List Nat := slidingWindow k a.length (pack a)

/-- `get_kmers` for a 4-letter alphabet: the `convolution` decorator around `_get_dna_kmers` -/
def getKmersPackedWith (trim : Nat → Option Int) (k : Nat) (rows : List (List Nat)) : List (List Int) :=
  rewrapSlice (trim k) (rows.map List.length) ((packedKmers k rows.flatten).map Int.ofNat)

def getKmersPacked := getKmersPackedWith trimNew

/-- the code path `get_kmers` takes: packed for `|A| = 4`, generic otherwise -/
def getKmersDispatch (n k : Nat) (rows : List (List Nat)) : List (List Int) :=
  if n = 4 then getKmersPacked k rows else getKmers n k rows

/-! ### minimizers -/

def minInt : List Int → Option Int
  | [] => none
  | x :: xs => some (xs.foldl min x)

/-- `Minimizers.__call__` on the 2-D array of flat windows (each of length `W = w`): the inner
`rolling_window` runs over the raveled matrix and re-wraps to `(M, W)` with `as_strided`, trims
`k-1` columns, then `.min(axis=-1)` (`none` = numpy raises on an empty axis) -/
def minimizersWith (trim : Nat → Option Int) (n k w : Nat) (rows : List (List Nat)) : Option (List (List Int)) :=
  let wins : List (List Nat) := windows w id rows.flatten
  let km : List (List Int) := rollingWith trim k (kmerHash n) [] wins
  match km.mapM minInt with
  | none => none
  | some mins => some (rewrapSlice (trim w) (rows.map List.length) mins)

def minimizers := minimizersWith trimNew
def minimizersOld := minimizersWith trimOld

def specMinimizers (n k w : Nat) (rows : List (List Nat)) : List (List (Option Int)) :=
  spec w (fun win => minInt (windows k (kmerHash n) win)) rows

/-! ### string matching -/

/-- `StringMatcher.__call__`: `np.all(window == pattern, axis=-1)` -/
def matchWin (pat : List Nat) (win : List Nat) : Bool := win == pat

def matchString (pat : List Nat) (rows : List (List Nat)) : List (List Bool) := rolling pat.length (matchWin pat) rows
def matchStringOld (pat : List Nat) (rows : List (List Nat)) : List (List Bool) := rollingOld pat.length (matchWin pat) rows

/-! ### regular-expression matchers (`string_matcher.py`: `MaskedStringMatcher`,
`FixedLenRegexMatcher`, `RegexMatcher` and the `construct_*` pattern expansion) -/

/-- one position of a fixed-length pattern: `.` or a set of letters (`A` = singleton, `[AG]`) -/
inductive Elem where
  | any
  | oneOf (cs : List Nat)
  deriving Repr, DecidableEq

/-- an item of a flexible pattern: one position, or a gap `.{a,b}` -/
inductive Item where
  | elem (e : Elem)
  | gap (a b : Nat)
  deriving Repr, DecidableEq

def Elem.ok : Elem → Nat → Bool
  | .any, _ => true
  | .oneOf cs, c => cs.contains c

/-- SPEC: a window matches a fixed-length pattern position by position -/
def matchFixed (pat : List Elem) (win : List Nat) : Bool :=
  win.length == pat.length && (List.zipWith Elem.ok pat win).all id

/-- `construct_fixed_len_regex_matchers`: the first character class is replaced by each of its
symbols in turn, recursively; a class-free string becomes ONE `MaskedStringMatcher`
(`none` = masked position, written with `alphabet[0]` in the base sequence) -/
def expandClasses : List Elem → List (List (Option Nat))
  | [] => [[]]
  | .any :: rest => (expandClasses rest).map (none :: ·)
  | .oneOf cs :: rest => cs.flatMap (fun c => (expandClasses rest).map (some c :: ·))

/-- `MaskedStringMatcher.__call__`: `np.all((window == base) | mask, axis=-1)` -/
def maskedMatch (alt : List (Option Nat)) (win : List Nat) : Bool :=
  win.length == alt.length && (List.zipWith (fun a c => a.isNone || a == some c) alt win).all id

/-- `FixedLenRegexMatcher.__call__`: the union of its masked sub-matchers -/
def fixedMatch (pat : List Elem) (win : List Nat) : Bool := (expandClasses pat).any (maskedMatch · win)

/-- `FixedLenRegexMatcher(...).rolling_window(seqs)` (mode "valid") -/
def fixedRegex (pat : List Elem) (rows : List (List Nat)) : List (List Bool) := rolling pat.length (fixedMatch pat) rows

/-- `construct_flexible_len_regex_matchers`: every gap `.{a,b}` becomes `n` dots for `n = a..b` -/
def expandGaps : List Item → List (List Elem)
  | [] => [[]]
  | .elem e :: rest => (expandGaps rest).map (e :: ·)
  | .gap a b :: rest => (List.range (b + 1 - a)).flatMap (fun d => (expandGaps rest).map (List.replicate (a + d) Elem.any ++ ·))

def orRows : List (List Bool) → List (List Bool) → List (List Bool) := List.zipWith (List.zipWith (· || ·))

/-- `RegexMatcher.rolling_window`: one boolean per position; for every masked sub-matcher (of its own
length) `as_strided` windows over the flat text, re-wrap by the row lengths, and — since the repair —
clear the positions whose window does not fit in the row; union over the sub-matchers -/
def regexWith (start : Nat → Option Int) (items : List Item) (rows : List (List Nat)) : List (List Bool) :=
  let alts := (expandGaps items).flatMap expandClasses
  alts.foldl (fun out alt =>
      let w := alt.length
      let n := rows.flatten.length
      orRows out (rollingSameWith start w (maskedMatch alt) false (List.replicate (n - (n + 1 - w)) false) rows))
    (rows.map (fun r => List.replicate r.length false))

def regexMatch := regexWith sameStartNew
/-- the shipped code never cleared the windows that run into the next row -/
def regexMatchOld := regexWith (fun _ => none)

/-- SPEC: position `i` of a row is a match iff some expansion of the pattern fits in the row at `i`
and matches there -/
def specRegex (items : List Item) (rows : List (List Nat)) : List (List Bool) :=
  rows.map (fun r => (List.range r.length).map (fun i =>
    (expandGaps items).any (fun p => decide (i + p.length ≤ r.length) && matchFixed p ((r.drop i).take p.length))))

/-! ### position weight matrix scores (generic in the number type: same summation order) -/

section pwm
variable {β : Type} (add : β → β → β) (zero : β)

/-- matrix entry for offset `o` and letter `c` (`m = matrix.T`, rows indexed by offset) -/
def entry (m : List (List β)) (o c : Nat) : β := (m.getD o []).getD c zero

/-- one pass of the loop: `scores[:N-offset] += row[sequence[offset:]]` -/
def accumStep (m : List (List β)) (seq : List Nat) (offset : Nat) (scores : List β) : List β :=
  (List.range scores.length).map (fun j =>
    if j + offset < seq.length then add (scores.getD j zero) (entry zero m offset (seq.getD (j + offset) 0))
    else scores.getD j zero)

/-- `for offset, row in enumerate(m)` up to `t` offsets, from `np.zeros(N)` -/
def accumUpTo (m : List (List β)) (seq : List Nat) : Nat → List β
  | 0 => List.replicate seq.length zero
  | t + 1 => accumStep add zero m seq t (accumUpTo m seq t)

/-- `PWM.calculate_scores` -/
def calculateScores (m : List (List β)) (seq : List Nat) : List β := accumUpTo add zero m seq m.length

/-- the score the property defines for one window: the sum over offsets, in offset order -/
def windowScore (m : List (List β)) (c : Nat) (win : List Nat) : β :=
  (List.range c).foldl (fun acc o => add acc (entry zero m o (win.getD o 0))) zero

/-- `get_motif_scores`: scores over the flat sequence, `RaggedArray(scores, lengths)`, trim -/
def motifScoresWith (trim : Nat → Option Int) (m : List (List β)) (rows : List (List Nat)) : List (List β) :=
  rewrapSlice (trim m.length) (rows.map List.length) (calculateScores add zero m rows.flatten)

def motifScores := @motifScoresWith β add zero trimNew
def motifScoresOld := @motifScoresWith β add zero trimOld

/-- `get_motif_scores_old` / `PositionWeightMatrix(pwm).rolling_window(seqs)`: the generic rolling
mechanism with `PWM.calculate_score` (`matrix[window, arange(w)].sum()`) as the window function -/
def motifScoresRolling (m : List (List β)) (rows : List (List Nat)) : List (List β) :=
  rolling m.length (windowScore add zero m m.length) rows

def specMotifScores (m : List (List β)) (rows : List (List Nat)) : List (List β) :=
  spec m.length (windowScore add zero m m.length) rows
end pwm

/-! ### k-mer counting -/

/-- `np.bincount(values, minlength=size)` for values known to be `< size` -/
def bincount (size : Nat) (vals : List Int) : List Nat :=
  (List.range size).map (fun (c : Nat) => (vals.filter (fun v => v == Int.ofNat c)).length)

/-- `count_kmers(sequence, k, axis=None)` -/
def countKmers (n k : Nat) (rows : List (List Nat)) : List Nat := bincount (n ^ k) (getKmers n k rows).flatten
/-- `count_kmers(sequence, k, axis=-1)` -/
def countKmersRows (n k : Nat) (rows : List (List Nat)) : List (List Nat) := (getKmers n k rows).map (bincount (n ^ k))
def countKmersOld (n k : Nat) (rows : List (List Nat)) : List Nat := bincount (n ^ k) (getKmersOld n k rows).flatten

/-- `KmerEncoding.get_labels()`: the text of every code `0 .. n^k - 1` -/
def getLabels (alphabet : List Nat) (k : Nat) : List (List Nat) :=
  (List.range (alphabet.length ^ k)).map (render alphabet k)

/-- `count_kmers` as the caller sees it: `(labels, counts)` with `get_kmers` taking its real path -/
def countKmersLabeled (alphabet : List Nat) (k : Nat) (rows : List (List Nat)) : List (List Nat) × List Nat :=
  (getLabels alphabet k, bincount (alphabet.length ^ k) (getKmersDispatch alphabet.length k rows).flatten)

def countKmersRowsLabeled (alphabet : List Nat) (k : Nat) (rows : List (List Nat)) : List (List Nat) × List (List Nat) :=
  (getLabels alphabet k, (getKmersDispatch alphabet.length k rows).map (bincount (alphabet.length ^ k)))

/-- `EncodedCounts.__add__` / `sum(...)` over chunks (`@streamable(sum)` on `count_kmers`) -/
def addCounts (a b : List Nat) : List Nat := List.zipWith (· + ·) a b

/-- `KmerEncoder.inverse`: `(hash[:, None] // n ** arange(k)) % n` -/
def kmerInverse (n k : Nat) (h : Nat) : List Nat := kmerDigits n k h

def specCountKmers (n k : Nat) (rows : List (List Nat)) : List Nat :=
  bincount (n ^ k) (spec k (fun win => (hashLE n win : Int)) rows).flatten

end C13
