import BnpVerif.Base.PySlice
/-! C07 — encoded arrays behave like NumPy arrays of characters.
Model: an encoded value is its code array (1-d `flat`, ragged `rag`, or 0-d `scalar`) with the
encoding carried unchanged; every supported structural operation acts on the codes through
Python/NumPy index semantics (`Base/PySlice`). The same polymorphic definitions, instantiated at
characters, are the list-of-strings reading the property refers to. Core-only. -/
namespace C07
open Base Py

inductive Val (α : Type)
  | flat (l : List α)
  | rag (r : List (List α))
  | scalar (c : α)
deriving Repr, DecidableEq

def Val.map {α β} (f : α → β) : Val α → Val β
  | .flat l => .flat (l.map f)
  | .rag r => .rag (r.map (List.map f))
  | .scalar c => .scalar (f c)

inductive Op (α : Type)
  | index (ix : Idx)                                   -- v[ix]  (rows of a ragged array, elements of a flat one)
  | colSlice (a b : Option Int) (s : Int)              -- r[:, a:b:s]
  | colInt (rows : Idx) (j : Int)                      -- r[rows, j]
  | concat (w : Val α)                                 -- np.concatenate([v, w])
  | ravel
  | copy
  | setRow (i : Int) (v : List α)                      -- r[i] = v           (|v| = row length, or |v| = 1 broadcast)
  | setRowSlice (i : Int) (a b : Option Int) (v : List α)   -- r[i, a:b] = v  (|v| = slice length)
  | setFlat (ix : Idx) (v : List α)                    -- f[ix] = v          (|v| = selection, or |v| = 1 broadcast)
  | append (v : List α)                                -- np.append(f, v)
  | insert (i : Int) (v : List α)                      -- np.insert(f, i, v)

def Op.map {α β} (f : α → β) : Op α → Op β
  | .index ix => .index ix
  | .colSlice a b s => .colSlice a b s
  | .colInt rows j => .colInt rows j
  | .concat w => .concat (w.map f)
  | .ravel => .ravel
  | .copy => .copy
  | .setRow i v => .setRow i (v.map f)
  | .setRowSlice i a b v => .setRowSlice i a b (v.map f)
  | .setFlat ix v => .setFlat ix (v.map f)
  | .append v => .append (v.map f)
  | .insert i v => .insert i (v.map f)

/-- write `vals[k]` at `pos[k]`, in order (a repeated position keeps the last value, as NumPy) -/
def scatter {α} : List α → List Nat → List α → List α
  | l, p :: ps, v :: vs => scatter (l.set p v) ps vs
  | l, _, _ => l

/-- values to store for a selection of `n` positions: `v` itself or a single value broadcast -/
def fitValues {α} (n : Nat) (v : List α) : Option (List α) :=
  if v.length = n then some v
  else match v with
    | [c] => some (List.replicate n c)
    | _ => none

def sliceRow {α} (a b : Option Int) (s : Int) (row : List α) : Option (List α) :=
  pick row (sliceIdx row.length a b s)

/-- `np.insert` position: `-len ≤ i ≤ len` -/
def insertPos (len : Nat) (i : Int) : Option Nat :=
  if 0 ≤ i then (if i.toNat ≤ len then some i.toNat else none)
  else (if (-i).toNat ≤ len then some (len - (-i).toNat) else none)

def apply {α} : Val α → Op α → Option (Val α)
  | .rag r, .index (.int i) => (normIdx r.length i).bind (fun p => (r[p]?).map .flat)
  | .rag r, .index ix => (ix.resolve r.length).bind (fun pos => (pick r pos).map .rag)
  | .flat l, .index (.int i) => (normIdx l.length i).bind (fun p => (l[p]?).map .scalar)
  | .flat l, .index ix => (ix.resolve l.length).bind (fun pos => (pick l pos).map .flat)
  | .rag r, .colSlice a b s => if s = 0 then none else (omap (sliceRow a b s) r).map .rag
  | .rag r, .colInt rows j =>
    (rows.resolve r.length).bind (fun pos => (pick r pos).bind (fun sel =>
      (omap (fun row => (normIdx row.length j).bind (fun p => row[p]?)) sel).map .flat))
  | .flat l, .concat (.flat m) => some (.flat (l ++ m))
  | .rag r, .concat (.rag q) => some (.rag (r ++ q))
  | .rag r, .ravel => some (.flat r.flatten)
  | .flat l, .ravel => some (.flat l)
  | v, .copy => some v
  | .rag r, .setRow i v =>
    (normIdx r.length i).bind (fun p => (r[p]?).bind (fun row =>
      (fitValues row.length v).map (fun vs => .rag (r.set p vs))))
  | .rag r, .setRowSlice i a b v =>
    (normIdx r.length i).bind (fun p => (r[p]?).bind (fun row =>
      let pos := sliceIdx row.length a b 1
      (fitValues pos.length v).map (fun vs => .rag (r.set p (scatter row pos vs)))))
  | .flat l, .setFlat ix v =>
    (ix.resolve l.length).bind (fun pos => (fitValues pos.length v).map (fun vs => .flat (scatter l pos vs)))
  | .flat l, .append v => some (.flat (l ++ v))
  | .flat l, .insert i v => (insertPos l.length i).map (fun p => .flat (l.take p ++ v ++ l.drop p))
  | _, _ => none

/-- a program: operations applied left to right; `none` as soon as one is not applicable -/
def run {α} : Val α → List (Op α) → Option (Val α)
  | v, [] => some v
  | v, op :: ops => (apply v op).bind (fun v' => run v' ops)

/-! ### observations -/

/-- `v == c` for one character: element-wise, same shape -/
def eqChar {α} [DecidableEq α] (c : α) : Val α → Val Bool
  | .flat l => .flat (l.map (fun x => decide (x = c)))
  | .rag r => .rag (r.map (List.map (fun x => decide (x = c))))
  | .scalar x => .scalar (decide (x = c))

/-- `f == s` element-wise for a string of the same length -/
def eqStr {α} [DecidableEq α] (s : List α) : Val α → Option (List Bool)
  | .flat l => if l.length = s.length then some ((l.zip s).map (fun p => decide (p.1 = p.2))) else none
  | _ => none

/-- `str_equal(rows, s)`: which rows equal `s` -/
def strEqual {α} [DecidableEq α] (s : List α) (r : List (List α)) : List Bool := r.map (fun row => decide (row = s))

/-! ### strops.split / join -/

/-- `join(rows, sep)` without the trailing separator -/
def join {α} (sep : α) (rows : List (List α)) : List α := (rows.flatMap (fun r => r ++ [sep])).dropLast

/-- `split(seq, sep)`: rows between separators (a trailing virtual separator closes the last row) -/
def splitAux {α} [DecidableEq α] (sep : α) : List α → List α → List (List α)
  | cur, [] => [cur.reverse]
  | cur, x :: xs => if x = sep then cur.reverse :: splitAux sep [] xs else splitAux sep (x :: cur) xs

def split {α} [DecidableEq α] (sep : α) (s : List α) : List (List α) := splitAux sep [] s


/-! ### observations of a result other than its text -/

/-- `np.where(m, a, b)` on flat arrays: needs equal lengths -/
def whereFlat {α} (m : List Bool) (a b : List α) : Option (List α) :=
  if m.length = a.length ∧ b.length = a.length then
    some ((m.zip (a.zip b)).map (fun p => if p.1 then p.2.1 else p.2.2))
  else none

/-- `v != c` -/
def neChar {α} [DecidableEq α] (c : α) (v : Val α) : Val Bool := (eqChar c v).map (fun b => !b)

/-- `len(v)` -/
def vlen {α} : Val α → Option Nat
  | .flat l => some l.length
  | .rag r => some r.length
  | .scalar _ => none

inductive Obs (α : Type)
  | eqStr (s : List α)                       -- `v == "text"` / `v == other_array` (flat, same length)
  | neChar (c : α)                           -- `v != 'c'`
  | whereWith (m : List Bool) (w : List α)   -- `np.where(m, v, w)`
  | len

inductive ObsRes (α : Type)
  | bools (v : Val Bool)
  | boolList (l : List Bool)
  | text (l : List α)
  | num (n : Nat)
deriving DecidableEq, Repr

def Obs.map {α β} (f : α → β) : Obs α → Obs β
  | .eqStr s => .eqStr (s.map f)
  | .neChar c => .neChar (f c)
  | .whereWith m w => .whereWith m (w.map f)
  | .len => .len

def ObsRes.map {α β} (f : α → β) : ObsRes α → ObsRes β
  | .bools v => .bools v
  | .boolList l => .boolList l
  | .text l => .text (l.map f)
  | .num n => .num n

def observe {α} [DecidableEq α] : Obs α → Val α → Option (ObsRes α)
  | .eqStr s, v => (eqStr s v).map .boolList
  | .neChar c, v => some (.bools (neChar c v))
  | .whereWith m w, .flat l => (whereFlat m l w).map .text
  | .whereWith _ _, _ => none
  | .len, v => (vlen v).map .num

end C07
