import BnpVerif.Base.Opt
/-! C06 — alphabet encodings. Executable model of `AlphabetEncoding._encode/_decode`,
`as_encoded_array` on already-encoded input (re-targeting) and `change_encoding`,
plus the property-level specification. Core-only imports. -/
namespace C06
open Base

abbrev Bytes := List Nat

def isLower (b : Nat) : Bool := 97 ≤ b && b ≤ 122
def isUpper (b : Nat) : Bool := 65 ≤ b && b ≤ 90
def toUpper (b : Nat) : Nat := if isLower b then b - 32 else b

/-- An alphabet encoding as the code builds it: the alphabet (bytes, as `get_alphabet`
reports it), the 256-entry lookup (`none` = 255 = rejected) and the decode table. -/
structure Enc where
  alphabet : List Nat
  encT : List (Option Nat)
  decT : List Nat

/-! ### Specification -/

/-- a byte is accepted iff it is in the alphabet, or is a lower-case letter whose upper case is -/
def accepts (alph : List Nat) (b : Nat) : Bool :=
  alph.contains b || (isLower b && alph.contains (b - 32))

def specEncByte (alph : List Nat) (b : Nat) : Option Nat :=
  if accepts alph b then some (alph.idxOf (toUpper b)) else none

def specEncode (alph : List Nat) (s : Bytes) : Option (List Nat) := omap (specEncByte alph) s

def specDecode (alph : List Nat) (cs : List Nat) : Option Bytes := omap (fun c => alph[c]?) cs

/-! ### Model of the code -/

/-- `_lookup[byte_array]`, then "any ≥ alphabet_size → EncodingError" -/
def encByte (E : Enc) (b : Nat) : Option Nat := (E.encT[b]?).join

def encode (E : Enc) (s : Bytes) : Option (List Nat) := omap (encByte E) s

/-- offset reported in the EncodingError: first rejected position -/
def firstBad (E : Enc) (s : Bytes) : Option Nat :=
  let i := s.findIdx (fun b => (encByte E b).isNone)
  if i < s.length then some i else none

def decode (E : Enc) (cs : List Nat) : Option Bytes := omap (fun c => E.decT[c]?) cs

/-- the whole-table obligation re-checked by the kernel on every run against Gen tables -/
def tableOK (E : Enc) : Bool :=
  E.encT.length == 256 &&
  (List.range 256).all (fun b => encByte E b == specEncByte E.alphabet b) &&
  E.decT == E.alphabet &&
  E.alphabet.all (fun b => !isLower b) &&
  E.alphabet.Nodup

/-- first byte on which the table deviates from the spec (handed to the search) -/
def firstBadByte (E : Enc) : Option Nat :=
  (List.range 256).find? (fun b => !(encByte E b == specEncByte E.alphabet b))

/-- `as_encoded_array(encoded, target)` for two alphabet encodings, `off` is what is added to the
maximum code to get the compared prefix length (the shipped code used 0; repaired code 1). -/
def retargetWith (off : Nat) (src tgt : List Nat) (d : List Nat) : Option (List Nat) :=
  match d.max? with
  | none => some d                   -- no letters: nothing to check, the (empty) data is relabelled (before fix: `max` of an empty array raised)
  | some m =>
    if src.take (m + off) == tgt.take (m + off) then
      if m < tgt.length then some d else none
    else none

def retarget := retargetWith 1
def retargetOld := retargetWith 0

/-- the whole `as_encoded_array(encoded, target)` step: equal encodings return the data as is
(also when it is empty); otherwise the prefix rule decides -/
def retargetFull (src tgt : List Nat) (d : List Nat) : Option (List Nat) :=
  if src == tgt then some d else retarget src tgt d

/-- `change_encoding`: decode with the source alphabet, encode with the target -/
def changeEncoding (src tgt : List Nat) (d : List Nat) : Option (List Nat) :=
  match specDecode src d with
  | none => none
  | some text => specEncode tgt text

end C06

namespace C06
/-- re-wrap a flat list by row lengths (ragged shape kept by the code as-is) -/
def unflatten : List Nat → List α → List (List α)
  | [], _ => []
  | n :: ns, xs => xs.take n :: unflatten ns (xs.drop n)
/-! ### numeric encodings by offset (`DigitEncoding`, `QualityEncoding`, `CigarEncoding` of `bionumpy.encodings`)
`_encode` is `bytes - min_code` and `_decode` is `digits + min_code`, both on uint8 arrays, i.e. modulo 256. -/

def offsetEncode (m b : Nat) : Nat := (b + 256 - m % 256) % 256
def offsetDecode (m d : Nat) : Nat := (d + m) % 256

/-- what the real encoding does to each of the 256 bytes (generated), next to its `min_code` -/
structure OffsetEnc where
  minCode : Nat
  encT : List Nat
  decT : List Nat

def offsetTableOK (E : OffsetEnc) : Bool :=
  E.minCode < 256 && E.encT == (List.range 256).map (offsetEncode E.minCode) &&
    E.decT == (List.range 256).map (offsetDecode E.minCode)

/-! ### the whole path from text, as the driver runs it -/

/-- text → codes of the source alphabet → `as_encoded_array(·, target)` → text read with the target alphabet -/
def retargetText (src tgt : List Nat) (s : Bytes) : Option Bytes :=
  (specEncode src s).bind (fun d => (retargetFull src tgt d).bind (specDecode tgt))

/-- text → codes of the source alphabet → `change_encoding(·, target)` → text read with the target alphabet -/
def changeText (src tgt : List Nat) (s : Bytes) : Option Bytes :=
  (specEncode src s).bind (fun d => (changeEncoding src tgt d).bind (specDecode tgt))

/-- the ragged versions act on the flat data and keep the row lengths -/
def retargetRows (src tgt : List Nat) (rows : List Bytes) : Option (List Bytes) :=
  (retargetText src tgt rows.flatten).map (unflatten (rows.map List.length))

def changeRows (src tgt : List Nat) (rows : List Bytes) : Option (List Bytes) :=
  (changeText src tgt rows.flatten).map (unflatten (rows.map List.length))

end C06
