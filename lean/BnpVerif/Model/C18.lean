import BnpVerif.Base.Opt
/-! C18 — numbers ↔ text (`bionumpy/io/strops.py`). Executable model of `_build_power_array`,
`ints_to_strings` (repaired rule and the rule shipped before the repair), `str_to_int`,
`int_lists_to_strings`, `join`, `split`, and the digit-placement logic of `str_to_float`;
plus the property-level specification. Core-only imports.

Externals (specified here, exercised by the correspondence): NumPy `full`, fancy `+=`
(`scatterAdd`, duplicate-free indices), `cumsum`, `searchsorted(side="right")` on a sorted table
(= number of entries `≤ x`), int64/uint64 wrap-around (`wrap64`), npstructures ragged reshape
(`unflatten`) and row sums. int64 values are unbounded `Int` with `wrap64` applied where the
code's result is an int64 array. -/
namespace C18
open Base

abbrev Bytes := List Nat

/-! ### externals -/

/-- two's-complement wrap-around of an int64 result -/
def wrap64 (x : Int) : Int :=
  (x + 9223372036854775808) % 18446744073709551616 - 9223372036854775808

def inInt64 (x : Int) : Bool := decide (-9223372036854775808 ≤ x) && decide (x < 9223372036854775808)

/-- `np.cumsum` -/
def cumsumFrom (acc : Int) : List Int → List Int
  | [] => []
  | x :: xs => (acc + x) :: cumsumFrom (acc + x) xs

/-- `np.cumsum(lengths)` -/
def prefixSums (acc : Nat) : List Nat → List Nat
  | [] => []
  | x :: xs => (acc + x) :: prefixSums (acc + x) xs

/-- `a[idx] += vals` for duplicate-free `idx` -/
def scatterAdd (a : List Int) : List (Nat × Int) → List Int
  | [] => a
  | (i, v) :: r => scatterAdd (a.modify i (· + v)) r

/-- re-wrap a flat list by row lengths (`RaggedArray(flat, shape)`) -/
def unflatten {α} : List Nat → List α → List (List α)
  | [], _ => []
  | n :: ns, xs => xs.take n :: unflatten ns (xs.drop n)

/-! ### `_build_power_array(shape)` (no dots) -/

/-- `index_array = full(total, -1); index_array[cumsum(lengths)[:-1]] += lengths[1:];
index_array[0] += lengths[0]; cumsum` -/
def buildPowerArray (lengths : List Nat) : List Int :=
  let a0 := List.replicate lengths.sum (-1 : Int)
  let a1 := scatterAdd a0 ((prefixSums 0 lengths).dropLast.zip (lengths.tail.map Int.ofNat))
  let a2 := a1.modifyHead (· + ((lengths.headD 0 : Nat) : Int))
  cumsumFrom 0 a2

/-- `[L-1, …, 0]` -/
def countdown : Nat → List Int
  | 0 => []
  | L + 1 => (L : Int) :: countdown L

/-! ### `ints_to_strings` -/

/-- `_POWERS_OF_TEN = 10**np.arange(1, 20, dtype=uint64)` -/
def powTable : List Nat := (List.range 19).map (fun k => 10 ^ (k + 1))

/-- repaired digit count: `np.searchsorted(_POWERS_OF_TEN, magnitude, side="right") + 1` -/
def width (m : Nat) : Nat := (powTable.filter (fun t => decide (t ≤ m))).length + 1

/-- one output row given its row of the power array: `magnitude // 10**index % 10`, digit
encoding → ASCII (`+48`), `'-'` written into column 0 of negative rows -/
def fmtRow (mag : Int) (neg : Bool) (row : List Int) : Bytes :=
  let ds := row.map (fun p => (48 + mag / 10 ^ p.toNat % 10).toNat)
  if neg then ds.set 0 45 else ds

/-- `ints_to_strings` as repaired (`magnitude = np.abs(number).astype(uint64)` is `|n|` for every
int64 `n`, the minimum included) -/
def intsToStrings (ns : List Int) : List Bytes :=
  let lengths := ns.map (fun n => width n.natAbs + (if n < 0 then 1 else 0))
  let idx := unflatten lengths (buildPowerArray lengths)
  (ns.zip idx).map (fun (n, row) => fmtRow (n.natAbs : Int) (decide (n < 0)) row)

/-- `ints_to_strings` as shipped before the repair: `np.abs` in int64 (wraps at the minimum),
width `w x = int(log10(float(x))) + 1` applied to `max(|n|, 1)` — `w` is the floating-point
external, kept abstract -/
def intsToStringsOld (w : Int → Nat) (ns : List Int) : List Bytes :=
  let absW := fun (n : Int) => wrap64 (n.natAbs : Int)
  let lengths := ns.map (fun n => w (max (absW n) 1) + (if n < 0 then 1 else 0))
  let idx := unflatten lengths (buildPowerArray lengths)
  (ns.zip idx).map (fun (n, row) => fmtRow (absW n) (decide (n < 0)) row)

/-! ### `str_to_int` -/

/-- DigitEncoding (after the C06 repair: exactly `'0'..'9'`) -/
def digitVal (b : Nat) : Option Nat := if 48 ≤ b ∧ b ≤ 57 then some (b - 48) else none

def isNegRow (r : Bytes) : Bool := r.head? == some 45
def isPosRow (r : Bytes) : Bool := r.head? == some 43

/-- `number_text[is_negative, 0] = "0"; number_text[is_positive, 0] = "0"` (on the copy) -/
def stripSign (r : Bytes) : Bytes := if isNegRow r || isPosRow r then r.set 0 48 else r

/-- `(digits * 10**power_array).sum(axis=-1) * signs`, all int64. `none` = EncodingError. -/
def strToInt (rows : List Bytes) : Option (List Int) :=
  -- `only_sign = (is_negative | is_positive) & (lengths == 1)` raises EncodingError
  if rows.any (fun r => (isNegRow r || isPosRow r) && r.length == 1) then none else
  match omap (fun r => omap digitVal (stripSign r)) rows with
  | none => none
  | some drows =>
    let lengths := rows.map List.length
    let powers := buildPowerArray lengths
    let prods := (drows.flatten.zip powers).map (fun (d, p) => (d : Int) * 10 ^ p.toNat)
    let sums := (unflatten lengths prods).map List.sum
    some ((sums.zip rows).map (fun (s, r) => wrap64 (s * (if isNegRow r then -1 else 1))))

/-- non-ragged path: `digits.dot(10**arange(L)[::-1])` for one unsigned digit string -/
def strToInt1 (s : Bytes) : Option Int :=
  match omap digitVal s with
  | none => none
  | some ds => some (wrap64 ((ds.zip (countdown s.length)).map (fun (d, p) => (d : Int) * 10 ^ p.toNat)).sum)

/-! ### integer columns of files: the fixed-width digit matrix, and optional columns -/

/-- `move_intervals_to_digit_array(data, starts, ends, fill_value='0')`: every field right-aligned
in a matrix as wide as the widest field, filled with `'0'` on the left -/
def digitMatrix (rows : List Bytes) : List Bytes :=
  let W := (rows.map List.length).foldl max 0
  rows.map (fun r => List.replicate (W - r.length) 48 ++ r)

/-- non-ragged `str_to_int` on the 2-D digit matrix: digit-encode, `.dot(10**arange(W)[::-1])` -/
def strToIntMatrix (rows : List Bytes) : Option (List Int) :=
  match omap (fun r => omap digitVal r) (digitMatrix rows) with
  | none => none
  | some drows =>
    some (drows.map (fun ds => wrap64 ((ds.zip (countdown ds.length)).map (fun (d, p) => (d : Int) * 10 ^ p.toNat)).sum))

/-- `get_digit_array` + `str_to_int(*x)`: if any field starts with a sign the ragged path is taken
(with the sign flags), otherwise the digit matrix -/
def columnInts (rows : List Bytes) : Option (List Int) :=
  if rows.any (fun r => isNegRow r || isPosRow r) then strToInt rows else strToIntMatrix rows

/-! ### a row selection of a lazily read table (`TextThroughputExtractor.__getitem__`, `_make_contigous`) -/

/-- one selected row of the extractor: its line `[es, ee)` in the shared text and the column's field
`[fs, fs + fl)` -/
structure LRow where
  es : Nat
  ee : Nat
  fs : Nat
  fl : Nat

instance : Inhabited LRow := ⟨⟨0, 0, 0, 0⟩⟩

/-- `data[start : start + len]` of one field -/
def fieldOf (data : Bytes) (r : LRow) : Bytes := (data.drop r.fs).take r.fl

/-- `_make_contigous`: the selected lines are copied one after the other into a new text (from
position `pos` on); every field start moves by (old line start − new line start) -/
def compactFrom (data : Bytes) (pos : Nat) : List LRow → Bytes × List LRow
  | [] => ([], [])
  | r :: rs =>
    let rest := compactFrom data (pos + (r.ee - r.es)) rs
    ((data.drop r.es).take (r.ee - r.es) ++ rest.1,
     ⟨pos, pos + (r.ee - r.es), r.fs + pos - r.es, r.fl⟩ :: rest.2)

def compact (data : Bytes) (rows : List LRow) : Bytes × List LRow := compactFrom data 0 rows

/-- the field lies inside its line, the line inside the text -/
def WFRow (data : Bytes) (r : LRow) : Prop := r.es ≤ r.fs ∧ r.fs + r.fl ≤ r.ee ∧ r.ee ≤ data.length

/-- one line of a tab-separated table: the fields joined by tabs, then a newline (a line with no
field is the lone newline) -/
def lineBytes : List Bytes → Bytes
  | [] => [10]
  | [f] => f ++ [10]
  | f :: g :: rest => f ++ 9 :: lineBytes (g :: rest)

/-- the text of a tab-separated table -/
def tableText (lines : List (List Bytes)) : Bytes := (lines.map lineBytes).flatten

/-- line and field positions of column `col` in `tableText lines` (from byte `pos` on); a line that
has no column `col` gets the empty field at its end -/
def lineRows (col : Nat) (pos : Nat) : List (List Bytes) → List LRow
  | [] => []
  | fs :: rest =>
    let lineLen := (lineBytes fs).length
    ⟨pos, pos + lineLen, pos + ((fs.take col).map (fun f => f.length + 1)).sum, (fs.getD col []).length⟩ ::
      lineRows col (pos + lineLen) rest

/-- an integer column read from a row selection of a lazily read table AFTER the selection was
compacted: `table[idx].col` = `get_digit_array` + `str_to_int` on the compacted text with the shifted
field starts -/
def lazyColumnInts (lines : List (List Bytes)) (col : Nat) (idx : List Nat) : Option (List Int) :=
  let all := lineRows col 0 lines
  let c := compact (tableText lines) (idx.map (fun i => all.getD i default))
  columnInts (c.2.map (fieldOf c.1))

/-- a field that `parse_with_missing` treats as absent: empty, or a lone `'.'` -/
def isMissing (r : Bytes) : Bool := r.length == 0 || r == [46]

/-- `values = full(n, missing); values[mask] = parsed` -/
def fillMissing (missing : Int) : List Bytes → List Int → List Int
  | [], _ => []
  | r :: rs, vals =>
    if isMissing r then missing :: fillMissing missing rs vals
    else vals.headD 0 :: fillMissing missing rs vals.tail

/-- `str_to_int_with_missing` -/
def strToIntWithMissing (rows : List Bytes) (missing : Int) : Option (List Int) :=
  let present := rows.filter (fun r => !isMissing r)
  match (if present = [] then some [] else strToInt present) with
  | none => none
  | some vals => some (fillMissing missing rows vals)

/-! ### `join`, `int_lists_to_strings`, `split` -/

/-- `join(sequences, sep, keep_last=True)` -/
def joinKeepLast (strs : List Bytes) (sep : Nat) : Bytes := (strs.map (· ++ [sep])).flatten

def intListsToStrings (rows : List (List Int)) (sep : Nat) (keepLast : Bool) : List Bytes :=
  let strs := intsToStrings rows.flatten
  let lens := unflatten (rows.map List.length) (strs.map List.length)
  let joined := joinKeepLast strs sep
  let rowLens := (lens.zip rows).map (fun (l, r) => l.sum + r.length)
  let ra := unflatten rowLens joined
  if keepLast then ra else ra.map List.dropLast

/-- `split(sequence, sep)`: a separator is appended, pieces end at separators, the separator
column is dropped -/
def splitAux (sep : Nat) (cur : Bytes) : Bytes → List Bytes
  | [] => [cur.reverse]
  | b :: bs => if b = sep then cur.reverse :: splitAux sep [] bs else splitAux sep (b :: cur) bs

def split (s : Bytes) (sep : Nat) : List Bytes := splitAux sep [] s

/-- `split(sequence, [sep₁, sep₂, …])`: pieces end at any byte satisfying `p` -/
def splitByAux (p : Nat → Bool) (cur : Bytes) : Bytes → List Bytes
  | [] => [cur.reverse]
  | b :: bs => if p b then cur.reverse :: splitByAux p [] bs else splitByAux p (b :: cur) bs

def splitBy (p : Nat → Bool) (s : Bytes) : List Bytes := splitByAux p [] s

/-- `join(sequences, sep, keep_last)` -/
def join (strs : List Bytes) (sep : Nat) (keepLast : Bool) : Bytes :=
  if keepLast then joinKeepLast strs sep else (joinKeepLast strs sep).dropLast

/-- `int_lists_to_strings(x, sep="")` (the `List[bool]` column writer): one digit character per
element, no separator; `none` = a value that is not a single digit -/
def digitListsToStrings (rows : List (List Nat)) : Option (List Bytes) :=
  omap (fun r => omap (fun d => if d < 10 then some (48 + d) else none) r) rows

/-- `int_to_str(n)` as repaired: the one-element batch of `ints_to_strings` -/
def intToStr (n : Int) : Bytes := (intsToStrings [n]).headD []

/-- `int_to_str(n)` as shipped before the repair: `L = int(log10(max(n, 1))) + 1` digits of `n`
(float width `w`, no sign handling) -/
def intToStrOld (w : Int → Nat) (n : Int) : Bytes :=
  (countdown (w (max n 1))).map (fun p => (48 + n / 10 ^ p.toNat % 10).toNat)

/-- a `List[int]` field read back: `str_to_int(split(text, sep))` -/
def splitParse (s : Bytes) (sep : Nat) : Option (List Int) := strToInt (split s sep)

/-! ### the digit-placement logic of `str_to_float` (exact decimal; IEEE rounding is not modelled) -/

/-- value `m · 10^e` -/
structure Dec where
  m : Int
  e : Int
deriving DecidableEq, Repr

/-- one row of `_build_power_array(shape, dots)`: `-1` fill, `0` at the dot, jump
`length - (1 if the row has a dot)`, cumsum -/
def powerRowDot (L : Nat) (dot : Option Nat) : List Int :=
  let a0 := List.replicate L (-1 : Int)
  let a1 := match dot with
    | some c => a0.set c 0
    | none => a0
  let a2 := a1.modifyHead (· + ((L : Int) - (if dot.isSome then 1 else 0)))
  cumsumFrom 0 a2

def findByte (b : Nat) (r : Bytes) : Option Nat :=
  let i := r.idxOf b
  if i < r.length then some i else none

/-- `_decimal_str_to_float` for one row, exactly: more than one dot or no digit at all raises
EncodingError; sign (`'-'` or `'+'`) → `'0'`, dot → `'0'`, digit-encode, `Σ digit·10^power`,
divided by `10^(digits after the dot)` -/
def decimalRow (row : Bytes) : Option Dec :=
  let neg := isNegRow row
  let pos := isPosRow row
  let nDots := row.count 46
  if nDots > 1 ∨ row.length - nDots - (if neg then 1 else 0) - (if pos then 1 else 0) < 1 then none else
  let r1 := if neg || pos then row.set 0 48 else row
  let dot := findByte 46 r1
  let r2 := match dot with
    | some c => r1.set c 48
    | none => r1
  match omap digitVal r2 with
  | none => none
  | some ds =>
    let L := row.length
    let base := ((ds.zip (powerRowDot L dot)).map (fun (d, p) => (d : Int) * 10 ^ p.toNat)).sum
    let expo : Nat := match dot with
      | some c => L - c - 1
      | none => 0
    some ⟨(if neg then -1 else 1) * base, -(expo : Int)⟩

/-- `_scientific_str_to_float` for one row: split at `'e'`, mantissa by `decimalRow`, exponent by
`str_to_int` -/
def scientificRow (row : Bytes) : Option Dec :=
  match findByte 101 row with
  | none => none
  | some c =>
    match decimalRow (row.take c), strToInt [row.drop (c + 1)] with
    | some d, some [p] => some ⟨d.m, d.e + p⟩
    | _, _ => none

def strToFloatRow (row : Bytes) : Option Dec :=
  if row.contains 101 then scientificRow row else decimalRow row

/-! ### Specification (what the property means; written independently of the code) -/

/-- canonical decimal text of an integer = core `Int.repr` -/
def decimal (n : Int) : Bytes := (toString n).toList.map Char.toNat

/-- value of a string of decimal digits (Horner) -/
def ofDigits (ds : List Nat) : Nat := ds.foldl (fun acc d => acc * 10 + d) 0

def allDigits (s : Bytes) : Bool := s.all (fun b => decide (48 ≤ b) && decide (b ≤ 57))

/-- value of a non-empty ASCII digit string -/
def specNat (s : Bytes) : Option Nat :=
  if s ≠ [] ∧ allDigits s = true then some (ofDigits (s.map (· - 48))) else none

/-- decimal integer text: optional sign, then at least one digit (leading zeros allowed) -/
def specParse (s : Bytes) : Option Int :=
  match s with
  | 45 :: r => match specNat r with
    | some v => some (-(v : Int))
    | none => none
  | 43 :: r => match specNat r with
    | some v => some (v : Int)
    | none => none
  | _ => match specNat s with
    | some v => some (v : Int)
    | none => none

/-- rows of integers joined by `sep` -/
def specJoin (rows : List (List Int)) (sep : Nat) (keepLast : Bool) : List Bytes :=
  rows.map (fun r => if keepLast then ((r.map decimal).map (· ++ [sep])).flatten
                     else List.intercalate [sep] (r.map decimal))

/-- digits only (possibly empty) -/
def specDigits (s : Bytes) : Option Nat :=
  if allDigits s = true then some (ofDigits (s.map (· - 48))) else none

/-- unsigned decimal mantissa `I[.F]` (not both empty): value `(I·10^|F| + F) / 10^|F|` -/
def specMantissa (s : Bytes) : Option Dec :=
  match findByte 46 s with
  | none => match specNat s with
    | some v => some ⟨(v : Int), 0⟩
    | none => none
  | some c =>
    let I := s.take c
    let F := s.drop (c + 1)
    if I = [] ∧ F = [] then none else
    match specDigits I, specDigits F with
    | some i, some f => some ⟨((i * 10 ^ F.length + f : Nat) : Int), -(F.length : Int)⟩
    | _, _ => none

def specSigned (s : Bytes) : Option Dec :=
  match s with
  | 45 :: r => (specMantissa r).map (fun d => ⟨-d.m, d.e⟩)
  | 43 :: r => specMantissa r
  | _ => specMantissa s

/-- decimal or lower-case scientific float text: `[±]I[.F][e[±]X]` -/
def specFloat (s : Bytes) : Option Dec :=
  match findByte 101 s with
  | none => specSigned s
  | some c =>
    match specSigned (s.take c), specParse (s.drop (c + 1)) with
    | some d, some x => some ⟨d.m, d.e + x⟩
    | _, _ => none

/-! ### `float_to_strings`: the shape of its output (Python `repr` of a finite double) -/

/-- non-empty run of digits -/
def digitRun (s : Bytes) : Bool := !s.isEmpty && allDigits s

/-- `repr(x)` for a finite double is `[-]D+.D+` or `[-]D+[.D+]e(+|-)DD+`: a text of the numeral grammar
(`specFloat` accepts it) that never starts with `'+'`, always shows a `'.'` or an exponent, and writes the
exponent with a sign and at least two digits -/
def reprGrammar (t : Bytes) : Bool :=
  (specFloat t).isSome &&
  (let body := if t.head? = some 45 then t.drop 1 else t
   match findByte 101 body with
   | none =>
     (match findByte 46 body with
      | some c => digitRun (body.take c) && digitRun (body.drop (c + 1))
      | none => false)
   | some k =>
     let mant := body.take k
     let ex := body.drop (k + 1)
     (match findByte 46 mant with
      | some c => digitRun (mant.take c) && digitRun (mant.drop (c + 1))
      | none => digitRun mant) &&
     (ex.head? == some 43 || ex.head? == some 45) && digitRun (ex.drop 1) && decide (2 ≤ (ex.drop 1).length))

/-- `str_to_float(float_to_strings(x))` at the level of the logic: the produced text, if it has the
`repr` shape, evaluated by the parser's logic -/
def reprParse (t : Bytes) : Option Dec := if reprGrammar t then strToFloatRow t else none

end C18
