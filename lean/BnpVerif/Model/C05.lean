import BnpVerif.Base.PyIdx
/-! C05 — lazy vs eager tables. Executable model of `create_lazy_class` (`__getattr__` cache,
`__setattr__` overlay, `__getitem__`, `__replace__`, `__array_function__(np.concatenate)`,
`get_data_object`, `tolist`, `__len__`, `get_buffer`) over an abstract item getter, and of the eager
column table. The item getter's buffer is abstracted to the list of file rows it denotes (C04 proves
that selection / concatenation on the extractor is list indexing / append on that list); a file cell
carries its original text and its parsed value (values are represented by their canonical spelling,
so formatting a value is the identity). BY CONSTRUCTION the lazy and the eager table parse a cell to the same value
(`Cell.val`, read by `fileCol` on both sides): that the two readers run the same per-field parser on the same text is
C02's subject and the implementation-vs-implementation half of the harness, not a theorem here. What IS proved is that
the lazy table's three stores, caches and in-place updates never show anything else than the eager columns. Core-only imports. -/
namespace C05
open PyIdx

abbrev Bytes := List Nat
abbrev Col := List Bytes

structure Cell where
  text : Bytes      -- the spelling in the file
  val : Bytes       -- the parsed value (as its canonical spelling)
  deriving Repr, DecidableEq

structure FRow where
  raw : Bytes       -- the record's bytes in the file
  cells : List Cell
  deriving Repr, DecidableEq

/-- a Python dict field-number ↦ column -/
abbrev FMap := List (Nat × Col)

def lookup (m : FMap) (f : Nat) : Option Col := (m.find? (·.1 == f)).map (·.2)
def erase (m : FMap) (f : Nat) : FMap := m.filter (·.1 != f)
def insert (m : FMap) (f : Nat) (c : Col) : FMap := (f, c) :: erase m f
def mapVals (g : Col → Col) (m : FMap) : FMap := m.map (fun p => (p.1, g p.2))
/-- `dict.update` -/
def update (m : FMap) : FMap → FMap
  | [] => m
  | (f, c) :: kw => update (insert m f c) kw
def keys (m : FMap) : List Nat := m.map (·.1)

/-- the three stores of a lazy table + the `_data`/`_computed` cache of `get_data_object` -/
structure Lazy where
  buf : List FRow
  computed : FMap
  set : FMap
  data : Option (List Col)
  deriving Repr, DecidableEq

structure Eager where
  cols : List Col
  deriving Repr, DecidableEq

/-- what the item getter parses for field `f` -/
def fileCol (buf : List FRow) (f : Nat) : Col := buf.map (fun r => ((r.cells[f]?).map (·.val)).getD [])

/-! ### lazy operations (mirroring the code) -/

def Lazy.len (l : Lazy) : Nat := l.buf.length

/-- `__getattr__`: overlay first, then cache (filled on a miss) -/
def Lazy.get (l : Lazy) (f : Nat) : Col × Lazy :=
  match lookup l.set f with
  | some c => (c, l)
  | none =>
    match lookup l.computed f with
    | some c => (c, l)
    | none =>
      let c := fileCol l.buf f
      (c, { l with computed := insert l.computed f c })

/-- `__setattr__` as shipped: overlay written, cache entry dropped, `_data` NOT invalidated -/
def Lazy.setattrOld (l : Lazy) (f : Nat) (c : Col) : Lazy :=
  { l with set := insert l.set f c, computed := erase l.computed f }

/-- `__setattr__` (repaired): additionally forgets the materialised `_data` -/
def Lazy.setattr (l : Lazy) (f : Nat) (c : Col) : Lazy :=
  { l with set := insert l.set f c, computed := erase l.computed f, data := none }

/-- `__getitem__` (non-scalar index): the index is applied to buffer, cache and overlay alike -/
def Lazy.select (l : Lazy) (ixs : List Nat) : Lazy :=
  { buf := gather l.buf ixs, computed := mapVals (fun c => gather c ixs) l.computed,
    set := mapVals (fun c => gather c ixs) l.set, data := none }

def Lazy.index (l : Lazy) (ix : Idx) : Option Lazy := (ix.toList l.len).map l.select

/-- `__replace__`: new object, overlay updated, cache not carried over -/
def Lazy.replace (l : Lazy) (kw : FMap) : Lazy :=
  { buf := l.buf, computed := [], set := update l.set kw, data := none }

/-- `get_data_object`: `[getattr(self, f) for f in fields]`, memoised in `_data` -/
def getAll : Nat → Nat → Lazy → List Col × Lazy
  | 0, _, l => ([], l)
  | n + 1, f, l =>
    let r := l.get f
    let rest := getAll n (f + 1) r.2
    (r.1 :: rest.1, rest.2)

def Lazy.dataObject (nF : Nat) (l : Lazy) : List Col × Lazy :=
  match l.data with
  | some d => (d, l)
  | none =>
    let r := getAll nF 0 l
    (r.1, { r.2 with data := some r.1 })

def optAll {α} : List (Option α) → Option (List α)
  | [] => some []
  | none :: _ => none
  | some a :: r => (optAll r).map (a :: ·)

/-- `np.concatenate` on lazy tables as shipped: only the FIRST operand's overlay / cache keys are
looked at; a key missing in another operand is a `KeyError` (`none`) -/
def concatOld (ls : List Lazy) : Option Lazy :=
  match ls with
  | [] => none
  | self :: _ =>
    let setV := optAll ((keys self.set).map (fun name => (optAll (ls.map (fun a => lookup a.set name))).map (fun cs => (name, cs.flatten))))
    let compV := optAll ((keys self.computed).map (fun name => (optAll (ls.map (fun a => lookup a.computed name))).map (fun cs => (name, cs.flatten))))
    match setV, compV with
    | some s, some c => some { buf := (ls.map (·.buf)).flatten, computed := c, set := s, data := none }
    | _, _ => none

/-- `getattr(a, name)` on every operand in turn (fills the operands' caches) -/
def getEach (name : Nat) : List Lazy → List Col × List Lazy
  | [] => ([], [])
  | a :: r =>
    let g := a.get name
    let rest := getEach name r
    (g.1 :: rest.1, g.2 :: rest.2)

/-- overlay of the result: for every name set in ANY operand, the concatenation of `getattr(a, name)` -/
def concatSet : List Nat → List Lazy → FMap × List Lazy
  | [], ls => ([], ls)
  | name :: names, ls =>
    let g := getEach name ls
    let rest := concatSet names g.2
    ((name, g.1.flatten) :: rest.1, rest.2)

/-- `getattr(a, n)` for every n in `names` (only the cache of `a` can change) -/
def getMany : List Nat → Lazy → Lazy
  | [], a => a
  | n :: ns, a => getMany ns (a.get n).2

/-- `np.concatenate` on lazy tables (repaired): a field set in ANY operand is set in the result
(`[name for name in field_names if any(name in a._set_values for a in values)]`, each operand
contributing `getattr(a, name)`); cached columns are carried over only when every operand has them.
When the buffer type has no `concatenate` (FASTQ, two-line FASTA, BAM: `allFields = true`) the operands
are materialised (`get_data_object()`, i.e. `getattr` of EVERY field) and concatenated eagerly; the
resulting eager table is modelled by the observationally equal lazy table whose overlay holds every field.
Returns the result and the operands (whose caches may have been filled). -/
def concatNew (nF : Nat) (allFields : Bool) (ls : List Lazy) : Option (Lazy × List Lazy) :=
  match ls with
  | [] => none
  | self :: _ =>
    let setNames := (List.range nF).filter (fun name => allFields || ls.any (fun a => (lookup a.set name).isSome))
    let sv := concatSet setNames ls
    let ls' := sv.2
    let compNames := (keys (ls'.headD self).computed).filter (fun name => !setNames.contains name && ls'.all (fun a => (lookup a.computed name).isSome))
    let compV := compNames.map (fun name => (name, (ls'.map (fun a => (lookup a.computed name).getD [])).flatten))
    some ({ buf := (ls.map (·.buf)).flatten, computed := compV, set := sv.1, data := none }, ls')

/-- field `f` of row `i` for every `f` (`self[[i]].get_data_object()[0]`) -/
def rowOf (cols : List Col) (i : Nat) : List Bytes := cols.map (fun c => c.getD i [])

def transposeN (n : Nat) (cols : List Col) : List (List Bytes) := (List.range n).map (rowOf cols)

/-- `get_buffer`: untouched tables hand back the raw bytes; with an overlay, every record is re-joined
from the overlay's values and the ORIGINAL TEXT of the other fields -/
def Lazy.write (join : List Bytes → Bytes) (nF : Nat) (l : Lazy) : Bytes :=
  if l.set.isEmpty then (l.buf.map (·.raw)).flatten
  else
    ((List.range l.buf.length).map (fun i =>
      join ((List.range nF).map (fun f =>
        match lookup l.set f with
        | some c => c.getD i []
        | none => (((l.buf[i]?).bind (fun r => r.cells[f]?)).map (·.text)).getD [])))).flatten

/-! ### eager operations -/

def Eager.len (e : Eager) : Nat := (e.cols.headD []).length
def Eager.get (e : Eager) (f : Nat) : Col := e.cols.getD f []
def Eager.setattr (e : Eager) (f : Nat) (c : Col) : Eager := ⟨e.cols.set f c⟩
def Eager.select (e : Eager) (ixs : List Nat) : Eager := ⟨e.cols.map (fun c => gather c ixs)⟩
def Eager.index (e : Eager) (ix : Idx) : Option Eager := (ix.toList e.len).map e.select
def Eager.replace (e : Eager) : FMap → Eager
  | [] => e
  | (f, c) :: kw => (e.setattr f c).replace kw
def appendCols : List Col → List Col → List Col
  | a :: as, b :: bs => (a ++ b) :: appendCols as bs
  | _, _ => []
def Eager.concat : List Eager → Option Eager
  | [] => none
  | [e] => some e
  | e :: es => (Eager.concat es).map (fun r => ⟨appendCols e.cols r.cols⟩)
def Eager.write (join : List Bytes → Bytes) (e : Eager) : Bytes :=
  ((transposeN e.len e.cols).map join).flatten

/-- an eager table parsed from the same file rows -/
def Eager.ofFile (nF : Nat) (buf : List FRow) : Eager := ⟨(List.range nF).map (fileCol buf)⟩
def Lazy.ofFile (buf : List FRow) : Lazy := ⟨buf, [], [], none⟩

/-! ### programs: a register machine observed step by step -/

inductive Op where
  | len (a : Nat)
  | get (a f : Nat)
  | index (a d : Nat) (ix : Idx)     -- reg d := reg a [ix]
  | row (a : Nat) (i : Int)
  | cat (a b : Nat)                 -- reg a := np.concatenate([reg a, reg b])
  | replace (a d : Nat) (kw : FMap) -- reg d := replace(reg a, **kw)
  | setattr (a f : Nat) (c : Col)   -- reg a.f = c   (in place)
  | tolist (a : Nat)
  | write (a : Nat)
  deriving Repr

inductive Obs where
  | num (n : Nat)
  | col (c : Col)
  | rows (r : List (List Bytes))
  | bytes (b : Bytes)
  | unit
  | err
  deriving Repr, DecidableEq

structure Cfg where
  nF : Nat
  join : List Bytes → Bytes
  fixedConcat : Bool      -- which `np.concatenate` rule the tree uses
  bufferConcat : Bool     -- does the buffer type have `concatenate` (delimited formats) or not (FASTQ/FASTA/BAM)
  fixedSetattr : Bool
  modWrite : Bool         -- `supports_modified_write` of the buffer type (False for BAM)
  eagerWrite : Bool       -- the buffer type has `from_data`, i.e. eager tables can be written (False for BAM)

def stepLazy (k : Cfg) (op : Op) (rs : List Lazy) : Obs × List Lazy :=
  match op with
  | .len a => match rs[a]? with
    | some l => (.num l.len, rs)
    | none => (.err, rs)
  | .get a f => match rs[a]? with
    | some l => if f < k.nF then (let g := l.get f; (.col g.1, rs.set a g.2)) else (.err, rs)   -- no such field: AttributeError
    | none => (.err, rs)
  | .index a d ix => match rs[a]? with
    | some l => match l.index ix with
      | some l' => (.num l'.len, rs.set d l')
      | none => (.err, rs)
    | none => (.err, rs)
  | .row a i => match rs[a]? with
    | some l => match norm l.len i with
      | some j =>
        let d := (l.select [j]).dataObject k.nF
        (.rows [rowOf d.1 0], rs)
      | none => (.err, rs)
    | none => (.err, rs)
  | .cat a b => match rs[a]?, rs[b]? with
    | some la, some lb =>
      if k.fixedConcat then
        match concatNew k.nF (!k.bufferConcat) [la, lb] with
        | some (r, [_, lb']) => (.num r.len, (if a == b then rs else rs.set b lb').set a r)
        | _ => (.err, rs)
      else
        match concatOld [la, lb] with
        | some r => (.num r.len, rs.set a r)
        | none => (.err, rs)
    | _, _ => (.err, rs)
  | .replace a d kw => match rs[a]? with
    | some l => (.unit, rs.set d (l.replace kw))
    | none => (.err, rs)
  | .setattr a f c => match rs[a]? with
    | some l => (.unit, rs.set a (if k.fixedSetattr then l.setattr f c else l.setattrOld f c))
    | none => (.err, rs)
  | .tolist a => match rs[a]? with
    | some l => let d := l.dataObject k.nF; (.rows (transposeN l.len d.1), rs.set a d.2)
    | none => (.err, rs)
  | .write a => match rs[a]? with
    | some l => if !k.modWrite && !l.set.isEmpty then (.err, rs) else (.bytes (l.write k.join k.nF), rs)
    | none => (.err, rs)

def stepEager (k : Cfg) (op : Op) (rs : List Eager) : Obs × List Eager :=
  match op with
  | .len a => match rs[a]? with
    | some e => (.num e.len, rs)
    | none => (.err, rs)
  | .get a f => match rs[a]? with
    | some e => if f < k.nF then (.col (e.get f), rs) else (.err, rs)
    | none => (.err, rs)
  | .index a d ix => match rs[a]? with
    | some e => match e.index ix with
      | some e' => (.num e'.len, rs.set d e')
      | none => (.err, rs)
    | none => (.err, rs)
  | .row a i => match rs[a]? with
    | some e => match norm e.len i with
      | some j => (.rows [rowOf e.cols j], rs)
      | none => (.err, rs)
    | none => (.err, rs)
  | .cat a b => match rs[a]?, rs[b]? with
    | some ea, some eb => match Eager.concat [ea, eb] with
      | some r => (.num r.len, rs.set a r)
      | none => (.err, rs)
    | _, _ => (.err, rs)
  | .replace a d kw => match rs[a]? with
    | some e => (.unit, rs.set d (e.replace kw))
    | none => (.err, rs)
  | .setattr a f c => match rs[a]? with
    | some e => (.unit, rs.set a (e.setattr f c))
    | none => (.err, rs)
  | .tolist a => match rs[a]? with
    | some e => (.rows (transposeN e.len e.cols), rs)
    | none => (.err, rs)
  | .write a => match rs[a]? with
    | some e => if !k.eagerWrite then (.err, rs) else (.bytes (e.write k.join), rs)
    | none => (.err, rs)

/-- the arguments of an operation fit the table it is applied to: replacement columns have one value per row (a caller
error otherwise - on which the real lazy and eager tables do NOT agree: the lazy table accepts an ill-sized column and fails
later, the eager `replace` raises at once) -/
def opOKb (op : Op) (ls : List Lazy) : Bool :=
  match op with
  | .replace a _ kw => match ls[a]? with
    | some l => kw.all (fun p => p.2.length == l.buf.length)
    | none => true
  | .setattr a _ c => match ls[a]? with
    | some l => c.length == l.buf.length
    | none => true
  | _ => true

/-- the domain of the equivalence theorems, checked along the run (the driver evaluates it on every request) -/
def runOKb (k : Cfg) : List Op → List Lazy → Bool
  | [], _ => true
  | op :: ops, ls => opOKb op ls && runOKb k ops (stepLazy k op ls).2

def runLazy (k : Cfg) : List Op → List Lazy → List Obs
  | [], _ => []
  | op :: ops, rs => let s := stepLazy k op rs; s.1 :: runLazy k ops s.2

def runEager (k : Cfg) : List Op → List Eager → List Obs
  | [], _ => []
  | op :: ops, rs => let s := stepEager k op rs; s.1 :: runEager k ops s.2

end C05

namespace C05
/-! the writers' per-record layouts the driver instantiates `Cfg.join` with (every theorem is parametric in `join`) -/
def joinTab (fields : List Bytes) : Bytes :=
  (match fields with
   | [] => []
   | f :: r => r.foldl (fun acc x => acc ++ [9] ++ x) f) ++ [10]

/-- `OneLineBuffer.join_fields` / `FastQBuffer.join_fields` on one entry -/
def joinFastq (fields : List Bytes) : Bytes :=
  match fields with
  | [n, s, q] => [64] ++ n ++ [10] ++ s ++ [10] ++ [43, 10] ++ q ++ [10]
  | _ => []
def joinFasta (fields : List Bytes) : Bytes :=
  match fields with
  | [n, s] => [62] ++ n ++ [10] ++ s ++ [10]
  | _ => []

/-- `NpDataclassReader._should_be_lazy`, as written in the code: `config.LAZY`, the `lazy=` keyword (`none` = not passed), and
whether the buffer type is excluded from lazy reading (GTF/GFF entries, buffers without `get_field_by_number`) -/
def shouldBeLazy (cfgLazy : Bool) (kw : Option Bool) (excluded : Bool) : Bool :=
  if ((!cfgLazy) && kw.isNone) || (kw == some false) then false else !excluded

/-- which rules the current tree uses (false = shipped, true = repaired) -/
def concatFixed : Bool := true
def setattrFixed : Bool := true
end C05
