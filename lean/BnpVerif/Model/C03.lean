import BnpVerif.Model.C02
/-! C03 — write→read round trip, canonical bytes, composable writes.

Executable model of `dump_csv/join_columns/get_column`, `VCFBuffer.from_data` (POS+1),
`GfaSequenceBuffer.from_data`, `OneLineBuffer/FastQBuffer.join_fields`, `MultiLineFastaBuffer.from_data`
(wrap arithmetic), `NpBufferedWriter.write` (header-once flag, append mode, stream of chunks, empty tables),
`files._get_buffered_file` mode selection; plus the canonical serialisation (Spec). Core-only imports. -/
namespace C03
open C02 (Bytes joinWith splitOn unlines)

/-! ## cells -/

/-- decimal digit values of a natural number, most significant first (`ints_to_strings`: specified external,
owned by C18) -/
def natDigits (n : Nat) : List Nat :=
  if _h : n < 10 then [n] else natDigits (n / 10) ++ [n % 10]
termination_by n
decreasing_by omega

def formatNat (n : Nat) : Bytes := (natDigits n).map (· + 48)

def formatInt (i : Int) : Bytes := if i < 0 then 45 :: formatNat i.natAbs else formatNat i.natAbs

/-- a table cell as the writer sees it: text (strings, identifiers, strands, sequences, and floats — whose text is
Python's `str(float)`, an external), integers, integer lists, quality values -/
inductive Cell where
  | text (b : Bytes)
  | int (i : Int)
  | ints (l : List Int)
  | qual (q : List Nat)
deriving DecidableEq, Repr

/-- `get_column` -/
def cellText : Cell → Bytes
  | .text b => b
  | .int i => formatInt i
  | .ints l => joinWith 44 (l.map formatInt)
  | .qual q => q.map (· + 33)

abbrev Row := List Cell

/-! ## delimited tables (`dump_csv` / `join_columns`) -/

/-- `join_columns`: one ragged "line" per cell, row-major, each cell followed by the separator,
the last cell of a row by `\n`; flattened -/
def joinColumns (sep : Nat) (cols : List (List Bytes)) : Bytes :=
  let nRows := (cols.head?.map List.length).getD 0
  let nCols := cols.length
  (List.range nRows).flatMap (fun r =>
    (List.range nCols).flatMap (fun c => (cols.getD c []).getD r [] ++ [if c + 1 = nCols then 10 else sep]))

/-- column-major view of a table of rows (what `getattr(data, field.name)` hands to `dump_csv`) -/
def columnsOf (nCols : Nat) (rows : List (List Bytes)) : List (List Bytes) :=
  (List.range nCols).map (fun c => rows.map (fun r => r.getD c []))

/-- canonical serialisation: TAB-separated cells, one record per line -/
def dumpSpec (sep : Nat) (rows : List (List Bytes)) : Bytes :=
  rows.flatMap (fun r => joinWith sep r ++ [10])

/-- `VCFBuffer.from_data`: `position + 1` -/
def shiftPos (d : Int) (r : Row) : Row :=
  match r with
  | c0 :: Cell.int p :: rest => c0 :: Cell.int (p + d) :: rest
  | r => r

def dumpDelimited (nCols : Nat) (rows : List Row) : Bytes :=
  if rows = [] then [] else joinColumns 9 (columnsOf nCols (rows.map (·.map cellText)))

/-! ## FASTQ / 2-line layout (`OneLineBuffer.join_fields`) -/

/-- per entry: line `i` = (marker if its offset is 1) ++ field ++ `\n` -/
def joinFields (marker : Nat) (offsets : List Nat) (entries : List (List Bytes)) : Bytes :=
  entries.flatMap (fun e =>
    (List.zip e (offsets ++ List.replicate e.length 0)).flatMap (fun fo =>
      (if fo.2 = 1 then [marker] else []) ++ fo.1 ++ [10]))

def dumpFastq (marker : Nat) (offsets : List Nat) (rows : List Row) : Bytes :=
  joinFields marker offsets (rows.map (fun r => match r.map cellText with
    | [n, s, q] => [n, s, [43], q]          -- `FastQBuffer.join_fields` inserts the '+' line
    | other => other))

def fastqSpec (rows : List Row) : Bytes :=
  rows.flatMap (fun r => match r.map cellText with
    | [n, s, q] => 64 :: n ++ [10] ++ s ++ [10] ++ [43, 10] ++ q ++ [10]
    | _ => [])

/-! ## wrapped FASTA (`MultiLineFastaBuffer.from_data`) -/

/-- `(L - 1) // W + 1` with Python floor division (so `L = 0` gives 0 lines) -/
def nLines (W : Nat) (L : Nat) : Nat := (Int.fdiv ((L : Int) - 1) (W : Int) + 1).toNat

/-- `(L - 1) % W + 1` with Python modulo (so `L = 0` gives `W`) -/
def lastLen (W : Nat) (L : Nat) : Nat := (Int.fmod ((L : Int) - 1) (W : Int) + 1).toNat

/-- lengths of the sequence lines of one entry: all `W`, the last one `lastLen` -/
def lineLens (W : Nat) (L : Nat) : List Nat :=
  match nLines W L with
  | 0 => []
  | k + 1 => List.replicate k W ++ [lastLen W L]

/-- the writer fills all sequence lines from the *flat* concatenation of all sequences, cut by the line lengths -/
def dumpFasta (W : Nat) (entries : List (Bytes × Bytes)) : Bytes :=
  let lens := entries.map (fun e => lineLens W e.2.length)
  let allLines := C02.unflatten lens.flatten (entries.map (·.2)).flatten
  let perEntry := C02.unflatten (lens.map List.length) allLines
  (List.zip entries perEntry).flatMap (fun p => 62 :: p.1.1 ++ [10] ++ (p.2.map (· ++ [10])).flatten)

/-- the format: sequence in chunks of `W` -/
def wrap (W : Nat) : Nat → Bytes → List Bytes
  | 0, _ => []
  | fuel + 1, s => if s = [] then [] else s.take W :: wrap W fuel (s.drop W)

def fastaSpec (W : Nat) (entries : List (Bytes × Bytes)) : Bytes :=
  entries.flatMap (fun e => 62 :: e.1 ++ [10] ++ ((wrap W e.2.length e.2).map (· ++ [10])).flatten)

/-- the order in which the code assigned the two special line lengths before the repair: header first, then
"last line" — for an empty sequence both indices coincide and the header length was overwritten -/
def headerLenOld (W nameLen L : Nat) : Nat := if nLines W L = 0 then lastLen W L + 1 else nameLen + 2
def headerLenNew (_W nameLen _L : Nat) : Nat := nameLen + 2

/-! ## the writer (`NpBufferedWriter`) -/

inductive Mode where
  | write | append
deriving DecidableEq, Repr

structure WState where
  headerWritten : Bool
deriving DecidableEq, Repr

/-- `_get_buffered_file` (repaired): a writer opened with 'w' owes the header; an appending writer owes it only
when the target does not exist or is empty -/
def initState (m : Mode) (targetEmpty : Bool) : WState := ⟨m == Mode.append && !targetEmpty⟩

/-- as shipped: every writer started owing the header and only `file_obj.mode != 'ab'` (the `plainAppend` flag of
`writeStep`) held it back — which a gzip file object never satisfies, and which also withheld the header from a
new file opened for appending -/
def initStateOld (_m : Mode) : WState := ⟨false⟩

/-- one `write(table)` call: header if none was written yet (before the emptiness test), then the dump of a
non-empty table. `plainAppend` = the file object reports mode 'ab'. -/
def writeStep (hdr : Bytes) (dump : List Row → Bytes) (plainAppend : Bool) (st : WState) (t : List Row) : Bytes × WState :=
  let hs := if !plainAppend && !st.headerWritten then (hdr, (⟨true⟩ : WState)) else ([], st)
  if t = [] then hs else (hs.1 ++ dump t, hs.2)

def writeAll (hdr : Bytes) (dump : List Row → Bytes) (plainAppend : Bool) : WState → List (List Row) → Bytes
  | _, [] => []
  | st, t :: ts =>
    let r := writeStep hdr dump plainAppend st t
    r.1 ++ writeAll hdr dump plainAppend r.2 ts

/-- `write(stream)` (repaired): every chunk, empty ones included, goes through `write` -/
def writeStream (hdr : Bytes) (dump : List Row → Bytes) (plainAppend : Bool) (st : WState) (ts : List (List Row)) : Bytes :=
  writeAll hdr dump plainAppend st ts

/-- as shipped: empty chunks were skipped before anything else happened, so a stream of empty chunks wrote no
header at all -/
def writeStreamOld (hdr : Bytes) (dump : List Row → Bytes) (plainAppend : Bool) (st : WState) (ts : List (List Row)) : Bytes :=
  writeAll hdr dump plainAppend st (ts.filter (· ≠ []))

/-- one writer: opened for writing (truncates) or appending, fed by successive `write` calls or by one stream -/
structure Sess where
  mode : Mode
  stream : Bool
  pieces : List (List Row)
deriving Repr

/-- the file content after one writer session, given the content before it -/
def runSess (hdr : Bytes) (dump : List Row → Bytes) (acc : Bytes) (s : Sess) : Bytes :=
  let base := if s.mode = Mode.write then [] else acc
  let st := initState s.mode (base == [])
  base ++ (if s.stream then writeStream hdr dump false st s.pieces else writeAll hdr dump false st s.pieces)

def runAll (hdr : Bytes) (dump : List Row → Bytes) : Bytes → List Sess → Bytes
  | acc, [] => acc
  | acc, s :: ss => runAll hdr dump (runSess hdr dump acc s) ss

/-- the same with the shipped rule (`gz` = the target is a gzip file) -/
def runSessOld (hdr : Bytes) (dump : List Row → Bytes) (gz : Bool) (acc : Bytes) (s : Sess) : Bytes :=
  let base := if s.mode = Mode.write then [] else acc
  let pa := s.mode == Mode.append && !gz
  base ++ (if s.stream then writeStreamOld hdr dump pa (initStateOld s.mode) s.pieces
           else writeAll hdr dump pa (initStateOld s.mode) s.pieces)

def runAllOld (hdr : Bytes) (dump : List Row → Bytes) (gz : Bool) : Bytes → List Sess → Bytes
  | acc, [] => acc
  | acc, s :: ss => runAllOld hdr dump gz (runSessOld hdr dump gz acc s) ss

/-- the `write` calls a session makes: one per table / chunk handed to it -/
def Sess.calls (s : Sess) : List (List Row) := s.pieces

/-- cut a table at the given positions -/
def cutAt {α} (rows : List α) : Nat → List Nat → List (List α)
  | prev, [] => [rows.drop prev]
  | prev, c :: cs => (rows.take c).drop prev :: cutAt rows c cs

/-! ## the writers, format by format (what one `write(table)` call produces) -/

/-- constants of the package that the writers use; re-measured on every run into `Gen.C03.consts` -/
structure Consts where
  fastaWidth : Nat
  fastaMarker : Nat
  fastqMarker : Nat
  fastqOffsets : List Nat

def isVcf (fmt : String) : Bool := fmt = "vcf" ∨ fmt = "vcfs" ∨ fmt = "vcf2"

/-- what the format's `from_data` does to a record before the generic delimited serialiser: VCF `position + 1`,
GFA the record-type column `S` in front -/
def prepRow (fmt : String) (r : Row) : Row :=
  if isVcf fmt then shiftPos 1 r
  else if fmt = "gfa" then Cell.text [83] :: r
  else r

def prep (fmt : String) (rows : List Row) : List Row := rows.map (prepRow fmt)

/-- (name, sequence) of a FASTA record -/
def entriesOf (rows : List Row) : List (Bytes × Bytes) :=
  rows.map (fun r => match r.map cellText with
    | [n, s] => (n, s)
    | _ => ([], []))

/-- the code's serialiser for one `write` call (the delimited one takes its column count from the first record) -/
def dumpModel (K : Consts) (fmt : String) (rows : List Row) : Bytes :=
  if fmt = "fasta" then (if rows = [] then [] else dumpFasta K.fastaWidth (entriesOf rows))
  else if fmt = "fastq" then dumpFastq K.fastqMarker K.fastqOffsets rows
  else if fmt = "fasta2" then joinFields K.fastaMarker [1, 0] (rows.map (·.map cellText))
  else
    let rs := prep fmt rows
    dumpDelimited ((rs.head?.map List.length).getD 0) rs

/-- the canonical serialisation of a table in a format -/
def dumpCanon (fmt : String) (rows : List Row) : Bytes :=
  if fmt = "fasta" then fastaSpec 80 (entriesOf rows)
  else if fmt = "fastq" then fastqSpec rows
  else if fmt = "fasta2" then (entriesOf rows).flatMap (fun e => 62 :: e.1 ++ [10] ++ e.2 ++ [10])
  else dumpSpec 9 ((prep fmt rows).map (·.map cellText))

end C03
