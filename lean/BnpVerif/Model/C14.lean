import BnpVerif.Base.Opt
import BnpVerif.Base.Unflat
/-! C14 — reverse complement, stranded extraction, translation.
Executable model of `sequence/dna.py` (`complement`, `get_reverse_complement`,
`get_strand_specific_sequences`), `genomic_data/genomic_sequence.py`
(`GenomicSequence.extract_intervals(stranded=True)`) and `sequence/translate.py`
(`Translate.windowed`/`__call__`, `DNAToProtein`), plus the property-level specification.
Core-only imports. -/
namespace C14
open Base

abbrev Bytes := List Nat

def isLower (b : Nat) : Bool := 97 ≤ b && b ≤ 122
def toUpper (b : Nat) : Nat := if isLower b then b - 32 else b

/-! ### Specification (written from the biology, not from the code) -/

/-- the ten letters the property quantifies over: `ACGTNacgtn` -/
def dnaLetters : List Nat := [65, 67, 71, 84, 78, 97, 99, 103, 116, 110]
def isDna (b : Nat) : Bool := dnaLetters.contains b

/-- A↔T, C↔G, case kept, everything else (in particular N, n) fixed -/
def compByte (b : Nat) : Nat :=
  if b = 65 then 84 else if b = 84 then 65 else if b = 67 then 71 else if b = 71 then 67
  else if b = 97 then 116 else if b = 116 then 97 else if b = 99 then 103 else if b = 103 then 99
  else b

/-- reverse complement of one sequence: reverse ∘ map complement -/
def specRevComp (s : Bytes) : Bytes := (s.map compByte).reverse

/-- the standard genetic code, by amino-acid families (one-letter code, codons as text) -/
def families : List (Char × List String) := [
  ('F', ["TTT", "TTC"]),
  ('L', ["TTA", "TTG", "CTT", "CTC", "CTA", "CTG"]),
  ('I', ["ATT", "ATC", "ATA"]),
  ('M', ["ATG"]),
  ('V', ["GTT", "GTC", "GTA", "GTG"]),
  ('S', ["TCT", "TCC", "TCA", "TCG", "AGT", "AGC"]),
  ('P', ["CCT", "CCC", "CCA", "CCG"]),
  ('T', ["ACT", "ACC", "ACA", "ACG"]),
  ('A', ["GCT", "GCC", "GCA", "GCG"]),
  ('Y', ["TAT", "TAC"]),
  ('*', ["TAA", "TAG", "TGA"]),
  ('H', ["CAT", "CAC"]),
  ('Q', ["CAA", "CAG"]),
  ('N', ["AAT", "AAC"]),
  ('K', ["AAA", "AAG"]),
  ('D', ["GAT", "GAC"]),
  ('E', ["GAA", "GAG"]),
  ('C', ["TGT", "TGC"]),
  ('W', ["TGG"]),
  ('R', ["CGT", "CGC", "CGA", "CGG", "AGA", "AGG"]),
  ('G', ["GGT", "GGC", "GGA", "GGG"])]

/-- the families as byte lists -/
def familiesB : List (Nat × List Bytes) :=
  families.map (fun p => (p.1.toNat, p.2.map (fun s => s.toList.map Char.toNat)))

/-- amino acid of a codon (three upper-case ASCII letters); `none` outside the genetic code -/
def standardCode (codon : Bytes) : Option Nat :=
  (familiesB.find? (fun p => p.2.contains codon)).map (·.1)

/-- consecutive triples of a sequence (a trailing remainder is dropped) -/
def chunks3 : List Nat → List (List Nat)
  | a :: b :: c :: rest => [a, b, c] :: chunks3 rest
  | _ => []

/-- translation of one sequence: the amino acid of each codon in order, case-insensitively -/
def specTranslate (s : Bytes) : Option Bytes := omap standardCode (chunks3 (s.map toUpper))

/-! ### Model of the code -/

/-- What the code holds per encoding, tabulated behaviourally: `dec` = code ↦ ASCII byte
(identity on 0..127 for the ASCII encoding), `comp` = code ↦ code returned by
`get_reverse_complement` on a one-symbol array (`none` = raised). -/
structure Tab where
  dec : List Nat
  comp : List (Option Nat)

def decode (T : Tab) (cs : List Nat) : Option Bytes := omap (fun c => T.dec[c]?) cs

/-- `lookup[array]` (fancy indexing; an out-of-range code raises) -/
def complement (T : Tab) (cs : List Nat) : Option (List Nat) := omap (fun c => (T.comp[c]?).join) cs

/-- `get_reverse_complement` on a flat EncodedArray: `complement(sequence)[..., ::-1]` -/
def revcompFlat (T : Tab) (cs : List Nat) : Option (List Nat) := (complement T cs).map List.reverse

/-- `get_reverse_complement` on an EncodedRaggedArray: ravel, look up, re-wrap with the input
shape, reverse every row -/
def revcompRagged (T : Tab) (rows : List (List Nat)) : Option (List (List Nat)) :=
  (complement T rows.flatten).map (fun d => (unflatten (rows.map List.length) d).map List.reverse)

/-- the 128-entry ASCII lookup the code SHIPPED with (`np.zeros(128)`, only the five upper-case
keys of `_complements` filled in): kept for the recorded refutation -/
def asciiOld : Tab := {
  dec := List.range 128,
  comp := (List.range 128).map (fun b =>
    some (if b = 65 then 84 else if b = 84 then 65 else if b = 67 then 71 else if b = 71 then 67
          else if b = 78 then 78 else 0)) }

/-- an interval on sequence number `chrom`: `[start, stop)`, `strand` an ASCII byte -/
structure Iv where
  chrom : Nat
  start : Nat
  stop : Nat
  strand : Nat

/-- `sequence[start:stop]` for `0 ≤ start ≤ stop ≤ len` -/
def slice (seq : List Nat) (iv : Iv) : List Nat := (seq.drop iv.start).take (iv.stop - iv.start)

/-- row-wise `np.where(mask[:, newaxis], a, b)` -/
def selectRows : List Bool → List (List Nat) → List (List Nat) → List (List Nat)
  | m :: ms, a :: as, b :: bs => (if m then a else b) :: selectRows ms as bs
  | _, _, _ => []

def relevant (seqs : List (List Nat)) (ivs : List Iv) : List (List Nat) :=
  ivs.map (fun iv => slice (seqs.getD iv.chrom []) iv)

/-- a ragged view into flat data: row `i` is `data[starts[i] : starts[i] + lens[i]]` -/
structure View where
  starts : List Nat
  lens : List Nat

/-- `encoded_array[starts:stops]` with array bounds: npstructures builds the view
`(starts, stops - starts)` -/
def View.ofBounds (ivs : List Iv) : View :=
  { starts := ivs.map (·.start), lens := ivs.map (fun iv => iv.stop - iv.start) }

/-- materialise a view (`ravel()` copies the rows out in order) -/
def View.extract (data : List Nat) : List Nat → List Nat → List (List Nat)
  | s :: ss, l :: ls => (data.drop s).take l :: View.extract data ss ls
  | _, _ => []

/-- Python `seq[start:stop]` for non-negative ints (`GenomicSequenceDict._extract_intervals`) -/
def pySliceNat (seq : List Nat) (start stop : Nat) : List Nat := (seq.take stop).drop start

/-- `np.repeat(row_mask, lengths)` -/
def expandMask : List Bool → List Nat → List Bool
  | m :: ms, l :: ls => List.replicate l m ++ expandMask ms ls
  | _, _ => []

/-- flat `np.where(mask, x, y)` on equally long operands -/
def whereFlat : List Bool → List Nat → List Nat → List Nat
  | m :: ms, x :: xs, y :: ys => (if m then x else y) :: whereFlat ms xs ys
  | _, _, _ => []

/-- `where_rows(row_mask, if_true, if_false)`: ragged mask `RaggedArray(np.repeat(row_mask,
if_true.lengths), if_true.lengths)`, then npstructures `where` on the raveled operands, re-wrapped
with the mask's shape -/
def whereRows (mask : List Bool) (a b : List (List Nat)) : List (List Nat) :=
  let lens := a.map List.length
  unflatten lens (whereFlat (expandMask mask lens) a.flatten b.flatten)

/-- `get_sequences(sequence, intervals)`: the forward slices, strands ignored -/
def getSequences (seq : List Nat) (ivs : List Iv) : List (List Nat) :=
  View.extract seq (View.ofBounds ivs).starts (View.ofBounds ivs).lens

/-- `GenomicSequence.extract_intervals(stranded=False)` (also what `genomic_sequence[intervals]` does for
intervals that are not stranded) -/
def extractUnstranded (seqs : List (List Nat)) (ivs : List Iv) : List (List Nat) :=
  ivs.map (fun iv => pySliceNat (seqs.getD iv.chrom []) iv.start iv.stop)

/-- `get_strand_specific_sequences`: ragged-slice the one sequence by the interval bounds,
reverse-complement everything, `where_rows(strand == '-', reverse complement, forward)` -/
def strandSpecific (T : Tab) (seqs : List (List Nat)) (ivs : List Iv) : Option (List (List Nat)) :=
  let v := View.ofBounds ivs
  let rel := View.extract (seqs.getD 0 []) v.starts v.lens
  (revcompRagged T rel).map (fun rc => whereRows (ivs.map (fun iv => iv.strand == 45)) rc rel)

/-- `GenomicSequence.extract_intervals(stranded=True)` over a sequence dict: one Python slice per
interval, `where_rows(strand == '+', forward, reverse complement)` -/
def extractStranded (T : Tab) (seqs : List (List Nat)) (ivs : List Iv) : Option (List (List Nat)) :=
  let rel := ivs.map (fun iv => pySliceNat (seqs.getD iv.chrom []) iv.start iv.stop)
  (revcompRagged T rel).map (fun rc => whereRows (ivs.map (fun iv => iv.strand == 43)) rel rc)

/-! #### transcript sequences (`sequence/genes.py`) -/

/-- one exon row as `get_transcript_sequences` reads it -/
structure Exon where
  tid : Nat
  strand : Nat
  start : Nat
  stop : Nat

/-- `itertools.groupby(exon_entries, key=transcript_id)`: maximal runs of equal ids, in order -/
def groupRuns : List Exon → List (List Exon)
  | [] => []
  | e :: es =>
    match groupRuns es with
    | [] => [[e]]
    | g :: gs => if (g.head?.map (·.tid)) == some e.tid then (e :: g) :: gs else [e] :: g :: gs

def exonSlice (ref : List Nat) (e : Exon) : List Nat := (ref.drop e.start).take (e.stop - e.start)

/-- `get_transcript_sequences`: ragged-slice the reference by the exon bounds, ravel, re-wrap by
the per-transcript sums of `stop - start`, reverse-complement everything,
`where_rows(strand of the first exon == '-', reverse complement, forward)` -/
def transcriptSeqs (T : Tab) (ref : List Nat) (exons : List Exon) : Option (List (List Nat)) :=
  let flat := (View.extract ref (exons.map (·.start)) (exons.map (fun e => e.stop - e.start))).flatten
  let groups := groupRuns exons
  let lens := groups.map (fun g => (g.map (fun e => e.stop - e.start)).sum)
  let ts := unflatten lens flat
  let neg := groups.map (fun g => (g.head?.map (·.strand)) == some 45)
  (revcompRagged T ts).map (fun rc => whereRows neg rc ts)

/-- per transcript: the exon slices joined in order, reverse-complemented as a whole for `-` -/
def specTranscripts (ref : Bytes) (exons : List Exon) : List Bytes :=
  (groupRuns exons).map (fun g =>
    let s := (g.map (exonSlice ref)).flatten
    if (g.head?.map (·.strand)) == some 45 then specRevComp s else s)

/-- the shipped row selection went through npstructures' `where` with a column mask, which is
only broadcast when it has fewer entries than the data: with at least as many intervals as
extracted letters the call raised. Kept for the recorded refutation. -/
def strandSpecificOld (T : Tab) (seqs : List (List Nat)) (ivs : List Iv) : Option (List (List Nat)) :=
  if ivs.length < (relevant seqs ivs).flatten.length then
    (revcompRagged T (relevant seqs ivs)).map
      (fun rc => selectRows (ivs.map (fun iv => iv.strand == 45)) rc (relevant seqs ivs))
  else none

def specStrand (seqs : List Bytes) (ivs : List Iv) : List Bytes :=
  ivs.map (fun iv => if iv.strand == 43 then slice (seqs.getD iv.chrom []) iv
                     else specRevComp (slice (seqs.getD iv.chrom []) iv))

/-! #### translation -/

/-- `as_encoded_array(text, AlphabetEncoding("TCAG"))` on one byte -/
def encTCAG (b : Nat) : Option Nat :=
  let u := toUpper b
  if u = 84 then some 0 else if u = 67 then some 1 else if u = 65 then some 2 else if u = 71 then some 3
  else none

/-- `KmerEncoder.__call__`: `letters.dot(base ** arange(k))` (little-endian number) -/
def hashLE (base : Nat) : List Nat → Nat
  | [] => 0
  | x :: xs => x + base * hashLE base xs

/-- `Translate.__call__` on the reshaped `(-1, 3)` array: reverse each triple, hash, index the table -/
def translateCodes (tab : List Nat) (codes : List Nat) : Option (List Nat) :=
  omap (fun t => tab[hashLE 4 t.reverse]?) (chunks3 codes)

inductive TrErr | encoding | assertion | index
  deriving DecidableEq, Repr

/-- `Translate().windowed(rows)`: encode (EncodingError), assert all lengths % 3 == 0, ravel,
reshape, translate, re-wrap with `lengths // 3` -/
def translateRows (tab : List Nat) (rows : List Bytes) : Except TrErr (List Bytes) :=
  match omap encTCAG rows.flatten with
  | none => .error .encoding
  | some codes =>
    if rows.all (fun r => r.length % 3 == 0) then
      match translateCodes tab codes with
      | none => .error .index
      | some aas => .ok (unflatten (rows.map (fun r => r.length / 3)) aas)
    else .error .assertion

/-- index ↦ codon text in TCAG order (how the Gen table is laid out) -/
def tcag : List Nat := [84, 67, 65, 71]
def codonOfIndex (i : Nat) : Bytes := [tcag.getD (i / 16) 0, tcag.getD (i / 4 % 4) 0, tcag.getD (i % 4) 0]

/-- the 64-entry table the standard code prescribes (0 where undefined: never happens) -/
def stdTable : List Nat := (List.range 64).map (fun i => (standardCode (codonOfIndex i)).getD 0)

/-! ### whole-table obligations (re-checked by the kernel against Gen tables on every run) -/

/-- every code that decodes to a DNA letter is sent to a code that decodes to its complement;
the decode table is injective -/
def tableOK (T : Tab) : Bool :=
  T.comp.length == T.dec.length &&
  (List.range T.dec.length).all (fun c =>
    match T.dec[c]? with
    | some b => !isDna b ||
        (match (T.comp[c]?).join with
         | some c' => T.dec[c']? == some (compByte b)
         | none => false)
    | none => false) &&
  T.dec.Nodup

/-- first code on which the table deviates (handed to the search) -/
def firstBadCode (T : Tab) : Option Nat :=
  (List.range T.dec.length).find? (fun c =>
    match T.dec[c]? with
    | some b => isDna b &&
        !(match (T.comp[c]?).join with
          | some c' => T.dec[c']? == some (compByte b)
          | none => false)
    | none => true)

/-! ### tables of sequences (`@apply_to_npdataclass("sequence")`, `bnp.replace`, lazy file-backed tables) -/

/-- what a table operation raises (`AssertionError`: a column of another length; `IndexError`: a row index outside the
table / a code outside the lookup table; `EncodingError`; a column that does not exist) -/
inductive PErr | assertion | index | encoding | noColumn
  deriving DecidableEq, Repr

/-- a table of entries as the sequence functions see it. `n` = `len(table)`, `file` = the columns as parsed from the
buffer (or the constructor arguments of an in-memory table), `sets` = the replacement dictionary of a lazy table
(`_set_values`; empty for a table that was never touched) -/
structure Table where
  n : Nat
  file : List (String × List Bytes)
  sets : List (String × List Bytes)

/-- `table.<column>` (`__getattr__`): a replaced column first, else the parsed one -/
def Table.get (t : Table) (k : String) : Option (List Bytes) :=
  match t.sets.lookup k with
  | some v => some v
  | none => t.file.lookup k

/-- `bnp.replace(table, k=v)` (`__replace__`): a column of another length than the table is refused (lazy table:
`len(value) != len(self)` → `dataclasses.replace(self.get_data_object(), …)` → the data class asserts equal lengths; an
in-memory table asserts directly); otherwise `new_dict = dict(self._set_values); new_dict.update(k=v)` - the NEW value
wins over an earlier replacement of the same column; the other columns are kept -/
def Table.replace (t : Table) (k : String) (v : List Bytes) : Except PErr Table :=
  if v.length = t.n then .ok { t with sets := (k, v) :: t.sets.filter (fun p => p.1 != k) }
  else .error .assertion

/-- `x[idx]` for an index list whose entries are all in range (the callers test that first) -/
def selRows (p : List Nat) (rows : List Bytes) : List Bytes := p.map (fun i => rows.getD i [])

/-- an operation applied to every column, giving a table of `n'` rows -/
def Table.mapCols (n' : Nat) (f : List Bytes → List Bytes) (t : Table) : Table :=
  ⟨n', t.file.map (fun p => (p.1, f p.2)), t.sets.map (fun p => (p.1, f p.2))⟩

/-- one step of user code between / around the sequence functions -/
inductive PStep where
  | rc | translate | replace (rows : List Bytes) | same | idx (p : List Nat) | concat (k : Nat)

/-- `apply_to_npdataclass("sequence")(f)(table) = replace(table, sequence=f(table.sequence))` -/
def Table.applySeq (f : List Bytes → Except PErr (List Bytes)) (t : Table) : Except PErr Table :=
  match t.get "sequence" with
  | none => .error .noColumn
  | some s => match f s with
    | .error e => .error e
    | .ok r => t.replace "sequence" r

def trErr : TrErr → PErr
  | .encoding => .encoding
  | .assertion => .assertion
  | .index => .index

def pipeStep (T : Tab) (tab : List Nat) (t : Table) : PStep → Except PErr Table
  | .rc => t.applySeq (fun s => match revcompRagged T s with
      | some r => .ok r
      | none => .error .index)
  | .translate => t.applySeq (fun s => match translateRows tab s with
      | .ok r => .ok r
      | .error e => .error (trErr e))
  | .replace r => t.replace "sequence" r
  | .same => t.applySeq .ok
  | .idx p => if p.all (fun i => i < t.n) then .ok (t.mapCols p.length (selRows p)) else .error .index
  | .concat k => .ok (t.mapCols t.n (fun v => v.take k ++ v.drop k))

/-- all stages of a pipeline, the start table first (every stage stays readable afterwards) -/
def runPipe (T : Tab) (tab : List Nat) : Table → List PStep → Except PErr (List Table)
  | t, [] => .ok [t]
  | t, s :: ss =>
    match pipeStep T tab t s with
    | .error e => .error e
    | .ok t' => match runPipe T tab t' ss with
      | .error e => .error e
      | .ok rest => .ok (t :: rest)

/-- the property's reading of one step, on the `sequence` column alone (`none` = outside the domain: a column of
another length, a row index outside the table, a codon outside the genetic code) -/
def specStepSeq (rows : List Bytes) : PStep → Option (List Bytes)
  | .rc => some (rows.map specRevComp)
  | .translate => omap specTranslate rows
  | .replace r => if r.length = rows.length then some r else none
  | .same => some rows
  | .idx p => if p.all (fun i => i < rows.length) then some (selRows p rows) else none
  | .concat _ => some rows

/-- … and on the `name` column: only a row selection changes it -/
def specStepNames (names : List Bytes) : PStep → List Bytes
  | .idx p => selRows p names
  | _ => names

/-- the property's reading of a pipeline: names and sequence column stage by stage -/
def specStages : List Bytes → List Bytes → List PStep → Option (List (List Bytes × List Bytes))
  | n, r, [] => some [(n, r)]
  | n, r, s :: ss =>
    match specStepSeq r s with
    | none => none
    | some r' => (specStages (specStepNames n s) r' ss).map (fun rest => (n, r) :: rest)

/-! ### derived interval objects (`GenomicIntervals`: the rows and the KIND flag `is_stranded`) -/

/-- what a method that rebuilds the object passes as `is_stranded`, as a function of the object's own flag:
`onT` = the result's flag for a stranded object, `onF` = for an unstranded one. `self._is_stranded` is ⟨true, false⟩;
leaving the argument out (constructor default `False`) is ⟨false, false⟩ -/
structure Flag where
  onT : Bool
  onF : Bool
  deriving DecidableEq, Repr

def Flag.apply (f : Flag) (b : Bool) : Bool := if b then f.onT else f.onF
def Flag.keep : Flag := ⟨true, false⟩

/-- the flag behaviour of the five derivations (tabulated from the running code into `Gen.C14.giFlags`) -/
structure GFlags where
  clip : Flag
  idx : Flag
  replace : Flag
  concat : Flag
  windows : Flag
  deriving DecidableEq, Repr

def GFlags.keep : GFlags := ⟨.keep, .keep, .keep, .keep, .keep⟩

structure GI where
  ivs : List Iv
  stranded : Bool

inductive GStep where
  | clip (sizes : List Nat) | idx (p : List Nat) | replaceSame | concat (k : Nat)

def clipIv (sizes : List Nat) (iv : Iv) : Iv :=
  { iv with stop := min (sizes.getD iv.chrom 0) iv.stop }

/-- `clip()`, `gi[idx]`, `bnp.replace(gi, start=gi.start)`, `np.concatenate([gi[:k], gi[k:]])`: each rebuilds the object
by a constructor call `GenomicIntervalsFull(rows, genome_context, <flag>)`; an index outside the object raises -/
def GI.step (F : GFlags) (g : GI) : GStep → Option GI
  | .clip sizes => some ⟨g.ivs.map (clipIv sizes), F.clip.apply g.stranded⟩
  | .idx p => if p.all (fun i => i < g.ivs.length) then some ⟨p.map (fun i => g.ivs.getD i ⟨0, 0, 0, 43⟩), F.idx.apply g.stranded⟩
              else none
  | .replaceSame => some ⟨g.ivs, F.replace.apply g.stranded⟩
  | .concat k => some ⟨g.ivs.take k ++ g.ivs.drop k, F.concat.apply g.stranded⟩

def runG (F : GFlags) : GI → List GStep → Option GI
  | g, [] => some g
  | g, s :: ss => match GI.step F g s with
    | none => none
    | some g' => runG F g' ss

/-- `GenomicLocation.get_windows(flank)`: `[p - flank, p + flank + 1)` clipped to the chromosome -/
def windows (F : GFlags) (sizes : List Nat) (flank : Nat) (locs : List (Nat × Nat × Nat)) (stranded : Bool) : GI :=
  ⟨(locs.map (fun l => (⟨l.1, l.2.1 - flank, l.2.1 + flank + 1, l.2.2⟩ : Iv))).map (clipIv sizes), F.windows.apply stranded⟩

/-- `genomic_sequence[gi]` (`GenomicData.__getitem__`): stranded extraction iff the interval object says so -/
def getitem (T : Tab) (seqs : List (List Nat)) (g : GI) : Option (List (List Nat)) :=
  if g.stranded then extractStranded T seqs g.ivs else some (extractUnstranded seqs g.ivs)

end C14
