/-! C01 — the chunked file reader. Executable model of `NumpyFileReader.read_chunk /
_get_buffer / __add_newline_to_end` driven the way `NpDataclassReader.read_chunks` drives it
(call `read_chunk` until it returns nothing), for an abstract format `Fmt`, in seek mode
(plain files) and carry/prepend mode (gzip). Core-only. -/
namespace C01

abbrev Bytes := List Nat
def NL : Nat := 10
def GT : Nat := 62

/-- What the reader needs to know about a buffer class. `complete` and `cutLen` are stated on the
concatenation of the pending raw chunks: all three buffer families decide completeness by
counting newline / "newline followed by marker" occurrences, which does not depend on how the
bytes are split into raw chunks (the chunk-list form is exercised by the correspondence). -/
structure Fmt where
  /-- `contains_complete_entry(temp_chunks)` -/
  complete : Bytes → Bool
  /-- `from_raw_buffer(chunk).size`: the prefix made of complete entries -/
  cutLen : Bytes → Nat
  /-- `_new_entry_marker` appended at end of file (`[]` when the class has none) -/
  marker : List Nat

def addNL (b : Bytes) : Bytes := if b.getLast? = some NL then b else b ++ [NL]

/-- `__add_newline_to_end` -/
def fixEnd (F : Fmt) (b : Bytes) : Bytes := addNL b ++ F.marker

inductive Mode | seek | carry
deriving DecidableEq, Repr

structure St where
  pos : Nat            -- offset of the OS file object
  carry : Bytes        -- `self._prepend`
  finished : Bool      -- `self._is_finished`
deriving Repr

/-- The `while not complete_entry_found` loop of `read_chunk`.
`acc` = concatenation of `temp_chunks`; `finPrev` = `_is_finished` before this raw read.
`newRule = true` is the repaired end-of-file rule: a raw read of 0 bytes while data is pending
terminates the pending data like a short read would; `false` is the rule the code shipped with
(return None, dropping what is pending).  Result: `none` = `read_chunk` returns None. -/
def accumulate (F : Fmt) (newRule : Bool) (file : Bytes) (k : Nat) :
    Nat → Nat → Bytes → Bool → Option (Bytes × Nat × Bool)
  | 0, _, _, _ => none
  | fuel+1, pos, acc, finPrev =>
    let raw := (file.drop pos).take k
    let fin := decide (raw.length < k)
    if raw.length = 0 then
      if newRule && !acc.isEmpty && !finPrev then
        let acc' := fixEnd F acc
        if F.complete acc' then some (acc', pos, true) else none
      else none
    else
      let acc' := acc ++ (if fin then fixEnd F raw else raw)
      if F.complete acc' then some (acc', pos + raw.length, fin)
      else accumulate F newRule file k fuel (pos + raw.length) acc' fin

/-- one call of `read_chunk(min_chunk_size=k)`; returns the delivered bytes and the new state -/
def readChunk (F : Fmt) (newRule : Bool) (mode : Mode) (file : Bytes) (k : Nat) (s : St) :
    Option (Bytes × St) :=
  match accumulate F newRule file k (file.length + 2) s.pos s.carry s.finished with
  | none => none
  | some (chunk, pos', fin) =>
    let n := F.cutLen chunk
    let s' : St :=
      if fin then { pos := pos', carry := [], finished := true }
      else match mode with
        | .seek => { pos := pos' - (chunk.length - n), carry := [], finished := false }
        | .carry => { pos := pos', carry := chunk.drop n, finished := false }
    some (chunk.take n, s')

/-- `read_chunks`: call `read_chunk` until it returns nothing (or an empty table) -/
def readLoop (F : Fmt) (newRule : Bool) (mode : Mode) (file : Bytes) (k : Nat) : Nat → St → List Bytes
  | 0, _ => []
  | fuel+1, s =>
    match readChunk F newRule mode file k s with
    | none => []
    | some (out, s') => if out.isEmpty then [] else out :: readLoop F newRule mode file k fuel s'

def init : St := { pos := 0, carry := [], finished := false }

def readAll (F : Fmt) (newRule : Bool) (mode : Mode) (file : Bytes) (k : Nat) : List Bytes :=
  readLoop F newRule mode file k (file.length + 2) init

/-! ### the `max_chunk_size` keyword: `read_chunk(min_chunk_size=k, max_chunk_size=cap)` raises
"No complete entry found" as soon as the pending bytes exceed `cap` (checked after every raw read,
before the completeness test) -/

inductive Res (α : Type) | ok (a : α) | stop | err
deriving Repr, DecidableEq

def accumulateCap (F : Fmt) (newRule : Bool) (file : Bytes) (k cap : Nat) :
    Nat → Nat → Bytes → Bool → Res (Bytes × Nat × Bool)
  | 0, _, _, _ => .stop
  | fuel+1, pos, acc, finPrev =>
    let raw := (file.drop pos).take k
    let fin := decide (raw.length < k)
    if raw.length = 0 then
      if newRule && !acc.isEmpty && !finPrev then
        let acc' := fixEnd F acc
        if acc'.length > cap then .err
        else if F.complete acc' then .ok (acc', pos, true) else .stop
      else .stop
    else
      let acc' := acc ++ (if fin then fixEnd F raw else raw)
      if acc'.length > cap then .err
      else if F.complete acc' then .ok (acc', pos + raw.length, fin)
      else accumulateCap F newRule file k cap fuel (pos + raw.length) acc' fin

def readChunkCap (F : Fmt) (newRule : Bool) (mode : Mode) (file : Bytes) (k cap : Nat) (s : St) :
    Res (Bytes × St) :=
  match accumulateCap F newRule file k cap (file.length + 2) s.pos s.carry s.finished with
  | .stop => .stop
  | .err => .err
  | .ok (chunk, pos', fin) =>
    let n := F.cutLen chunk
    let s' : St :=
      if fin then { pos := pos', carry := [], finished := true }
      else match mode with
        | .seek => { pos := pos' - (chunk.length - n), carry := [], finished := false }
        | .carry => { pos := pos', carry := chunk.drop n, finished := false }
    .ok (chunk.take n, s')

/-- `read_chunks(min_chunk_size=k, max_chunk_size=cap)` consumed to the end: `none` = it raised -/
def readLoopCap (F : Fmt) (newRule : Bool) (mode : Mode) (file : Bytes) (k cap : Nat) : Nat → St → Option (List Bytes)
  | 0, _ => some []
  | fuel+1, s =>
    match readChunkCap F newRule mode file k cap s with
    | .stop => some []
    | .err => none
    | .ok (out, s') =>
      if out.isEmpty then some [] else (readLoopCap F newRule mode file k cap fuel s').map (out :: ·)

def readAllCap (F : Fmt) (newRule : Bool) (mode : Mode) (file : Bytes) (k cap : Nat) : Option (List Bytes) :=
  readLoopCap F newRule mode file k cap (file.length + 2) init

/-! ### what the reader looks at when it stops (end-of-file test of fix a0fa304)

`read_chunk` tests for a truncated entry at two places: (site 1) when it gives up because nothing more can be read,
the chunks still pending (`temp_chunks` = the carried bytes and everything read since); (site 2) after the final
chunk was delivered, the bytes of that chunk behind the delivered buffer (`chunk[buff.size:]`). -/

def isBlank (b : Bytes) : Bool := b.all (fun x => x == NL || x == 13)

/-- the bytes examined by the call of `read_chunk` made in state `s` -/
def restOf (F : Fmt) (file : Bytes) (k : Nat) (s : St) : Bytes :=
  match accumulate F true file k (file.length + 2) s.pos s.carry s.finished with
  | none => s.carry ++ file.drop s.pos                                   -- site 1: the pending chunks
  | some (chunk, _, fin) => if fin then chunk.drop (F.cutLen chunk) else []   -- site 2: behind the final buffer

/-- `read_chunks` to the end: the bytes examined by the call that ends the iteration -/
def readLoopRest (F : Fmt) (mode : Mode) (file : Bytes) (k : Nat) : Nat → St → Bytes
  | 0, _ => []
  | fuel+1, s =>
    match readChunk F true mode file k s with
    | none => restOf F file k s
    | some (out, s') =>
      if out.isEmpty then []
      else if s'.finished then restOf F file k s
      else readLoopRest F mode file k fuel s'

def readAllRest (F : Fmt) (mode : Mode) (file : Bytes) (k : Nat) : Bytes :=
  readLoopRest F mode file k (file.length + 2) init

/-- `NumpyFileReader.read()`: the whole file at once -/
def readWhole (F : Fmt) (file : Bytes) : Bytes :=
  if file.isEmpty then [] else
  let c := fixEnd F file
  c.take (F.cutLen c)

/-! ### format instances -/

def countNL (b : Bytes) : Nat := b.count NL

/-- length of the prefix up to and including the `m`-th newline (1-based); whole length if fewer -/
def prefixThroughNL : Nat → Bytes → Nat
  | 0, _ => 0
  | _, [] => 0
  | m+1, x :: xs => if x = NL then 1 + prefixThroughNL m xs else 1 + prefixThroughNL (m+1) xs

/-- `DelimitedBuffer` (n = 1), `OneLineBuffer` two-line FASTA (n = 2), `FastQBuffer` (n = 4):
complete when at least `n` newlines are pending; cut after the last newline whose ordinal is a
multiple of `n`. -/
def Fmt.kLine (n : Nat) : Fmt where
  complete := fun b => decide (n ≤ countNL b)
  cutLen := fun b => prefixThroughNL (countNL b - countNL b % n) b
  marker := []

/-- index just after the last occurrence of "newline followed by `>`" + … i.e. the start of the
last entry header that is preceded by a newline; 0 if none -/
def lastEntryStart : Bytes → Nat
  | [] => 0
  | [_] => 0
  | x :: y :: rest =>
    let r := lastEntryStart (y :: rest)
    if r > 0 then r + 1 else if x = NL ∧ y = GT then 1 else 0

def hasEntryBreak (b : Bytes) : Bool := lastEntryStart b > 0

/-- `MultiLineFastaBuffer`: complete when some newline is directly followed by `>`;
the buffer ends where the last such `>` begins; `>` is appended at end of file. -/
def Fmt.fasta : Fmt where
  complete := hasEntryBreak
  cutLen := lastEntryStart
  marker := [GT]

/-! ### specification side -/

/-- the content a reader must deliver: the file, newline-terminated -/
def norm (file : Bytes) : Bytes := if file.isEmpty then [] else addNL file

/-- lines of a newline-terminated byte string -/
def linesOf : Bytes → List Bytes
  | [] => []
  | x :: xs =>
    if x = NL then [] :: linesOf xs
    else match linesOf xs with
      | [] => [[x]]          -- unterminated tail (does not occur for norm'ed input)
      | l :: ls => (x :: l) :: ls

/-- consecutive groups of `n` (the entries of an `n`-lines-per-entry format, as lists of lines) -/
def groupsOf {α} (n : Nat) (l : List α) : List (List α) :=
  (List.range (l.length / n)).map (fun i => (l.drop (i * n)).take n)

/-- entries of a FASTQ (n = 4) / two-line FASTA (n = 2) / delimited (n = 1) byte string -/
def entriesK (n : Nat) (b : Bytes) : List (List Bytes) := groupsOf n (linesOf b)

/-! ### specification side, continued: records of wrapped FASTA; per-chunk carriage-return stripping; capped reads -/

def isHdr (l : Bytes) : Bool := l.head? == some GT

/-- group lines into records: a header line opens a new record -/
def splitRec : List Bytes → List Bytes → List (List Bytes)
  | [], cur => if cur = [] then [] else [cur]
  | l :: ls, cur => if isHdr l ∧ cur ≠ [] then cur :: splitRec ls [l] else splitRec ls (cur ++ [l])

/-- the records of a (newline-terminated) wrapped FASTA text -/
def recordsFasta (b : Bytes) : List (List Bytes) := splitRec (linesOf b) []


def CR : Nat := 13
def endsCR (l : Bytes) : Bool := l.getLast? == some CR
def dropCR (l : Bytes) : Bytes := if endsCR l then l.dropLast else l

/-- what one buffer makes of its lines -/
def parseLines : List Bytes → List Bytes
  | [] => []
  | l :: ls => if endsCR l then (l :: ls).map dropCR else l :: ls

/-- an LF file: no line ends with a carriage return -/
def AllLF (ls : List Bytes) : Prop := ∀ l ∈ ls, endsCR l = false
/-- a CRLF file: every line ends with a carriage return, except possibly the last one (no final line end) -/
def AllCRLF (ls : List Bytes) : Prop := ∃ init last, ls = init ++ [last] ∧ ∀ l ∈ init, endsCR l = true


def toRes {α} : Option α → Res α
  | some a => .ok a
  | none => .stop


/-- reader states reached from `init`: the carried tail consists of bytes already read -/
def StOK (file : Bytes) (s : St) : Prop := s.carry.length ≤ s.pos ∧ s.pos ≤ file.length


end C01
