import BnpVerif.Base.Opt
/-! C19 — tables of entries behave like column-aligned records.

A table (`bnpdataclass` object) is its tuple of columns (`shallow_tuple`), every column a list of
cells. What bionumpy / `npdataclass` do is *per column* (`[f[idx] for f in shallow_tuple(self)]`,
`np.concatenate` of `zip(*tuples)`, `zip(*iters)` for rows, `_assert_same_lens`); how one column
type indexes or concatenates is an external (NumPy / npstructures / the column classes) with the
list-level meaning used here. Python-level index normalisation (negative ints, `slice.indices`)
is done by the caller: the model takes index lists and boolean masks. Core-only imports. -/
namespace C19
open Base

abbrev Cols (α : Type) := List (List α)

/-- `len(table)` = `len(shallow_tuple(self)[0])` -/
def nrows {α} : Cols α → Nat
  | [] => 0
  | c :: _ => c.length

/-- every column has `n` cells -/
def WFn {α} (n : Nat) (cols : Cols α) : Prop := ∀ c ∈ cols, c.length = n

/-- the table invariant (`_assert_same_lens`): all columns as long as the first -/
def WF {α} (cols : Cols α) : Prop := WFn (nrows cols) cols

def wfB {α} (cols : Cols α) : Bool := cols.all (fun c => c.length == nrows cols)

/-! ### rows: `toiter` / `tolist` = `zip(*iters)`, `from_entry_tuples` = `cls(*zip(*tuples))` -/

/-- Python's `zip(*lists)` (stops at the shortest) -/
def toRows {α} : List (List α) → List (List α)
  | [] => []
  | [c] => c.map (fun x => [x])
  | c :: cs => List.zipWith (· :: ·) c (toRows cs)

/-- `from_entry_tuples`: columns = `zip(*tuples)`; the constructor then checks the lengths.
With no tuples there are no columns: the repaired code returns `cls.empty()` (`width` empty
columns); the shipped code raised `TypeError` (`fromRowsOld`). -/
def fromRows {α} (width : Nat) (rows : List (List α)) : Option (Cols α) :=
  match rows with
  | [] => some (List.replicate width [])
  | _ =>
    let cols := toRows rows
    if cols.length = width && wfB cols then some cols else none

def fromRowsOld {α} (width : Nat) (rows : List (List α)) : Option (Cols α) :=
  match rows with
  | [] => none
  | _ =>
    let cols := toRows rows
    if cols.length = width && wfB cols then some cols else none

/-- row `i` read across the columns -/
def rowAt {α} (cols : Cols α) (i : Nat) : Option (List α) := omap (fun c => c[i]?) cols

/-! ### operations (each acts on every column with the same argument) -/

/-- NumPy integer-array indexing of one column (external): cells at the given positions -/
def gather {α} (ix : List Nat) (l : List α) : List α := ix.filterMap (fun i => l[i]?)

/-- `table[int_list]`: `IndexError` (none) when an index is out of range -/
def take {α} (ix : List Nat) (cols : Cols α) : Option (Cols α) :=
  if ix.all (fun i => decide (i < nrows cols)) then some (cols.map (gather ix)) else none

/-- positions of the `True` entries -/
def maskIdx : List Bool → List Nat
  | [] => []
  | b :: bs => (if b then [0] else []) ++ (maskIdx bs).map (· + 1)

/-- `table[bool_mask]`: the mask must have one entry per row -/
def mask {α} (m : List Bool) (cols : Cols α) : Option (Cols α) :=
  if m.length = nrows cols then take (maskIdx m) cols else none

/-- `np.concatenate([a, b])`: `np.concatenate` per column over `zip(*tuples)` -/
def concat {α} (a b : Cols α) : Cols α := List.zipWith (· ++ ·) a b

/-- `np.argsort(key_column)` as a stable sort of the positions (NumPy's default sort may order
ties differently: observations are compared up to the order inside a tie group) -/
def argsort (ks : List Int) : List Nat :=
  (((List.range ks.length).zip ks).mergeSort (fun a b => decide (a.2 ≤ b.2))).map (·.1)

/-- `sort_by(field)`: `self[np.argsort(getattr(self, field))]` -/
def sortBy {α} (key : α → Int) (j : Nat) (cols : Cols α) : Option (Cols α) :=
  match cols[j]? with
  | none => none
  | some c => take (argsort (c.map key)) cols

/-- `replace(table, field=column)` = `dataclasses.replace` → constructor → `_assert_same_lens` -/
def replaceCol {α} (j : Nat) (c : List α) (cols : Cols α) : Option (Cols α) :=
  if j < cols.length && wfB (cols.set j c) then some (cols.set j c) else none

/-- `add_fields`: new class with the extra fields, constructed from old + new columns -/
def addFields {α} (new : Cols α) (cols : Cols α) : Option (Cols α) :=
  if wfB (cols ++ new) then some (cols ++ new) else none

/-! ### the same operations on lists of rows (Spec) -/

def takeRows {α} (ix : List Nat) (rows : List (List α)) : Option (List (List α)) :=
  if ix.all (fun i => decide (i < rows.length)) then some (gather ix rows) else none

def replaceRows {α} (j : Nat) (c : List α) (rows : List (List α)) : List (List α) :=
  List.zipWith (fun r x => r.set j x) rows c

def addRows {α} (rows new : List (List α)) : List (List α) := List.zipWith (· ++ ·) rows new

/-! ### programs -/

inductive Op (α : Type) where
  | take (ix : List Nat)
  | mask (m : List Bool)
  | concat (other : Cols α)          -- `np.concatenate([t, other])`
  | concatL (other : Cols α)         -- `np.concatenate([other, t])`
  | sortBy (j : Nat) (key : α → Int)   -- what `np.argsort` orders the field by (value / text rank)
  | replace (j : Nat) (c : List α)
  | addFields (new : Cols α)

def step {α} (cols : Cols α) : Op α → Option (Cols α)
  | .take ix => take ix cols
  | .mask m => mask m cols
  | .concat o => if wfB o && o.length == cols.length then some (concat cols o) else none
  | .concatL o => if wfB o && o.length == cols.length then some (concat o cols) else none
  | .sortBy j key => sortBy key j cols
  | .replace j c => replaceCol j c cols
  | .addFields new => addFields new cols

def run {α} : List (Op α) → Cols α → Option (Cols α)
  | [], cols => some cols
  | op :: ops, cols =>
    match step cols op with
    | some c' => run ops c'
    | none => none

end C19
