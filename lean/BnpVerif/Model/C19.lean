import BnpVerif.Base.Opt
/-! C19 — tables of entries behave like column-aligned records.

A table (`bnpdataclass` object) is its tuple of columns (`shallow_tuple`), every column a list of
cells. What bionumpy / `npdataclass` do is *per column* (`[f[idx] for f in shallow_tuple(self)]`,
`np.concatenate` of `zip(*tuples)`, `zip(*iters)` for rows, `_assert_same_lens`); how one column
type indexes or concatenates is an external (NumPy / npstructures / the column classes) with the
list-level meaning used here. Python-level index normalisation (negative ints, `slice.indices`)
is done by the caller: the model takes index lists and boolean masks. Core-only imports. -/
namespace C19
open Base

abbrev Cols (α : Type) := List (List α)

/-- `len(table)` = `len(shallow_tuple(self)[0])` -/
def nrows {α} : Cols α → Nat
  | [] => 0
  | c :: _ => c.length

/-- every column has `n` cells -/
def WFn {α} (n : Nat) (cols : Cols α) : Prop := ∀ c ∈ cols, c.length = n

/-- the table invariant (`_assert_same_lens`): all columns as long as the first -/
def WF {α} (cols : Cols α) : Prop := WFn (nrows cols) cols

def wfB {α} (cols : Cols α) : Bool := cols.all (fun c => c.length == nrows cols)

/-! ### rows: `toiter` / `tolist` = `zip(*iters)`, `from_entry_tuples` = `cls(*zip(*tuples))` -/

/-- Python's `zip(*lists)` (stops at the shortest) -/
def toRows {α} : List (List α) → List (List α)
  | [] => []
  | [c] => c.map (fun x => [x])
  | c :: cs => List.zipWith (· :: ·) c (toRows cs)

/-- `from_entry_tuples`: columns = `zip(*tuples)`; the constructor then checks the lengths.
With no tuples there are no columns: the repaired code returns `cls.empty()` (`width` empty
columns); the shipped code raised `TypeError` (`fromRowsOld`). -/
def fromRows {α} (width : Nat) (rows : List (List α)) : Option (Cols α) :=
  match rows with
  | [] => some (List.replicate width [])
  | _ =>
    let cols := toRows rows
    if cols.length = width && wfB cols then some cols else none

def fromRowsOld {α} (width : Nat) (rows : List (List α)) : Option (Cols α) :=
  match rows with
  | [] => none
  | _ =>
    let cols := toRows rows
    if cols.length = width && wfB cols then some cols else none

/-- row `i` read across the columns -/
def rowAt {α} (cols : Cols α) (i : Nat) : Option (List α) := omap (fun c => c[i]?) cols

/-! ### operations (each acts on every column with the same argument) -/

/-- NumPy integer-array indexing of one column (external): cells at the given positions -/
def gather {α} (ix : List Nat) (l : List α) : List α := ix.filterMap (fun i => l[i]?)

/-- `table[int_list]`: `IndexError` (none) when an index is out of range -/
def take {α} (ix : List Nat) (cols : Cols α) : Option (Cols α) :=
  if ix.all (fun i => decide (i < nrows cols)) then some (cols.map (gather ix)) else none

/-- positions of the `True` entries -/
def maskIdx : List Bool → List Nat
  | [] => []
  | b :: bs => (if b then [0] else []) ++ (maskIdx bs).map (· + 1)

/-- `table[bool_mask]`: the mask must have one entry per row -/
def mask {α} (m : List Bool) (cols : Cols α) : Option (Cols α) :=
  if m.length = nrows cols then take (maskIdx m) cols else none

/-- `table[table.field == value]` / `!=` / `np.isin(table.field, values)`: the column's element-wise
comparison (`StringArray.__array_ufunc__`, NumPy) gives the mask, the mask indexes every column -/
def predMask {α} (p : α → Bool) (j : Nat) (cols : Cols α) : Option (Cols α) :=
  match cols[j]? with
  | none => none
  | some c => mask (c.map p) cols

/-- `np.concatenate([a, b])`: `np.concatenate` per column over `zip(*tuples)` -/
def concat {α} (a b : Cols α) : Cols α := List.zipWith (· ++ ·) a b

/-- `np.argsort(key_column)` as a stable sort of the positions (NumPy's default sort may order
ties differently: observations are compared up to the order inside a tie group) -/
def argsort (ks : List Int) : List Nat :=
  (((List.range ks.length).zip ks).mergeSort (fun a b => decide (a.2 ≤ b.2))).map (·.1)

/-- `sort_by(field)`: `self[np.argsort(getattr(self, field))]` -/
def sortBy {α} (key : α → Int) (j : Nat) (cols : Cols α) : Option (Cols α) :=
  match cols[j]? with
  | none => none
  | some c => take (argsort (c.map key)) cols

/-- `replace(table, field=column)` = `dataclasses.replace` → constructor → `_assert_same_lens` -/
def replaceCol {α} (j : Nat) (c : List α) (cols : Cols α) : Option (Cols α) :=
  if j < cols.length && wfB (cols.set j c) then some (cols.set j c) else none

/-- `add_fields`: new class with the extra fields, constructed from old + new columns -/
def addFields {α} (new : Cols α) (cols : Cols α) : Option (Cols α) :=
  if wfB (cols ++ new) then some (cols ++ new) else none

/-! ### the same operations on lists of rows (Spec) -/

def takeRows {α} (ix : List Nat) (rows : List (List α)) : Option (List (List α)) :=
  if ix.all (fun i => decide (i < rows.length)) then some (gather ix rows) else none

def replaceRows {α} (j : Nat) (c : List α) (rows : List (List α)) : List (List α) :=
  List.zipWith (fun r x => r.set j x) rows c

def addRows {α} (rows new : List (List α)) : List (List α) := List.zipWith (· ++ ·) rows new

/-! ### programs -/

inductive Op (α : Type) where
  | take (ix : List Nat)
  | mask (m : List Bool)
  | concat (other : Cols α)          -- `np.concatenate([t, other])`
  | concatL (other : Cols α)         -- `np.concatenate([other, t])`
  | sortBy (j : Nat) (key : α → Int)   -- what `np.argsort` orders the field by (value / text rank)
  | predMask (j : Nat) (p : α → Bool)  -- `t[t.field == v]`, `t[t.field != v]`, `t[np.isin(t.field, vs)]`
  | replace (j : Nat) (c : List α)
  | addFields (new : Cols α)

def step {α} (cols : Cols α) : Op α → Option (Cols α)
  | .take ix => take ix cols
  | .mask m => mask m cols
  | .concat o => if wfB o && o.length == cols.length then some (concat cols o) else none
  | .concatL o => if wfB o && o.length == cols.length then some (concat o cols) else none
  | .sortBy j key => sortBy key j cols
  | .predMask j p => predMask p j cols
  | .replace j c => replaceCol j c cols
  | .addFields new => addFields new cols

def run {α} : List (Op α) → Cols α → Option (Cols α)
  | [], cols => some cols
  | op :: ops, cols =>
    match step cols op with
    | some c' => run ops c'
    | none => none

/-! ### the same programs on (number of fields, list of entries) - the Spec-level reading of a table as NumPy
records; `run_refines_rows` (Props) proves the column interpreter above equal to this one -/

def stepRows {α} (st : Nat × List (List α)) : Op α → Option (Nat × List (List α))
  | .take ix => (takeRows ix st.2).map (fun r => (st.1, r))
  | .mask m =>
    if m.length = st.2.length then
      some (st.1, (st.2.zip m).filterMap (fun p => if p.2 then some p.1 else none))
    else none
  | .concat o => if wfB o && o.length == st.1 then some (st.1, st.2 ++ toRows o) else none
  | .concatL o => if wfB o && o.length == st.1 then some (st.1, toRows o ++ st.2) else none
  | .sortBy j key =>
    if j < st.1 then (takeRows (argsort ((st.2.filterMap (fun r => r[j]?)).map key)) st.2).map (fun r => (st.1, r)) else none
  | .predMask j p =>
    if j < st.1 then some (st.1, st.2.filter (fun r => match r[j]? with | some x => p x | none => false)) else none
  | .replace j c =>
    if st.1 == 1 && j == 0 then some (1, c.map (fun x => [x]))      -- the only column: any length is a table
    else if j < st.1 && c.length == st.2.length then some (st.1, replaceRows j c st.2) else none
  | .addFields new =>
    if new.all (fun c => c.length == st.2.length) then
      some (st.1 + new.length, if new.isEmpty then st.2 else addRows st.2 (toRows new))
    else none

def runRows {α} : List (Op α) → Nat × List (List α) → Option (Nat × List (List α))
  | [], st => some st
  | op :: ops, st =>
    match stepRows st op with
    | some st' => runRows ops st'
    | none => none

/-! ### one entry: `table[i]` with a Python / NumPy integer (negative counts from the end, `IndexError` outside
`-n ≤ i < n` on BOTH sides) -/

/-- Python's index normalisation for a sequence of `n` items -/
def pyIndex (n : Nat) (i : Int) : Option Nat :=
  if 0 ≤ i then (if i.toNat < n then some i.toNat else none)
  else if (-i).toNat ≤ n then some (n - (-i).toNat) else none

/-- `table[i]`: the entry made of cell `i` of every column -/
def pickRow {α} (cols : Cols α) (i : Int) : Option (List α) := (pyIndex (nrows cols) i).bind (rowAt cols)

/-- `rows[i]` on the list of entries (Spec) -/
def pickRows {α} (rows : List (List α)) (i : Int) : Option (List α) := (pyIndex rows.length i).bind (fun k => rows[k]?)

/-! ### typed construction (`_implicit_format_conversion`): "converted to the declared type, or raises"

The dispatch itself is tabulated from the running code (`Gen/C19.lean`: field kind × argument form ↦
class of the stored column or `raise`). Here: which column classes *are* the declared type of a field
kind, and the cells known not to conform (the `known` findings `construct:unconverted-*`). -/

/-- column classes that count as "the declared type" of a field kind -/
def allowedClasses : String → List String
  | "str" => ["encragged:base", "encragged:alpha", "encflat:base", "encflat:alpha"]
  | "sid" => ["stringarray", "encflat:base", "encflat:alpha"]
  | "int" => ["ndarray:i", "ndarray:u"]
  | "float" => ["ndarray:f"]
  | "bool" => ["ndarray:b"]
  | "opt" => ["ndarray:b", "ndarray:i", "ndarray:u", "ndarray:f", "ndarray:O"]
  | "li" => ["ragged:b", "ragged:i", "ragged:u", "ragged:f", "ndarray:b", "ndarray:i", "ndarray:u", "ndarray:f"]
  | "dna" => ["encragged:alpha", "encflat:alpha"]
  | "strand" => ["encflat:alpha"]
  | "inner" => ["table"]
  | _ => []

/-- (field kind, argument form) cells where the shipped constructor stores the argument unconverted
(recorded findings; anything else must convert or raise) -/
def knownUnconverted : List (String × String) := [
  ("opt", "list_str"), ("opt", "nd_str"), ("opt", "strand_str"),
  ("li", "list_str"), ("li", "nd_str"), ("li", "series_str"), ("li", "strand_str"), ("li", "encoded_ragged"),
  ("li", "dna_ragged"), ("li", "list_none"), ("li", "string_array"), ("li", "table"), ("li", "list_entries"),
  ("li", "nd_obj_int"), ("li", "series_obj_int"), ("inner", "nd_obj_int"), ("inner", "series_obj_int"),
  ("li", "actg_ragged"), ("li", "actg_flat"), ("inner", "actg_ragged"), ("inner", "actg_flat"),
  ("inner", "nd_int"), ("inner", "nd_float"), ("inner", "nd_bool"), ("inner", "nd_str"), ("inner", "encoded_ragged"),
  ("inner", "dna_ragged"), ("inner", "string_array"), ("inner", "ragged_int"), ("inner", "series_str"), ("inner", "series_int"),
  -- text in its other carriers (bytes, object arrays, NumPy str_ scalars, raw identifier bytes)
  ("opt", "list_bytes"), ("opt", "nd_bytes"), ("opt", "list_npstr"), ("opt", "sid_raw"),
  ("li", "nd_obj_str"), ("li", "list_npstr"),
  ("inner", "nd_bytes"), ("inner", "nd_obj_str"), ("inner", "nd_obj_bytes"), ("inner", "sid_raw"), ("inner", "series_bytes")]

/-- (field kind, argument form, stored class) cells where a numeric field keeps the numeric dtype of the VALUES
instead of the declared one (`np.asanyarray` without a dtype: an `int` field given floats / None / booleans stores
the float64 / bool array, a `float` or `bool` field given integers stores the integer array): neither cast nor
rejected. Recorded findings `construct:dtype-kept-int|float|bool`. -/
def knownDtypeKept : List (String × String × String) := [
  ("int", "list_float", "ndarray:f"), ("int", "list_bool", "ndarray:b"), ("int", "list_none", "ndarray:f"), ("int", "nd_float", "ndarray:f"),
  ("int", "nd_bool", "ndarray:b"), ("float", "list_int", "ndarray:i"), ("float", "list_bool", "ndarray:b"), ("float", "nd_int", "ndarray:i"),
  ("float", "nd_bool", "ndarray:b"), ("float", "nd_obj_int", "ndarray:i"), ("float", "series_obj_int", "ndarray:i"), ("float", "series_int", "ndarray:i"),
  ("bool", "list_int", "ndarray:i"), ("bool", "list_float", "ndarray:f"), ("bool", "list_none", "ndarray:f"), ("bool", "nd_int", "ndarray:i"),
  ("bool", "nd_float", "ndarray:f"), ("bool", "nd_obj_int", "ndarray:i"), ("bool", "series_obj_int", "ndarray:i"), ("bool", "series_int", "ndarray:i")]

def constructCellOK (row : String × String × String) : Bool :=
  row.2.2 == "raise" || (allowedClasses row.1).contains row.2.2 || knownDtypeKept.contains row ||
    knownUnconverted.contains (row.1, row.2.1)

/-- `add_fields` without a type map: the classes a column inferred from each argument form may have
(refusing is acceptable only where the values are no "basic type") -/
def inferAllowed : String → List String
  | "list_int" | "nd_int" => ["ndarray:i"]
  | "list_float" | "nd_float" => ["ndarray:f"]
  | "list_bool" | "nd_bool" => ["ndarray:b"]
  | "list_mixed" => ["ndarray:f", "raise"]
  | "list_str" | "nd_str" | "encoded_ragged" => ["encragged:base", "stringarray"]
  | "string_array" => ["encragged:base", "stringarray", "raise"]
  | "dna_ragged" | "list_dna_rows" => ["encragged:alpha"]
  | "list_list_int" => ["ragged:i", "raise"]
  | _ => []

def inferCellOK (row : String × String) : Bool := (inferAllowed row.1).contains row.2

/-- first cell that neither converts nor raises (handed to the search) -/
def firstBadCell (t : List (String × String × String)) : Option (String × String × String) :=
  t.find? (fun r => !constructCellOK r)


/-! ### `todict` / `from_dict`: nested tables ↔ flat dictionaries with dotted keys -/

abbrev Name := List Nat          -- the bytes of a field name
def dot : Nat := 46

/-- a field value: a column, or a nested table (its fields in order) -/
inductive Tab (α : Type) where
  | col (c : List α)
  | tab (fields : List (Name × Tab α))

/-- the declared types: leaf column or nested table class -/
inductive Schema where
  | leaf
  | node (fields : List (Name × Schema))

mutual
/-- `todict` of the fields of a table: `name` for a column, `name.sub` for every entry of a nested table's dict -/
def toDictFields {α} : List (Name × Tab α) → List (Name × List α)
  | [] => []
  | (n, t) :: rest => toDictVal n t ++ toDictFields rest
def toDictVal {α} (n : Name) : Tab α → List (Name × List α)
  | .col c => [(n, c)]
  | .tab fs => (toDictFields fs).map (fun kv => (n ++ dot :: kv.1, kv.2))
end

/-- `name.split('.', maxsplit=1)` when the key contains a dot -/
def split1 (k : Name) : Option (Name × Name) :=
  if k.contains dot then some (k.takeWhile (· != dot), (k.dropWhile (· != dot)).drop 1) else none

/-- the entries `name.sub ↦ v` of the dict, as the sub-dict `sub ↦ v` (`new_dict[name][sub] = value`) -/
def subDict {α} (n : Name) (d : List (Name × List α)) : List (Name × List α) :=
  d.filterMap (fun kv => match split1 kv.1 with
    | some (n', sub) => if n' = n then some (sub, kv.2) else none
    | none => none)

/-- the keys without a dot: the only ones stored under their own name (`new_dict[name] = value`) -/
def plainDict {α} (d : List (Name × List α)) : List (Name × List α) := d.filter (fun kv => !(kv.1.contains dot))

mutual
/-- `cls.from_dict(d)` for the fields of `cls`: a leaf takes `d[name]` (`AssertionError` = none when absent),
a nested-table field is rebuilt from the sub-dict of its dotted keys -/
def fromDictFields {α} : List (Name × Schema) → List (Name × List α) → Option (List (Name × Tab α))
  | [], _ => some []
  | (n, s) :: rest, d =>
    match fromDictVal n s d, fromDictFields rest d with
    | some v, some vs => some ((n, v) :: vs)
    | _, _ => none
def fromDictVal {α} (n : Name) : Schema → List (Name × List α) → Option (Tab α)
  | .leaf, d => ((plainDict d).lookup n).map Tab.col
  | .node fs, d => (fromDictFields fs (subDict n d)).map Tab.tab
end


/-- the part of a key before its first dot -/
def firstComp (k : Name) : Name := k.takeWhile (· != dot)

def dotFree (n : Name) : Prop := dot ∉ n

mutual
/-- field names are dot-free identifiers, distinct inside every (nested) table -/
def wfFields {α} : List (Name × Tab α) → Prop
  | [] => True
  | (n, t) :: rest => dotFree n ∧ (∀ p ∈ rest, p.1 ≠ n) ∧ wfVal t ∧ wfFields rest
def wfVal {α} : Tab α → Prop
  | .col _ => True
  | .tab fs => wfFields fs
end

mutual
/-- the class of a table: its field names and declared (leaf / nested) types -/
def schemaFields {α} : List (Name × Tab α) → List (Name × Schema)
  | [] => []
  | (n, t) :: rest => (n, schemaVal t) :: schemaFields rest
def schemaVal {α} : Tab α → Schema
  | .col _ => .leaf
  | .tab fs => .node (schemaFields fs)
end

/-- no key of `d` belongs to field `n` -/
def Clean {α} (n : Name) (d : List (Name × List α)) : Prop := ∀ kv ∈ d, firstComp kv.1 ≠ n


end C19
