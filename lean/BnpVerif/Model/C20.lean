/-! C20 — operations do not modify their inputs. A **heap model** of NumPy aliasing, core-only.

NumPy arrays are references `(buffer id, element positions)` into a heap of byte buffers. Every NumPy
step of the anchored routines is tagged the way NumPy documents it:

* `alloc`  — the result lives in a FRESH buffer: `.copy()`, boolean / fancy indexing, `np.where`,
  ufunc results, `np.maximum.accumulate`, `ravel()` of a non-contiguous array, building a ragged array
  from a `RaggedView` (gather), `as_encoded_array(x, other_encoding)`;
* `view`   — the result ALIASES its source: basic slicing, `reshape`/`ravel()` of a contiguous array,
  `as_encoded_array(x)` of an already encoded `x`, attribute access;
* `write`  — in-place assignment through a reference (`x[mask, 0] = "0"`, `x += d`, `x[:, -1] = sep`);
* `tryWrite` — `try: x[...] = v  except ValueError: x = x.copy(); x[...] = v` (read-only buffers).

These tags are ASSUMPTIONS about NumPy/npstructures (the theorems are about the model; whether the real
call aliased is decided at run time by the snapshot registry in `harness/props/c20.py`).
The programs below mirror the in-place write sites of `io/strops.py`, `io/delimited_buffers.py`,
`encodings/vcf_encoding.py`, `arithmetics/intervals.py`, `streams/reductions.py`. -/
namespace C20

abbrev Bytes := List Nat

structure Buf where
  data : Bytes
  writable : Bool
deriving Repr, DecidableEq

abbrev Heap := List Buf

/-- a NumPy array: which buffer, which element positions of it (in order) -/
structure Ref where
  buf : Nat
  idx : List Nat
deriving Repr, DecidableEq

/-- variables are numbered; variable `i` of the initial environment is argument `i` -/
abbrev Env := List (Option Ref)

def Env.get (e : Env) (v : Nat) : Option Ref := (e[v]?).join

def Env.set : Env → Nat → Ref → Env
  | [], 0, r => [some r]
  | [], v + 1, r => none :: Env.set [] v r
  | _ :: e, 0, r => some r :: e
  | x :: e, v + 1, r => x :: Env.set e v r

/-- element values seen through a reference -/
def read (h : Heap) (r : Ref) : Bytes :=
  r.idx.map (fun i => (((h[r.buf]?).map (·.data[i]?)).join).getD 0)

def setAt : Bytes → Nat → Nat → Bytes
  | [], _, _ => []
  | _ :: xs, 0, v => v :: xs
  | x :: xs, i + 1, v => x :: setAt xs i v

def writeData : Bytes → List Nat → Bytes → Bytes
  | d, i :: is, v :: vs => writeData (setAt d i v) is vs
  | d, _, _ => d

def updateBuf : Heap → Nat → (Buf → Buf) → Heap
  | [], _, _ => []
  | b :: h, 0, f => f b :: h
  | b :: h, i + 1, f => b :: updateBuf h i f

/-- write `vals` through `r` (positions of `r` in order) -/
def writeRef (h : Heap) (r : Ref) (vals : Bytes) : Heap :=
  updateBuf h r.buf (fun b => { b with data := writeData b.data r.idx vals })

def readAll (h : Heap) (e : Env) (vs : List Nat) : List Bytes :=
  vs.map (fun v => match e.get v with | some r => read h r | none => [])

inductive Step where
  /-- `dst := f(contents of srcs)` in a fresh writable buffer -/
  | alloc (dst : Nat) (srcs : List Nat) (f : List Bytes → Bytes)
  /-- `dst := src[sel]` sharing the buffer of `src`; `sel` picks positions of `src` (may depend on the contents read) -/
  | view (dst src : Nat) (sel : Bytes → List Nat)
  /-- in-place: the elements seen through `v` become `f (current) (contents of srcs)` -/
  | write (v : Nat) (srcs : List Nat) (f : Bytes → List Bytes → Bytes)
  /-- as `write`, but a read-only buffer is first replaced by a private copy (`except ValueError: x = x.copy()`) -/
  | tryWrite (v : Nat) (srcs : List Nat) (f : Bytes → List Bytes → Bytes)

structure State where
  heap : Heap
  env : Env

def isWritable (h : Heap) (r : Ref) : Bool := ((h[r.buf]?).map (·.writable)).getD false

/-- one step; `none` = the step raised (unbound variable, write to a read-only buffer) -/
def step (s : State) : Step → Option State
  | .alloc dst srcs f =>
    let vals := f (readAll s.heap s.env srcs)
    some { heap := s.heap ++ [{ data := vals, writable := true }],
           env := s.env.set dst { buf := s.heap.length, idx := List.range vals.length } }
  | .view dst src sel =>
    match s.env.get src with
    | none => none
    | some r =>
      let pos := sel (read s.heap r)
      some { s with env := s.env.set dst { buf := r.buf, idx := pos.map (fun p => (r.idx[p]?).getD 0) } }
  | .write v srcs f =>
    match s.env.get v with
    | none => none
    | some r =>
      if isWritable s.heap r then
        some { s with heap := writeRef s.heap r (f (read s.heap r) (readAll s.heap s.env srcs)) }
      else none
  | .tryWrite v srcs f =>
    match s.env.get v with
    | none => none
    | some r =>
      if isWritable s.heap r then
        some { s with heap := writeRef s.heap r (f (read s.heap r) (readAll s.heap s.env srcs)) }
      else
        let cur := read s.heap r
        let r' : Ref := { buf := s.heap.length, idx := List.range cur.length }
        let h' := s.heap ++ [{ data := cur, writable := true }]
        some { heap := writeRef h' r' (f cur (readAll s.heap s.env srcs)), env := s.env.set v r' }

def run : List Step → State → Option State
  | [], s => some s
  | st :: p, s => match step s st with
    | none => none
    | some s' => run p s'

/-- the state in which a call ends: after the last step, or where a step RAISED (unbound name, write to a read-only buffer) -/
def runUntil : List Step → State → State
  | [], s => s
  | st :: p, s => match step s st with
    | none => s
    | some s' => runUntil p s'

/-- static check: every in-place write goes through a variable that is known to live in a buffer
allocated by the routine itself (`fresh`), following aliases created by `view` -/
def safe : List Step → List Nat → Bool
  | [], _ => true
  | .alloc dst _ _ :: p, fresh => safe p (dst :: fresh)
  | .view dst src _ :: p, fresh => safe p (if fresh.contains src then dst :: fresh else fresh.filter (· != dst))
  | .write v _ _ :: p, fresh => fresh.contains v && safe p fresh
  | .tryWrite v _ _ :: p, fresh => fresh.contains v && safe p fresh

/-! ### the anchored routines as heap programs (values abstracted to what the frame needs;
`g`-parameters are the data-dependent new contents) -/

/-- zero the sign characters of rows (`x[is_negative, 0] = "0"`): contents `cur`, row lengths from `lens` -/
def zeroSigns (cur : Bytes) (lens : List Nat) : Bytes :=
  let rec go (cur : Bytes) : List Nat → Bytes
    | [] => cur
    | 0 :: ls => go cur ls
    | (n + 1) :: ls =>
      match cur with
      | [] => []
      | c :: cs => (if c == 45 || c == 43 then 48 else c) :: (cs.take n ++ go (cs.drop n) ls)
  go cur lens

/-- `str_to_int` (io/strops.py): var 0 = text, var 1 = row lengths.
`number_text = as_encoded_array(number_text).copy()`; sign characters zeroed in place; digits → value. -/
def strToInt (value : List Bytes → Bytes) : List Step :=
  [ .alloc 2 [0] (fun a => a.headD []),                          -- .copy()
    .write 2 [1] (fun cur a => zeroSigns cur (a.headD [])),       -- [is_negative, 0] = "0"; [is_positive, 0] = "0"
    .alloc 3 [2, 1, 0] value ]                                    -- as_encoded_array(.., DigitEncoding); (digits*powers).sum*signs

/-- the same routine without the initial `.copy()` (what the property's rationale warns about) -/
def strToIntNoCopy (value : List Bytes → Bytes) : List Step :=
  [ .view 2 0 (fun c => List.range c.length),
    .write 2 [1] (fun cur a => zeroSigns cur (a.headD [])),
    .alloc 3 [2, 1, 0] value ]

/-- `str_to_float` → `_decimal_str_to_float(number_text[~scientific])`: the private routine zeroes `-` and `.`
in place on what the public entry obtained by boolean indexing (a copy). var 0 = text, var 1 = lengths -/
def strToFloat (selRows value : List Bytes → Bytes) (zeroDots : Bytes → List Bytes → Bytes) : List Step :=
  [ .alloc 2 [0, 1] selRows,                                      -- number_text[~scientific]  (boolean index: copy)
    .write 2 [1] (fun cur a => zeroSigns cur (a.headD [])),       -- number_text[is_negative, 0] = "0"
    .write 2 [1] zeroDots,                                        -- number_text[dots] = "0"
    .alloc 3 [2, 1, 0] value ]

/-- the private `_decimal_str_to_float` called directly on the caller's array -/
def decimalStrToFloatDirect (value : List Bytes → Bytes) (zeroDots : Bytes → List Bytes → Bytes) : List Step :=
  [ .view 2 0 (fun c => List.range c.length),
    .write 2 [1] (fun cur a => zeroSigns cur (a.headD [])),
    .write 2 [1] zeroDots,
    .alloc 3 [2, 1, 0] value ]

/-- list-valued column (io/delimited_buffers.py): var 0 = file buffer, var 1 = field starts/lengths.
`get_field_by_number(.., keep_sep=True)` gathers the fields through a `RaggedView2` (fresh buffer), then
`_parse_split_fields` writes the separator at every row end (`text[:, -1] = sep`, copy fallback) and splits. -/
def parseSplitFields (gather value : List Bytes → Bytes) (putSep : Bytes → List Bytes → Bytes) : List Step :=
  [ .alloc 2 [0, 1] gather,                                       -- EncodedRaggedArray(data, RaggedView2(starts, lens))
    .tryWrite 2 [1] putSep,                                       -- text[:, -1] = sep
    .alloc 3 [2, 1] value ]                                       -- split(...); function(int_strings)

/-- `_parse_split_fields` applied directly to a view of the caller's buffer (the gather bypassed) -/
def parseSplitFieldsOnView (sel : Bytes → List Nat) (value : List Bytes → Bytes) (putSep : Bytes → List Bytes → Bytes) : List Step :=
  [ .view 2 0 sel,
    .tryWrite 2 [1] putSep,
    .alloc 3 [2, 1] value ]

/-- genotype text (encodings/vcf_encoding.py), REPAIRED code: `data = genotype_rows.ravel()` (a view of the
caller's ragged data), separators `\t` and `\n` are only LOOKED UP, then fancy indexing. var 0 = genotype text.
This is the public `GenotypeRowEncoding.encode(x)` applied to the caller's own array. -/
def genotypeEncode (pick : List Bytes → Bytes) : List Step :=
  [ .view 1 0 (fun c => List.range c.length),                     -- .ravel() of ragged data: a view
    .alloc 2 [1] pick ]                                           -- data[indices[:, None] + [1, 2, 3]]

/-- the code as shipped: newline → tab written through the raveled view (`replace_inplace(data, "\n", "\t")`) -/
def genotypeEncodeOld (pick : List Bytes → Bytes) : List Step :=
  [ .view 1 0 (fun c => List.range c.length),
    .write 1 [] (fun cur _ => cur.map (fun c => if c == 10 then 9 else c)),
    .alloc 2 [1] pick ]

/-- genotype column of a file chunk: the column text is gathered from the file buffer through the field view
(fresh buffer), then encoded. var 0 = file buffer, var 1 = layout. `old` selects the shipped in-place rewrite:
even that one only wrote the gathered text, never the file buffer. -/
def genotypePreprocess (old : Bool) (gather pick : List Bytes → Bytes) : List Step :=
  [ .alloc 2 [0, 1] gather,                                       -- column text (gather through the field view)
    .view 3 2 (fun c => List.range c.length) ] ++                 -- .ravel(): a view of the gathered text
  (if old then [ .write 3 [] (fun cur _ => cur.map (fun c => if c == 10 then 9 else c)) ] else []) ++
  [ .alloc 4 [3] pick ]

/-- `merge_intervals` (arithmetics/intervals.py): var 0 = start column, var 1 = stop column.
`stops = np.maximum.accumulate(stop)`; `stops += distance`; `new = intervals[start_mask]` (boolean index);
`new.stop = stops[stop_mask]` (rebinding the attribute of the NEW table); `new.stop -= distance`. -/
def mergeIntervals (acc mask pickStart pickStop : List Bytes → Bytes) (addD subD : Bytes → List Bytes → Bytes) : List Step :=
  [ .alloc 2 [1] acc,                                             -- np.maximum.accumulate(intervals.stop)
    .write 2 [] addD,                                             -- stops += distance
    .alloc 3 [0, 2] mask,                                         -- start[1:] > stops[:-1], concatenate
    .alloc 4 [0, 3] pickStart,                                    -- intervals[start_mask].start
    .alloc 5 [2, 3] pickStop,                                     -- stops[stop_mask]  -> new_interval.stop
    .write 5 [] subD ]                                            -- new_interval.stop -= distance

/-- a variant that accumulates into the argument (`np.maximum.accumulate(stop, out=stop)`) -/
def mergeIntervalsInPlace (acc mask pickStart pickStop : List Bytes → Bytes) (addD subD : Bytes → List Bytes → Bytes) : List Step :=
  [ .view 2 1 (fun c => List.range c.length),
    .write 2 [] (fun cur _ => acc [cur]),
    .write 2 [] addD,
    .alloc 3 [0, 2] mask,
    .alloc 4 [0, 3] pickStart,
    .alloc 5 [2, 3] pickStop,
    .write 5 [] subD ]

/-- `bincount_reduce(a, b)` (streams/reductions.py): `a[:b.size] += b; return a` — writes its FIRST ARGUMENT -/
def bincountReduce (add : Bytes → List Bytes → Bytes) : List Step :=
  [ .view 2 0 (fun c => List.range c.length),                     -- bincount_a[:bincount_b.size]: basic slice
    .write 2 [1] add ]

/-- `bnp.bincount(stream)`: `reduce(bincount_reduce, map(np.bincount, chunks))` for two chunks (vars 0, 1):
the per-chunk counts are fresh arrays, the reduction writes only those -/
def bincountStream (count : List Bytes → Bytes) (add : Bytes → List Bytes → Bytes) : List Step :=
  [ .alloc 2 [0] count,
    .alloc 3 [1] count,
    .view 4 2 (fun c => List.range c.length),
    .write 4 [3] add ]

/-- `str_to_int(col[1:4])` on a FRESH row selection of a text column (var 0 = the caller's selection object, var 1 = row
lengths). `.copy()` is `self.__class__(EncodedArray(self.ravel().copy(), ..), self.shape)`; `ravel()` of a view-shaped ragged
array MATERIALISES the caller's object: its rows are gathered into a new buffer and the object is rebound to it (modelled as
`alloc 0 [0]`); only then the private copy is taken and the signs are zeroed there. -/
def strToIntFresh (value : List Bytes → Bytes) : List Step :=
  [ .alloc 0 [0] (fun a => a.headD []),                          -- .ravel(): gather, the selection now owns the gathered data
    .alloc 2 [0] (fun a => a.headD []),                          -- .copy()
    .write 2 [1] (fun cur a => zeroSigns cur (a.headD [])),
    .alloc 3 [2, 1, 0] value ]

/-- variant in which `copy()` hands back the freshly gathered data itself for view-shaped arrays (no second copy) -/
def strToIntFreshAlias (value : List Bytes → Bytes) : List Step :=
  [ .alloc 0 [0] (fun a => a.headD []),
    .view 2 0 (fun c => List.range c.length),
    .write 2 [1] (fun cur a => zeroSigns cur (a.headD [])),
    .alloc 3 [2, 1, 0] value ]

/-- VCF `position` of a lazily read chunk: the column is parsed from the file buffer (fresh array) and `val -= 1` is applied
in place to that fresh array. var 0 = file buffer. -/
def vcfPosition (parse : List Bytes → Bytes) : List Step :=
  [ .alloc 1 [0] parse,                                          -- super()._get_field_by_number(1, int)
    .write 1 [] (fun cur _ => cur.map (· - 1)) ]                 -- val -= 1

/-- variant with a per-buffer memo of parsed columns: var 1 = the memoised column (a buffer that outlives the call);
`val -= 1` then hits the memo, so every further access is one lower -/
def vcfPositionMemo : List Step :=
  [ .view 2 1 (fun c => List.range c.length),                    -- memo hit: the cached array itself
    .write 2 [] (fun cur _ => cur.map (· - 1)) ]

/-- every NumPy / npstructures / bionumpy step the programs above rely on, with the tag the model gives it
(`true` = the result ALIASES its source: `view`; `false` = the result lives in a fresh buffer: `alloc`).
`Gen.C20.stepAliasing` holds the same list as measured with `np.shares_memory` on the running code. -/
def modelTags : List (String × Bool) :=
  [ ("as_encoded_array(x) of an encoded ragged x", true),               -- strToIntNoCopy / decimalStrToFloatDirect: `view 2 0`
    ("EncodedRaggedArray.copy()", false),                               -- strToInt: `alloc 2 [0]`
    ("ragged[bool mask], materialised", false),                         -- strToFloat: `alloc 2 [0, 1] selRows`
    ("gather through RaggedView2 (field text of a file buffer)", false), -- parseSplitFields / genotypePreprocess: `alloc 2 [0, 1] gather`
    ("gather of fields lying back to back (one-column list table, separators kept)", false),   -- parseSplitFields: the same `alloc 2 [0, 1] gather`
    ("ragged.ravel() of contiguous data", true),                        -- genotypeEncode: `view 1 0`
    ("ndarray basic slice a[:n]", true),                                -- bincountReduce: `view 2 0`
    ("np.maximum.accumulate(a)", false),                                -- mergeIntervals: `alloc 2 [1] acc`
    ("table[bool mask] column", false),                                 -- mergeIntervals: `alloc 4 [0, 3] pickStart`
    ("ndarray[bool mask]", false),                                      -- mergeIntervals: `alloc 5 [2, 3] pickStop`
    ("np.bincount(a)", false),                                          -- bincountStream: `alloc 2 [0] count`
    ("fresh ragged selection .copy() after ravel", false),              -- strToIntFresh: `alloc 2 [0]`
    ("str_to_int result", false),
    ("str_to_float result", false),
    ("merge_intervals result start/stop", false),
    ("GenotypeRowEncoding.encode result", false),
    ("VCF position column of a lazily read chunk, two accesses", false) ]  -- vcfPosition: `alloc 1 [0] parse` (no memo)

/-! ### concrete semantics used by the correspondence driver (ASCII decimal rows) -/

/-- value of a row of ASCII digits (after sign zeroing), as the power-array dot product -/
def digitsValue (row : Bytes) : Nat := row.foldl (fun a c => a * 10 + (c - 48)) 0

def splitRows : Bytes → List Nat → List Bytes
  | _, [] => []
  | d, n :: ns => d.take n :: splitRows (d.drop n) ns

/-- running maximum / boundary mask / selection of `merge_intervals` (distance 0), on explicit columns -/
def mergeCols (starts stops : List Nat) : List Nat × List Nat :=
  let acc := (stops.foldl (fun (p : List Nat × Nat) s => let m := max p.2 s; (p.1 ++ [m], m)) ([], 0)).1
  let valid := (starts.drop 1).zip acc |>.map (fun (s, a) => decide (s > a))
  let startMask := true :: valid
  let stopMask := valid ++ [true]
  (((starts.zip startMask).filter (·.2)).map (·.1), ((acc.zip stopMask).filter (·.2)).map (·.1))

end C20
