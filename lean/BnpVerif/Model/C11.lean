import BnpVerif.Base.Opt
import BnpVerif.Model.C10
/-! C11 — streamed evaluation equals in-memory evaluation for every chunking.

Executable model of `bionumpy/streams/{decorators,reductions,groupby_func,chunk_entries}.py`,
`io/parser.py: chunk_lines`, `sequence/kmers.py: count_kmers` (the chunk reduction) and of the
computation graph interpreter of `computation_graph.py`, plus the property-level Spec
(`runs`, `chop`, the in-memory functions applied to `cs.flatten`). A stream is the list of its
chunks; "every chunking of `xs`" is every `cs` with `cs.flatten = xs` and no empty chunk.
Core-only imports. -/
namespace C11
open Base

/-- `cs` is a way of cutting `xs` into consecutive non-empty chunks -/
def IsChunking {α} (xs : List α) (cs : List (List α)) : Prop :=
  cs.flatten = xs

/-! ### `streamable(reduction)(func)`: map `func` over the chunks, then reduce -/

/-- `functools.reduce(f, stream)` without initial value: `TypeError` (none) on an empty stream -/
def reduce1 {β} (f : β → β → β) : List β → Option β
  | [] => none
  | b :: bs => some (bs.foldl f b)

/-! #### mean: `sum_and_n` per chunk = `np.append(np.sum(chunk), chunk.size)`, reduction = Python `sum`
(left fold from the integer 0, `0 + array = array`), result `t[:-1] / t[-1]`. Exact arithmetic over
`Int`: the final division and float re-association are runtime behaviour. -/

def sumAndN (c : List Int) : Int × Nat := (c.sum, c.length)
def pairAdd (a b : Int × Nat) : Int × Nat := (a.1 + b.1, a.2 + b.2)

/-- what a streamed reduction can raise: `sum(...)` / `reduce(...)` of no chunks (`TypeError`), `next(...)` of no
chunks (`StopIteration`), `np.histogram` on edges that decrease (`ValueError`), a quantile of no data (`IndexError`) -/
inductive SErr where
  | emptyStream
  | stop
  | badEdges
  | noData
  | genome
  deriving DecidableEq, Repr

/-- `mean(stream)`: `t = sum(sum_and_n(chunk) …)`, then `t[:-1] / t[-1]`. On a stream without chunks Python's `sum`
returns its start value, the integer `0`, and `t[:-1]` raises `TypeError`; on chunks that are all empty the
pair is `(0, 0)` and the division gives `nan`, as for the empty array in memory -/
def meanStream : List (List Int) → Except SErr (Int × Nat)
  | [] => .error .emptyStream
  | c :: cs => .ok (((c :: cs).map sumAndN).foldl pairAdd (0, 0))

/-! #### mean over axis 0 of 2-d chunks (`sum_and_n(chunk, axis=0)` = column sums and the number of rows), row-wise
functions without reduction (`streamable()`: `_rowmean`, one result per chunk), quantiles from the bincount -/

/-- NumPy's `np.sum(rows, axis=0)` for rows of width `w` (specified external): the sum of every column -/
def colSums (w : Nat) (rows : List (List Int)) : List Int :=
  (List.range w).map (fun j => (rows.map (fun r => r.getD j 0)).sum)

/-- `np.append(np.sum(chunk, axis=0), len(chunk))` -/
def sumAndNCols (w : Nat) (c : List (List Int)) : List Int := colSums w c ++ [(c.length : Int)]

/-- accumulator of Python's `sum(...)` over integer arrays -/
inductive PySumI where
  | zero
  | arr (v : List Int)

def pyAddI : PySumI → List Int → PySumI
  | .zero, v => .arr v
  | .arr a, v => .arr (List.zipWith (· + ·) a v)

def meanColsStream (w : Nat) (cs : List (List (List Int))) : PySumI :=
  (cs.map (sumAndNCols w)).foldl pyAddI PySumI.zero

/-- `streamable()(f)` without reduction: the stream of per-chunk results -/
def mapStream {α β} (f : List α → List β) (cs : List (List α)) : List (List β) := cs.map f

/-- `np.cumsum` -/
def cumsumFrom (acc : Nat) : List Nat → List Nat
  | [] => []
  | x :: xs => (acc + x) :: cumsumFrom (acc + x) xs

/-- `quantile`: `np.searchsorted(np.cumsum(hist), q * total)` for `q = p / d`, in exact arithmetic:
the number of cumulative counts below `q * total` -/
def quantileOf (hist : List Nat) (p d : Nat) : Nat :=
  ((cumsumFrom 0 hist).filter (fun c => decide (c * d < p * hist.sum))).length

/-- `quantile` from a bincount: `cumulative[-1]` raises `IndexError` when the bincount is empty (no data at all) -/
def quantileHist (hist : List Nat) (p d : Nat) : Except SErr Nat :=
  if hist = [] then .error .noData else .ok (quantileOf hist p d)

/-! #### bincount: `np.bincount(chunk, minlength=ml)` per chunk, `reduce(bincount_reduce, …)` -/

/-- one more than the largest value (0 for the empty array) -/
def size (c : List Nat) : Nat := c.foldr (fun x acc => max (x + 1) acc) 0

/-- NumPy's `bincount` (specified external): `max(size, minlength)` counters -/
def bincount (ml : Nat) (c : List Nat) : List Nat :=
  (List.range (max (size c) ml)).map (fun v => c.count v)

/-- `long[:short.size] += short; return long` -/
def addPrefix (long short : List Nat) : List Nat :=
  List.zipWith (· + ·) (long.take short.length) short ++ long.drop short.length

/-- `bincount_reduce`: add the shorter operand into the prefix of the longer one -/
def bincountReduce (a b : List Nat) : List Nat :=
  if a.length ≥ b.length then addPrefix a b else addPrefix b a

def bincountStream (ml : Nat) (cs : List (List Nat)) : Option (List Nat) :=
  reduce1 bincountReduce (cs.map (bincount ml))

/-- `quantile(stream, q)`: `hist = bincount(stream)` (the streamed reduction), then the index -/
def quantileStream (cs : List (List Nat)) (p d : Nat) : Except SErr Nat :=
  match bincountStream 0 cs with
  | none => .error .emptyStream      -- `reduce()` of an empty iterable: `TypeError`
  | some h => quantileHist h p d

/-- `quantile(array, q)` in memory -/
def quantileMem (c : List Nat) (p d : Nat) : Except SErr Nat := quantileHist (bincount 0 c) p d

/-! #### histogram with explicitly given bin edges -/

/-- NumPy's histogram bin rule (specified external): half-open bins, the last one closed -/
def inBin (edges : List Int) (i : Nat) (x : Int) : Bool :=
  match edges[i]?, edges[i + 1]? with
  | some lo, some hi => decide (lo ≤ x) && (decide (x < hi) || (i + 2 == edges.length && decide (x = hi)))
  | _, _ => false

def histogram (edges : List Int) (c : List Int) : List Nat :=
  (List.range (edges.length - 1)).map (fun i => c.countP (inBin edges i))

/-- accumulator of Python's `sum(...)`: starts as the integer 0, becomes an array -/
inductive PySum where
  | zero
  | arr (v : List Nat)

def pyAdd : PySum → List Nat → PySum
  | .zero, v => .arr v
  | .arr a, v => .arr (List.zipWith (· + ·) a v)

/-- `histogram_reduce`: `hist, edge = next(hs); hist = sum(h[0] for h in hs) + hist; return hist, edge` -/
def histogramReduce : List (List Nat × List Int) → Option (List Nat × List Int)
  | [] => none
  | (h, e) :: rest =>
    match rest.foldl (fun acc p => pyAdd acc p.1) PySum.zero with
    | .zero => some (h, e)
    | .arr s => some (List.zipWith (· + ·) s h, e)

/-- `np.histogram` accepts the edges iff they never decrease (equal neighbours are fine; fewer than two edges
give no bins); otherwise `ValueError: bins must increase monotonically` -/
def edgesMono (edges : List Int) : Bool := (edges.zip edges.tail).all (fun p => decide (p.1 ≤ p.2))

/-- `np.histogram(c, bins=edges)` in memory: raises on decreasing edges -/
def histogramMem (edges : List Int) (c : List Int) : Except SErr (List Nat × List Int) :=
  if edgesMono edges then .ok (histogram edges c, edges) else .error .badEdges

/-- `histogram(stream, bins=edges)`: the per-chunk results are a lazy generator, so a stream without chunks raises
`StopIteration` at `next(...)` before any edge is looked at; otherwise the first chunk's `np.histogram` checks the edges -/
def histogramStream (edges : List Int) (cs : List (List Int)) : Except SErr (List Nat × List Int) :=
  if cs = [] then .error .stop
  else if edgesMono edges then
    match histogramReduce (cs.map (fun c => (histogram edges c, edges))) with
    | some r => .ok r
    | none => .error .stop
  else .error .badEdges

/-- `np.linspace(lo, hi, bins+1)` when `bins` divides `hi - lo` (integer edges) -/
def uniformEdges (bins : Nat) (lo : Int) (width : Nat) : List Int :=
  (List.range (bins + 1)).map (fun i => lo + (i * width : Nat))

/-! #### k-mer counts over an alphabet of size `A` (4: packed 2-bit fast path; otherwise `KmerEncoder`): `count_kmers = streamable(sum)(count_encoded ∘ get_kmers)` -/

/-- all length-`k` windows of a row, left to right (row-local: this is C13's subject) -/
def windows (k : Nat) : List Nat → List (List Nat)
  | [] => []
  | x :: xs => if k ≤ (x :: xs).length then (x :: xs).take k :: windows k xs else []

/-- 2-bit packing, first character in the lowest bits -/
def hashLE (A : Nat) (w : List Nat) : Nat := w.foldr (fun c acc => c + A * acc) 0

def kmerHashes (A k : Nat) (rows : List (List Nat)) : List Nat :=
  (rows.map (fun r => (windows k r).map (hashLE A))).flatten

def kmerCounts (A k : Nat) (rows : List (List Nat)) : List Nat :=
  (List.range (A ^ k)).map (fun h => (kmerHashes A k rows).count h)

/-- Python `sum` of `EncodedCounts`: `0 + c₁ + c₂ + …` (`__radd__` with a number, then `__add__`) -/
def countKmersStream (A k : Nat) (cs : List (List (List Nat))) : PySum :=
  (cs.map (kmerCounts A k)).foldl pyAdd PySum.zero

/-- label of hash `h`: characters `c_j = (h / 4^j) % 4` -/
def kmerLabel (A k h : Nat) : List Nat := (List.range k).map (fun j => (h / A ^ j) % A)

/-! ### group-by on change points, joined across chunks -/

section groupby
variable {α κ : Type} [DecidableEq κ]

/-- `np.flatnonzero(keys[1:] != keys[:-1]) + 1` (element-wise comparison of the two shifted slices) -/
def changePoints : List κ → List Nat
  | a :: b :: rest =>
    let r := (changePoints (b :: rest)).map (· + 1)
    if a ≠ b then 1 :: r else r
  | _ => []

/-- `(key(keys[start]), data[start:end]) for start, end in zip(bounds[:-1], bounds[1:])` -/
def sliceGroups [Inhabited α] (key : α → κ) (c : List α) (bounds : List Nat) : List (κ × List α) :=
  (bounds.zip bounds.tail).map (fun se => (key c[se.1]!, (c.drop se.1).take (se.2 - se.1)))

/-- `groupby` on one chunk. `fast` = the key column's type takes the code's shortcut
(`EncodedArray`, or ragged with equal first/last row lengths) when first key = last key:
then the whole chunk is returned as one group. An empty chunk has no groups (repaired code,
5241510: `if len(data) == 0: return grouped_stream(iter(()))`; the shipped code raised, `groupbyChunkOld`). -/
def groupbyChunk [Inhabited α] (fast : Bool) (key : α → κ) (c : List α) : Option (List (κ × List α)) :=
  match c with
  | [] => some []
  | _ =>
    let ks := c.map key
    if fast && decide (ks.head? = ks.getLast?) then some [(key c[0]!, c.drop 0)]
    else some (sliceGroups key c (0 :: changePoints ks ++ [c.length]))

/-- `groupby` as shipped: an empty chunk raised (`keys[-1]` / the `np.diff(changes) > 0` assertion) -/
def groupbyChunkOld [Inhabited α] (fast : Bool) (key : α → κ) (c : List α) : Option (List (κ × List α)) :=
  match c with
  | [] => none
  | _ => groupbyChunk fast key c

/-- `itertools.groupby(chain.from_iterable(groups), key=fst)` + `np.concatenate` of each run
(specified external: consecutive equal keys are merged) -/
def joinGroups : List (κ × List α) → List (κ × List α)
  | [] => []
  | (k, g) :: rest =>
    match joinGroups rest with
    | (k', g') :: r => if k = k' then (k, g ++ g') :: r else (k, g) :: (k', g') :: r
    | [] => [(k, g)]

def groupbyStream [Inhabited α] (fast : Bool) (key : α → κ) (cs : List (List α)) : Option (List (κ × List α)) :=
  match omap (groupbyChunk fast key) cs with
  | some gs => some (joinGroups gs.flatten)
  | none => none

/-- Spec: maximal runs of consecutive entries with equal key -/
def runs (key : α → κ) : List α → List (κ × List α)
  | [] => []
  | a :: as =>
    match runs key as with
    | (k, g) :: rest => if key a = k then (k, a :: g) :: rest else (key a, [a]) :: (k, g) :: rest
    | [] => [(key a, [a])]

/-- equal key values are contiguous ("sorted key"): between two equal keys everything is equal -/
def Contig (ks : List κ) : Prop :=
  ∀ p q r : List κ, ∀ x y : κ, ks = p ++ x :: q ++ y :: r → x ∈ r → y = x

/-- decidable form used by the driver / examples: the run keys are pairwise distinct -/
def contigB (ks : List κ) : Bool := decide ((runs id ks).map (·.1)).Nodup

end groupby

/-! ### re-chunking -/

section rechunk
variable {α : Type}

/-- Spec: cut into pieces of exactly `n`, the last piece has `1..n` entries (fuel = length) -/
def chopGo (n : Nat) : Nat → List α → List (List α)
  | 0, _ => []
  | f + 1, xs => if xs = [] then [] else xs.take n :: chopGo n f (xs.drop n)

def chop (n : Nat) (xs : List α) : List (List α) := chopGo n xs.length xs

/-- `_chunk_entries` as shipped: ONE `if buffer_size >= n` per incoming chunk -/
def chunkEntriesOldGo (n : Nat) (buf : List α) : List (List α) → List (List α)
  | [] => if buf.length > 0 then [buf] else []
  | c :: cs =>
    let t := buf ++ c
    if t.length ≥ n then t.take n :: chunkEntriesOldGo n (t.drop n) cs
    else chunkEntriesOldGo n t cs

def chunkEntriesOld (n : Nat) (cs : List (List α)) : List (List α) := chunkEntriesOldGo n [] cs

/-- the repaired inner loop `while buffer_size >= n: yield total[:n]; total = total[n:]`
(fuel-indexed; `t.length` iterations suffice when `n ≥ 1`) -/
def emit (n : Nat) : Nat → List α → List (List α) × List α
  | 0, t => ([], t)
  | f + 1, t =>
    if t.length ≥ n then
      let r := emit n f (t.drop n)
      (t.take n :: r.1, r.2)
    else ([], t)

def chunkEntriesGo (n : Nat) (buf : List α) : List (List α) → List (List α)
  | [] => if buf.length > 0 then [buf] else []
  | c :: cs =>
    let r := emit n (buf ++ c).length (buf ++ c)
    r.1 ++ chunkEntriesGo n r.2 cs

/-- `chunk_entries` (repaired): `ValueError` (none) for `n < 1` -/
def chunkEntries (n : Nat) (cs : List (List α)) : Option (List (List α)) :=
  if n = 0 then none else some (chunkEntriesGo n [] cs)

/-- `chunk_lines`, inner `while len(chunk) >= remaining` (fuel-indexed). State: the buffered entries
`cur` (`remaining = n - cur.length`). -/
def linesInner (n : Nat) : Nat → List α → List α → List (List α) × List α
  | 0, cur, chunk => ([], cur ++ chunk)
  | f + 1, cur, chunk =>
    let remaining := n - cur.length
    if chunk.length ≥ remaining then
      let r := linesInner n f [] (chunk.drop remaining)
      ((cur ++ chunk.take remaining) :: r.1, r.2)
    else ([], cur ++ chunk)

def chunkLinesGo (n : Nat) (finalAlways : Bool) (cur : List α) : List (List α) → List (List α)
  | [] => if finalAlways || decide (cur.length > 0) then [cur] else []
  | c :: cs =>
    let r := linesInner n (c.length + 1) cur c
    r.1 ++ chunkLinesGo n finalAlways r.2 cs

/-- `chunk_lines` as shipped: the final `yield np.concatenate(cur_buffers)` is unconditional
(an empty trailing chunk when `n` divides the total; `ValueError` (none) on an empty stream) -/
def chunkLinesOld (n : Nat) (cs : List (List α)) : Option (List (List α)) :=
  if n = 0 then none else
  match cs with
  | [] => none
  | _ => some (chunkLinesGo n true [] cs)

/-- `chunk_lines` repaired: the final chunk is yielded only when something is buffered -/
def chunkLines (n : Nat) (cs : List (List α)) : Option (List (List α)) :=
  if n = 0 then none else some (chunkLinesGo n false [] cs)

end rechunk

/-! ### computation graph (`computation_graph.py`): nodes pull buffer `i` from their inputs in lock step

A graph is a list of nodes in construction order (a node's arguments were constructed before it:
indices smaller than its own). Buffers are `List Int`; node functions are element-wise binary
operations (what NumPy ufuncs on nodes create) or a constant operand. -/

inductive Fn where
  | add | sub | mul                  -- element-wise ufuncs (`node + node`, `node * 2`, …)
  | gt                               -- element-wise comparison `node > x` (1 / 0)
  | sel                              -- `node[mask_node]`: `ComputationNode.__getitem__` with a boolean node (not length-preserving)
  | sum                              -- `np.sum(buffer)`: the inner node of `np.sum(node)`
  | sumN                             -- `sum_and_n(buffer)`: the inner node of `np.mean(node)`
  | hist (edges : List Int)          -- `np.histogram(buffer, bins=edges)[0]`: inner node of `np.histogram(node, edges)`
  deriving DecidableEq, Repr

def Fn.elementwise : Fn → Bool
  | .add | .sub | .mul | .gt => true
  | _ => false

def Fn.app : Fn → Int → Int → Int
  | .add, a, b => a + b
  | .sub, a, b => a - b
  | .mul, a, b => a * b
  | .gt, a, b => if a > b then 1 else 0
  | _, a, _ => a

inductive Arg where
  | node (i : Nat)
  | const (c : Int)
  deriving Repr

inductive NodeDef where
  | stream (chunks : List (List Int))          -- `StreamNode(iter(chunks))`
  | comp (f : Fn) (a b : Arg)                  -- `ComputationNode(ufunc, (a, b))`
  deriving Repr

/-- run-time state of a node: `_buffer_index` (−1 encoded as `none`), `_current_buffer`,
and for stream nodes what is left of the iterator -/
structure NodeState where
  idx : Option Nat
  cur : List Int
  rest : List (List Int)
  pulls : Nat            -- how many times `next(stream)` was called (stream nodes)
  deriving Repr

inductive GErr where
  | stop          -- StopIteration
  | assertion     -- `assert self._buffer_index in (i, i-1)`
  | bad           -- ill-formed graph
  deriving DecidableEq, Repr

abbrev GState := List NodeState

/-- `assert self._buffer_index in (i, i - 1)` -/
def idxOk (idx : Option Nat) (i : Nat) : Bool :=
  match idx with
  | none => i == 0
  | some j => j == i || j + 1 == i

/-- does the node have to advance (`i > self._buffer_index`) -/
def needsAdvance (idx : Option Nat) (i : Nat) : Bool :=
  match idx with
  | none => true
  | some j => decide (j < i)

def setAt {β} (l : List β) (n : Nat) (v : β) : List β := l.set n v

/-- element-wise ufunc on two operands with NumPy broadcasting of a scalar constant -/
def applyEw (f : Fn) (a b : List Int ⊕ Int) : List Int :=
  match a, b with
  | .inl x, .inl y => List.zipWith f.app x y
  | .inl x, .inr c => x.map (fun v => f.app v c)
  | .inr c, .inl y => y.map (fun v => f.app c v)
  | .inr c, .inr d => [f.app c d]

/-- the per-buffer functions whose results a `ReductionNode` folds: one small array per buffer -/
def applyRed (f : Fn) (x : List Int) : List Int :=
  match f with
  | .sum => [x.sum]
  | .sumN => [x.sum, (x.length : Int)]
  | .hist e => (histogram e x).map Int.ofNat
  | _ => x

/-- boolean-mask indexing of one buffer by another (NumPy external): the entries whose mask entry is non-zero -/
def applySel (x m : List Int) : List Int :=
  (x.zip m).filterMap (fun p => if p.2 ≠ 0 then some p.1 else none)

/-- the function of a `ComputationNode` applied to its evaluated arguments (unary reductions ignore
the second operand slot, which the model fills with a constant) -/
def applyFn (f : Fn) (a b : List Int ⊕ Int) : List Int :=
  if f.elementwise then applyEw f a b
  else if f = Fn.sel then
    match a, b with
    | .inl x, .inl m => applySel x m
    | .inl x, .inr c => if c ≠ 0 then x else []
    | .inr c, _ => [c]
  else match a with
    | .inl x => applyRed f x
    | .inr c => applyRed f [c]

/-- evaluating one argument of a `ComputationNode`: constants are passed through, node arguments
are asked for their buffer (`rec` = `_get_buffer(i)` of the argument) -/
def evalArg (rec : GState → Nat → Except GErr (GState × List Int)) (n : Nat) (st : GState) :
    Arg → Except GErr (GState × (List Int ⊕ Int))
  | .const c => .ok (st, .inr c)
  | .node m =>
    if m < n then
      match rec st m with
      | .ok (st', v) => .ok (st', .inl v)
      | .error e => .error e
    else .error .bad

/-- `node._get_buffer(i)`; `fuel` bounds the recursion depth (node index + 1 suffices) -/
def getBuffer (g : List NodeDef) : Nat → GState → Nat → Nat → Except GErr (GState × List Int)
  | 0, _, _, _ => .error .bad
  | fuel + 1, st, n, i =>
    match g[n]?, st[n]? with
    | some (.stream _), some s =>
      if !idxOk s.idx i then .error .assertion
      else if needsAdvance s.idx i then
        match s.rest with
        | [] => .error .stop
        | b :: bs => .ok (st.set n { idx := some i, cur := b, rest := bs, pulls := s.pulls + 1 }, b)
      else .ok (st, s.cur)
    | some (.comp f a b), some s =>
      if !idxOk s.idx i then .error .assertion
      else if !needsAdvance s.idx i then .ok (st, s.cur)
      else
        match evalArg (fun st m => getBuffer g fuel st m i) n st a with
        | .error e => .error e
        | .ok (st1, va) =>
          match evalArg (fun st m => getBuffer g fuel st m i) n st1 b with
          | .error e => .error e
          | .ok (st2, vb) =>
            match st2[n]? with
            | some s2 => .ok (st2.set n { s2 with idx := some i, cur := applyFn f va vb }, applyFn f va vb)
            | none => .error .bad
    | _, _ => .error .bad

/-- constructing the nodes in order: every constructor calls `self._get_buffer(0)` -/
def construct (g : List NodeDef) : Nat → GState → Except GErr GState
  | 0, st => .ok st
  | k + 1, st =>
    match construct g k st with
    | .error e => .error e
    | .ok st' =>
      match getBuffer g (k + 1) st' k 0 with
      | .ok (st'', _) => .ok st''
      | .error e => .error e

def initState (g : List NodeDef) : GState :=
  g.map (fun d => match d with
    | .stream cs => { idx := none, cur := [], rest := cs, pulls := 0 }
    | .comp _ _ _ => { idx := none, cur := [], rest := [], pulls := 0 })

/-- `get_iter`: `for i in count(): try: yield self._get_buffer(i) except StopIteration: break` -/
def getIter (g : List NodeDef) (root : Nat) : Nat → Nat → GState → Except GErr (List (List Int) × GState)
  | 0, _, st => .ok ([], st)
  | fuel + 1, i, st =>
    match getBuffer g (root + 1) st root i with
    | .error .stop => .ok ([], st)
    | .error e => .error e
    | .ok (st', v) =>
      match getIter g root fuel (i + 1) st' with
      | .ok (vs, st'') => .ok (v :: vs, st'')
      | .error e => .error e

/-- `ComputationNode.compute()`: `np.concatenate(list(self.get_iter()))` after constructing the graph -/
def computeGraph (g : List NodeDef) (root : Nat) (fuel : Nat) : Except GErr (List Int × GState) :=
  match construct g g.length (initState g) with
  | .error e => .error e
  | .ok st =>
    match getIter g root fuel 0 st with
    | .ok (vs, st') => .ok (vs.flatten, st')
    | .error e => .error e

/-- `_get_buffer(i)` of several roots one after the other (the argument evaluation of a `JoinNode` /
of the node built by `ReductionNode.join`) -/
def getBuffers (g : List NodeDef) : List Nat → GState → Nat → Except GErr (GState × List (List Int))
  | [], st, _ => .ok (st, [])
  | r :: rs, st, i =>
    match getBuffer g (r + 1) st r i with
    | .error e => .error e
    | .ok (st', v) =>
      match getBuffers g rs st' i with
      | .error e => .error e
      | .ok (st'', vs) => .ok (st'', v :: vs)

/-- `get_iter` of the joining node: one tuple of buffers per index until `StopIteration` -/
def getIterMany (g : List NodeDef) (roots : List Nat) : Nat → Nat → GState → Except GErr (List (List (List Int)) × GState)
  | 0, _, st => .ok ([], st)
  | fuel + 1, i, st =>
    match getBuffers g roots st i with
    | .error .stop => .ok ([], st)
    | .error e => .error e
    | .ok (st', v) =>
      match getIterMany g roots fuel (i + 1) st' with
      | .ok (vs, st'') => .ok (v :: vs, st'')
      | .error e => .error e

/-- `compute([a, b, …])` = `JoinNode.compute()`: every column concatenated over the buffer index.
(The joining node's own buffer index is only ever advanced by its own iterator and is not modelled.) -/
def computeMany (g : List NodeDef) (roots : List Nat) (fuel : Nat) : Except GErr (List (List Int) × GState) :=
  match construct g g.length (initState g) with
  | .error e => .error e
  | .ok st =>
    match getIterMany g roots fuel 0 st with
    | .ok (rows, st') => .ok ((List.range roots.length).map (fun j => (rows.map (fun r => r.getD j [])).flatten), st')
    | .error e => .error e

/-- the binary function of a (joined) `ReductionNode` on tuples of per-buffer results: `operator.add`,
`mean_reduction`, `_add_histograms` all add position-wise -/
def addTuples (a b : List (List Int)) : List (List Int) := List.zipWith (List.zipWith (· + ·)) a b

/-- `compute((r₁, r₂, …))` of reduction nodes = `reduce(binary_func, joined.get_iter())`, before the
post-processing (`sum / n` for a mean): `none` inside `ok` is `reduce` of an empty sequence -/
def computeReduced (g : List NodeDef) (roots : List Nat) (fuel : Nat) : Except GErr (Option (List (List Int)) × GState) :=
  match construct g g.length (initState g) with
  | .error e => .error e
  | .ok st =>
    match getIterMany g roots fuel 0 st with
    | .ok (rows, st') => .ok (reduce1 addTuples rows, st')
    | .error e => .error e

/-- value of one argument, given the values of the nodes constructed earlier -/
def argValWith (rec : Nat → Option (List Int)) (n : Nat) : Arg → Option (List Int ⊕ Int)
  | .const c => some (.inr c)
  | .node m => if m < n then (rec m).map .inl else none

/-- value of node `n` on the `i`-th buffers of the streams (what `_get_buffer(i)` must return) -/
def valAt (g : List NodeDef) (i : Nat) : Nat → Nat → Option (List Int)
  | 0, _ => none
  | fuel + 1, n =>
    match g[n]? with
    | some (.stream cs) => cs[i]?
    | some (.comp f a b) =>
      (argValWith (valAt g i fuel) n a).bind (fun va =>
        (argValWith (valAt g i fuel) n b).map (fun vb => applyFn f va vb))
    | none => none

/-- `StreamNode.compute` as shipped: `np.concatenate(list(self._stream))`, i.e. what is LEFT of the
iterator after the constructor pulled buffer 0 (`ValueError` = none when nothing is left).
Repaired code uses `get_iter` like every other node (`computeGraph`). -/
def streamComputeOld (chunks : List (List Int)) : Option (List Int) :=
  match chunks with
  | [] => none
  | _ :: rest => if rest = [] then none else some rest.flatten

/-- Spec: the same expression evaluated in memory on the concatenated streams -/
def evalMem (g : List NodeDef) : Nat → Nat → Option (List Int)
  | 0, _ => none
  | fuel + 1, n =>
    match g[n]? with
    | some (.stream cs) => some cs.flatten
    | some (.comp f a b) =>
      (argValWith (evalMem g fuel) n a).bind (fun va =>
        (argValWith (evalMem g fuel) n b).map (fun vb => applyFn f va vb))
    | none => none

/-! ### stream=True genome pipelines: one buffer per chromosome

`Genome.get_intervals(stream of chunks)` = `iter_chromosomes(groupby(stream, "chromosome"))`: the chunked,
chromosome-sorted entries are grouped (groups cut by a chunk boundary are joined), then the genome
order is walked handing out each chromosome's group or an empty table. `get_pileup()` / `get_mask()`
are `ComputationNode`s over (entries buffer, chromosome size buffer); `compute` concatenates the
per-chromosome results (lock step: the graph theorems). Entries are `C10.Iv` (chromosome index,
start, stop). -/

/-- `GenomeContext._iter_chromosomes`: `rem` chromosomes left, `c` the current one, `seen` the ones
done, `groups` = the pending group (already pulled) followed by what the group stream still holds.
`none` = `GenomeError` (sort order discrepancy / data left over). -/
def iterChrom : Nat → Nat → List Nat → List (Nat × List C10.Iv) → Option (List (List C10.Iv))
  | 0, _, _, groups =>
    match groups with
    | _ :: _ :: _ => none          -- `next(grouped, None) is not None`
    | _ => some []
  | rem + 1, c, seen, groups =>
    match groups with
    | (name, grp) :: rest =>
      if name = c then
        match rest with
        | (n2, _) :: _ =>
          if seen.contains n2 then none
          else (iterChrom rem (c + 1) (c :: seen) rest).map (grp :: ·)
        | [] => (iterChrom rem (c + 1) (c :: seen) rest).map (grp :: ·)
      else (iterChrom rem (c + 1) (c :: seen) groups).map ([] :: ·)
    | [] => (iterChrom rem (c + 1) (c :: seen) []).map ([] :: ·)

/-- the per-chromosome buffers of a streamed interval set (chromosome column is an identifier
column: no first=last shortcut in `groupby`) -/
def chromBuffers (nchrom : Nat) (cs : List (List C10.Iv)) : Option (List (List C10.Iv)) :=
  match groupbyStream false (fun iv : C10.Iv => iv.c) cs with
  | none => none
  | some groups => iterChrom nchrom 0 [] groups

/-- single-contig `get_pileup(entries, size)` as a dense array (NumPy / npstructures external) -/
def pileup1 (size : Nat) (l : List C10.Iv) : List Nat :=
  (List.range size).map (fun p => (l.filter (fun iv => decide (iv.s ≤ p) && decide (p < iv.e))).length)

def mask1 (size : Nat) (l : List C10.Iv) : List Nat := (pileup1 size l).map (fun n => if n = 0 then 0 else 1)

/-- `compute(streamed.get_pileup())`: per-chromosome pile-ups concatenated in genome order -/
def streamPileup (sizes : List Nat) (cs : List (List C10.Iv)) : Option (List Nat) :=
  (chromBuffers sizes.length cs).map (fun bufs => (List.zipWith pileup1 sizes bufs).flatten)

def streamMask (sizes : List Nat) (cs : List (List C10.Iv)) : Option (List Nat) :=
  (chromBuffers sizes.length cs).map (fun bufs => (List.zipWith mask1 sizes bufs).flatten)

/-- `compute(np.sum(streamed.get_pileup()))`: the per-chromosome sums added up -/
def streamPileupSum (sizes : List Nat) (cs : List (List C10.Iv)) : Option Nat :=
  (chromBuffers sizes.length cs).map (fun bufs => ((List.zipWith pileup1 sizes bufs).map List.sum).sum)

/-- `compute(streamed.get_pileup())` seen as the dict chromosome -> array (`pileup_data`): the per-chromosome
pile-ups in genome order -/
def streamPileupData (sizes : List Nat) (cs : List (List C10.Iv)) : Option (List (List Nat)) :=
  (chromBuffers sizes.length cs).map (fun bufs => List.zipWith pileup1 sizes bufs)

/-- `compute(np.histogram(streamed.get_pileup(), bins=edges))` (`pileup_hist`): one histogram per chromosome,
added up by `histogram_reduce`; `.genome` when the entries do not follow the genome, `.stop` for a genome
without chromosomes -/
def streamPileupHist (edges : List Int) (sizes : List Nat) (cs : List (List C10.Iv)) : Except SErr (List Nat × List Int) :=
  match chromBuffers sizes.length cs with
  | none => .error .genome
  | some bufs =>
    match histogramReduce ((List.zipWith pileup1 sizes bufs).map (fun d => (histogram edges (d.map Int.ofNat), edges))) with
    | some r => .ok r
    | none => .error .stop

/-- `compute(streamed.get_location('start').get_windows(flank= | window_size=))`: per chromosome buffer, the window
around every entry's start (`C10.flanks`: `flank=k` gives k before and k + 1 from the position on, `window_size=w`
gives w / 2 before and w / 2 + w % 2 from it on - for even AND odd w), clipped to the chromosome (`C10.windowG`);
the buffers' windows concatenated in genome order -/
def streamWindows (sizes : List Nat) (flank : Option Nat) (wsize : Nat) (cs : List (List C10.Iv)) : Option (List C10.IvZ) :=
  (chromBuffers sizes.length cs).map (fun bufs =>
    (bufs.map (fun b => b.map (fun iv : C10.Iv => C10.windowG sizes (C10.flanks flank wsize) iv.c iv.s true))).flatten)

/-- `compute(streamed_pileup[peaks])`: per chromosome, the slices of that chromosome's array under
that chromosome's peaks (`extract_intervals` over `peaks.as_stream()`), concatenated in genome order;
with `stranded`, every row whose strand is not `+` (so `-` and `.`) is reversed -/
def valuesRows (stranded : Bool) (arrays : List (List Nat)) (peakBufs : List (List C10.Iv)) : List (List Nat) :=
  (List.zipWith (fun d pk => pk.map (fun iv : C10.Iv =>
      let row := (d.drop iv.s).take (iv.e - iv.s)
      if stranded && !iv.fwd then row.reverse else row)) arrays peakBufs).flatten

def streamValues (stranded : Bool) (sizes : List Nat) (cs peakChunks : List (List C10.Iv)) : Option (List (List Nat)) :=
  match chromBuffers sizes.length cs, chromBuffers sizes.length peakChunks with
  | some bufs, some pk => some (valuesRows stranded (List.zipWith pileup1 sizes bufs) pk)
  | _, _ => none

end C11
