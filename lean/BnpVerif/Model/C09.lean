import BnpVerif.Base.RleC08
/-! C09 — genomic arrays as views of dense per-base arrays. Executable models mirroring
`GenomicRunLengthArray.from_bedgraph` / `from_intervals` (array values) / `to_array`
(`bionumpy/arithmetics/intervals.py`), `GenomicArray.from_bedgraph`, `GenomicArrayGlobal.to_dict`,
`get_data`, `_get_intervals_from_data`, `sum`, ufunc forwarding (`genomic_data/genomic_track.py`), the
global coordinate shift (`global_offset.py`), and the *specification* of the external npstructures engine
(`sliceRle`, `mapRle`, `zipRle`, `joinRuns`, `sumRle`, `histRle`). Core-only imports. -/
namespace C09
open Base.Rle

/-- bedGraph record on one coordinate axis: start, stop, value -/
abbrev Rec (V : Type) := Nat × Nat × V

/-! ### Specification: the dense array a list of records describes -/

def valueAt {V : Type} (zero : V) (bg : List (Rec V)) (p : Nat) : V :=
  match bg.find? (fun r => decide (r.1 ≤ p) && decide (p < r.2.1)) with
  | some r => r.2.2
  | none => zero

def specDense {V : Type} (zero : V) (bg : List (Rec V)) (size : Nat) : List V :=
  (List.range size).map (valueAt zero bg)

/-- dense array ↔ list of records: expansion of contiguous records starting at position `c` -/
def expand {V : Type} (c : Nat) : List (Rec V) → List V
  | [] => []
  | (_, e, v) :: rest => List.replicate (e - c) v ++ expand e rest

/-! ### `from_bedgraph` -/

/-- starts and values after `np.insert(start, missing_idx+1, stop[missing_idx])` / `np.insert(value, …, 0)`:
a zero run is inserted after every record that is not followed immediately by the next one -/
def gapPairs {V : Type} (zero : V) : List (Rec V) → List (Nat × V)
  | [] => []
  | [r] => [(r.1, r.2.2)]
  | r :: r' :: rest =>
    if r'.1 != r.2.1 then (r.1, r.2.2) :: (r.2.1, zero) :: gapPairs zero (r' :: rest)
    else (r.1, r.2.2) :: gapPairs zero (r' :: rest)

def lastStop {V : Type} (bg : List (Rec V)) : Nat := (bg.getLast?.map (·.2.1)).getD 0

/-- `GenomicRunLengthArray.from_bedgraph(bedgraph, size)` (`size = none` is Python `None`) -/
def fromBedgraph {V : Type} (zero : V) (bg : List (Rec V)) (size : Option Nat) : Rle V :=
  match bg with
  | [] => ⟨[0, size.getD 0], [zero]⟩
  | _ :: _ =>
    let pairs := gapPairs zero bg
    let start := pairs.map (·.1)
    let value := pairs.map (·.2)
    let last := lastStop bg
    let ev := if size = none ∨ size = some last then (start ++ [last], value)
              else (start ++ [last, size.getD 0], value ++ [zero])
    if ev.1.head? != some 0 then ⟨0 :: ev.1, zero :: ev.2⟩ else ⟨ev.1, ev.2⟩

/-! ### `from_intervals` with an array of values (repaired code) -/

/-- `interleave(full(default), values)`, `+ [default]` unless the last interval ends at `size`, drop the first when
the first interval starts at 0, truncate to `len(events) - 1` -/
def fromIntervalsArr {V : Type} (S E : List Nat) (size : Nat) (vals : List V) (dflt : V) : Rle V :=
  let pre : List Nat := if S.head? = some 0 then [] else [0]
  let post : List Nat := if E.getLast? = some size then [] else [size]
  let events := pre ++ interleave S E ++ post
  let v0 := interleave (vals.map (fun _ => dflt)) vals
  let v1 := if E.getLast? = some size then v0 else v0 ++ [dflt]
  let v2 := if S.head? = some 0 then v1.tail else v1
  ⟨events, v2.take (events.length - 1)⟩

/-- the rule of fix 6347e85 before fix bfb8d84: the interleaved defaults were created with the dtype of `values`
(`cast` = conversion to that dtype, e.g. truncation of 0.5 to 0), while the appended trailing default was not.
`V` is the common result type `np.result_type(values, default_value)` in which the repaired code works. -/
def fromIntervalsArrOld {V : Type} (cast : V → V) (S E : List Nat) (size : Nat) (vals : List V) (dflt : V) : Rle V :=
  let pre : List Nat := if S.head? = some 0 then [] else [0]
  let post : List Nat := if E.getLast? = some size then [] else [size]
  let events := pre ++ interleave S E ++ post
  let v0 := interleave (vals.map (fun _ => cast dflt)) (vals.map cast)
  let v1 := if E.getLast? = some size then v0 else v0 ++ [dflt]
  let v2 := if S.head? = some 0 then v1.tail else v1
  ⟨events, v2.take (events.length - 1)⟩

/-! ### specification of the npstructures run-length engine -/

/-- the runs of a run-length array as records -/
def runRecs {V : Type} : List Nat → List V → List (Rec V)
  | e0 :: e1 :: es, v :: vs => (e0, e1, v) :: runRecs (e1 :: es) vs
  | _, _ => []

/-- runs clipped to `[a, b)` and shifted to start at 0 (`rle[a:b]`: `searchsorted` on the events, first event
set to 0, last to `b - a`); runs that do not meet the window are dropped -/
def clipRecs {V : Type} (a b : Nat) : List (Rec V) → List (Rec V)
  | [] => []
  | (s, e, v) :: rest =>
    if max s a < min e b then (max s a - a, min e b - a, v) :: clipRecs a b rest else clipRecs a b rest

def ofRecs {V : Type} (recs : List (Rec V)) : Rle V := ⟨0 :: recs.map (·.2.1), recs.map (·.2.2)⟩

/-- `rle[a:b]` -/
def sliceRle {V : Type} (r : Rle V) (a b : Nat) : Rle V :=
  if a ≥ b then ⟨[0], []⟩ else ofRecs (clipRecs a b (runRecs r.events r.values))

/-- unary ufunc / ufunc with a scalar: same events, function applied to the values -/
def mapRle {V W : Type} (f : V → W) (r : Rle V) : Rle W := ⟨r.events, r.values.map f⟩

/-- two run lists (as `(end, value)` pairs from a common start) merged on the union of their events -/
def zipRuns {α β γ : Type} (f : α → β → γ) : List (Nat × α) → List (Nat × β) → List (Nat × γ)
  | (ea, x) :: as, (eb, y) :: bs =>
    if ea < eb then (ea, f x y) :: zipRuns f as ((eb, y) :: bs)
    else if eb < ea then (eb, f x y) :: zipRuns f ((ea, x) :: as) bs
    else (ea, f x y) :: zipRuns f as bs
  | _, _ => []
termination_by as bs => as.length + bs.length

/-- `join_runs`: successive runs with equal values are joined -/
def joinPairs {V : Type} [BEq V] : List (Nat × V) → List (Nat × V)
  | [] => []
  | [p] => [p]
  | (e, v) :: (e', v') :: rest => if v == v' then joinPairs ((e', v') :: rest) else (e, v) :: joinPairs ((e', v') :: rest)

def pairsOf {V : Type} (r : Rle V) : List (Nat × V) := r.events.tail.zip r.values
def ofPairs {V : Type} (ps : List (Nat × V)) : Rle V := ⟨0 :: ps.map (·.1), ps.map (·.2)⟩

/-- binary ufunc on two run-length arrays of the same length (`_apply_binary_func`) -/
def zipRle {α β γ : Type} [BEq γ] (f : α → β → γ) (a : Rle α) (b : Rle β) : Rle γ :=
  ofPairs (joinPairs (zipRuns f (pairsOf a) (pairsOf b)))

/-- `np.sum(np.diff(events) * values)` -/
def sumRle (r : Rle Int) : Int :=
  ((runRecs r.events r.values).map (fun x => ((x.2.1 : Int) - (x.1 : Int)) * x.2.2)).sum

def inBin (bins : List Int) (j : Nat) (v : Int) : Bool :=
  match bins[j]?, bins[j + 1]? with
  | some lo, some hi => decide (lo ≤ v) && (decide (v < hi) || (j + 2 == bins.length && v == hi))
  | _, _ => false

/-- `np.histogram(values, bins, weights=run lengths)` for explicit integer bin edges -/
def histRle (r : Rle Int) (bins : List Int) : List Int :=
  (List.range (bins.length - 1)).map (fun j =>
    (((runRecs r.events r.values).filter (fun x => inBin bins j x.2.2)).map (fun x => (x.2.1 : Int) - (x.1 : Int))).sum)

def specHist (d : List Int) (bins : List Int) : List Int :=
  (List.range (bins.length - 1)).map (fun j => ((d.filter (inBin bins j)).length : Int))

/-! ### `_get_intervals_from_data` -/

/-- non-boolean data: a bedGraph of the runs -/
def dataRecs {V : Type} (r : Rle V) : List (Rec V) := runRecs r.events r.values

/-- boolean data: the intervals of the runs whose value is `True` -/
def dataIntervals (r : Rle Bool) : List (Nat × Nat) :=
  ((runRecs r.events r.values).filter (·.2.2)).map (fun x => (x.1, x.2.1))

/-! ### machine-word views used by `to_array` -/

def enc64 (v : Int) : Nat := (v % (2 ^ 64 : Int)).toNat
def dec64 (n : Nat) : Int := if n < 2 ^ 63 then (n : Int) else (n : Int) - (2 ^ 64 : Int)

/-- `to_array` of an int64 run-length array: xor-accumulate on the 64-bit words -/
def toArrayInt (r : Rle Int) : List Int := ((mapRle enc64 r).toArray Nat.xor 0).map dec64

def toArrayBool (r : Rle Bool) : List Bool := r.toArray xor false

/-! ### genome: chromosomes laid end to end -/

/-- `np.insert(np.cumsum(sizes), 0, 0)` -/
def offsFrom : Nat → List Nat → List Nat
  | acc, [] => [acc]
  | acc, s :: ss => acc :: offsFrom (acc + s) ss

def offsets (sizes : List Nat) : List Nat := offsFrom 0 sizes

/-- `from_local_interval`: a record on chromosome `c` is shifted by the chromosome's offset -/
def toGlobal {V : Type} (sizes : List Nat) (recs : List (Nat × Rec V)) : List (Rec V) :=
  recs.map (fun x => ((offsets sizes).getD x.1 0 + x.2.1, (offsets sizes).getD x.1 0 + x.2.2.1, x.2.2.2))

/-- `to_dict` / `get_data`: the slice `[offset, offset + size)` of every chromosome -/
def chromSlices {V : Type} (sizes : List Nat) (r : Rle V) : List (Rle V) :=
  (List.range sizes.length).map (fun i => sliceRle r ((offsets sizes).getD i 0) ((offsets sizes).getD i 0 + sizes.getD i 0))

end C09

namespace C09
open Base.Rle

/-! ### `join_runs` with an arbitrary equality test (IEEE `==` for float arrays is not Lean's `=`) -/

def joinPairsBy {V : Type} (eq : V → V → Bool) : List (Nat × V) → List (Nat × V)
  | [] => []
  | [p] => [p]
  | (e, v) :: (e', v') :: rest =>
    if eq v v' then joinPairsBy eq ((e', v') :: rest) else (e, v) :: joinPairsBy eq ((e', v') :: rest)

def zipRleBy {α β γ : Type} (eq : γ → γ → Bool) (f : α → β → γ) (a : Rle α) (b : Rle β) : Rle γ :=
  ofPairs (joinPairsBy eq (zipRuns f (pairsOf a) (pairsOf b)))

/-! ### float arrays: IEEE doubles by bit pattern (Lean `Float` = C double in the compiled driver) -/

structure FVal where
  bits : UInt64

/-- NumPy `==` on float64: IEEE equality (`-0.0 == 0.0`, `nan != nan`) -/
def ieeeEq (a b : FVal) : Bool := Float.ofBits a.bits == Float.ofBits b.bits

inductive FOp | add | sub | mul
inductive FCmp | lt | gt | eq

def FOp.fn (f : FOp) (x y : FVal) : FVal :=
  let a := Float.ofBits x.bits
  let b := Float.ofBits y.bits
  ⟨(match f with | .add => a + b | .sub => a - b | .mul => a * b).toBits⟩

def FCmp.fn (f : FCmp) (x y : FVal) : Bool :=
  let a := Float.ofBits x.bits
  let b := Float.ofBits y.bits
  match f with | .lt => a < b | .gt => a > b | .eq => a == b

def fneg (x : FVal) : FVal := ⟨(-(Float.ofBits x.bits)).toBits⟩

/-- arithmetic expression trees over values of type `V` (floats: `V = FVal`; a comparison may sit at the root) -/
inductive FExpr (V : Type)
  | leaf (i : Nat)
  | neg (a : FExpr V)
  | bin (f : FOp) (a b : FExpr V)
  | scr (f : FOp) (a : FExpr V) (k : V)

/-- evaluation on run-length arrays with the engine's equality test `eq`, negation `ng` and arithmetic `op` -/
def FExpr.evalG {V : Type} (eq : V → V → Bool) (ng : V → V) (op : FOp → V → V → V) (leaves : List (Rle V)) : FExpr V → Rle V
  | .leaf i => leaves.getD i ⟨[0], []⟩
  | .neg a => mapRle ng (a.evalG eq ng op leaves)
  | .bin f a b => zipRleBy eq (op f) (a.evalG eq ng op leaves) (b.evalG eq ng op leaves)
  | .scr f a k => mapRle (fun x => op f x k) (a.evalG eq ng op leaves)

/-- the same tree on dense arrays (what NumPy computes element by element) -/
def FExpr.denoteG {V : Type} (ng : V → V) (op : FOp → V → V → V) (leaves : List (List V)) : FExpr V → List V
  | .leaf i => leaves.getD i []
  | .neg a => (a.denoteG ng op leaves).map ng
  | .bin f a b => List.zipWith (op f) (a.denoteG ng op leaves) (b.denoteG ng op leaves)
  | .scr f a k => (a.denoteG ng op leaves).map (fun x => op f x k)

/-- float64 genomic arrays: IEEE arithmetic, `join_runs` with IEEE `==` -/
def FExpr.eval (leaves : List (Rle FVal)) (e : FExpr FVal) : Rle FVal := e.evalG ieeeEq fneg FOp.fn leaves

/-! ### `GenomicArrayGlobal` on int64 / bool: typed expression trees; ufuncs are forwarded to the run-length engine -/

structure GArr where
  rle : Rle Int          -- booleans are 0 / 1
  isBool : Bool

def b2i (b : Bool) : Int := if b then 1 else 0

inductive BinOp | add | sub | mul | lt | gt | eq | and | or
inductive UnOp | neg | not

/-- arithmetic needs integer operands, `&` `|` boolean operands (on 0/1 the logical and bitwise meanings coincide);
comparisons take integers and give booleans. Anything else is outside the model (`none`). -/
def BinOp.typ (f : BinOp) (aBool bBool : Bool) : Option Bool :=
  match f with
  | .add | .sub | .mul => if !aBool && !bBool then some false else none
  | .lt | .gt | .eq => if !aBool && !bBool then some true else none
  | .and | .or => if aBool && bBool then some true else none

def BinOp.fn (f : BinOp) (x y : Int) : Int :=
  match f with
  | .add => x + y
  | .sub => x - y
  | .mul => x * y
  | .lt => b2i (decide (x < y))
  | .gt => b2i (decide (x > y))
  | .eq => b2i (decide (x = y))
  | .and => b2i (x != 0 && y != 0)
  | .or => b2i (x != 0 || y != 0)

def UnOp.typ (f : UnOp) (aBool : Bool) : Option Bool :=
  match f with
  | .neg => if !aBool then some false else none
  | .not => if aBool then some true else none

def UnOp.fn (f : UnOp) (x : Int) : Int :=
  match f with
  | .neg => -x
  | .not => b2i (x == 0)

inductive Expr
  | leaf (i : Nat)
  | un (f : UnOp) (a : Expr)
  | bin (f : BinOp) (a b : Expr)
  | scr (f : BinOp) (a : Expr) (k : Int)      -- array op scalar
  | scl (f : BinOp) (k : Int) (a : Expr)      -- scalar op array

/-- `__array_ufunc__`: the operands' `_global_track` go to the run-length engine, the result is re-wrapped -/
def Expr.eval (leaves : List GArr) : Expr → Option GArr
  | .leaf i => leaves[i]?
  | .un f a => do
    let x ← a.eval leaves
    let t ← f.typ x.isBool
    pure ⟨mapRle f.fn x.rle, t⟩
  | .bin f a b => do
    let x ← a.eval leaves
    let y ← b.eval leaves
    let t ← f.typ x.isBool y.isBool
    pure ⟨zipRle f.fn x.rle y.rle, t⟩
  | .scr f a k => do
    let x ← a.eval leaves
    let t ← f.typ x.isBool false
    pure ⟨mapRle (fun v => f.fn v k) x.rle, t⟩
  | .scl f k a => do
    let x ← a.eval leaves
    let t ← f.typ false x.isBool
    pure ⟨mapRle (fun v => f.fn k v) x.rle, t⟩

/-- the same tree on dense arrays -/
def Expr.denote (leaves : List (List Int × Bool)) : Expr → Option (List Int × Bool)
  | .leaf i => leaves[i]?
  | .un f a => do
    let x ← a.denote leaves
    let t ← f.typ x.2
    pure (x.1.map f.fn, t)
  | .bin f a b => do
    let x ← a.denote leaves
    let y ← b.denote leaves
    let t ← f.typ x.2 y.2
    pure (List.zipWith f.fn x.1 y.1, t)
  | .scr f a k => do
    let x ← a.denote leaves
    let t ← f.typ x.2 false
    pure (x.1.map (fun v => f.fn v k), t)
  | .scl f k a => do
    let x ← a.denote leaves
    let t ← f.typ false x.2
    pure (x.1.map (fun v => f.fn k v), t)

/-- dense expansion as the code does it (`to_array` on int64 words / on booleans) -/
def denseInt (r : Rle Int) (isBool : Bool) : List Int :=
  if isBool then (toArrayBool (mapRle (· != 0) r)).map b2i else toArrayInt r

/-- values travel as integers: int64 values for kind "int", the unsigned word view for kind "float", 0/1 for "bool" -/
def denseKind (kind : String) (r : Rle Int) : List Int :=
  if kind == "float" then ((mapRle Int.toNat r).toArray Nat.xor 0).map Int.ofNat
  else if kind == "bool" then denseInt r true
  else toArrayInt r

end C09

namespace C09
open Base.Rle

/-! ### boolean indexing `t[mask]` and canonical run-length form -/

/-- `t[mask]` (npstructures `_getitem_bool`, specified at the dense level): the values at the `True` positions -/
def selectMask {V : Type} (d : List V) (m : List Bool) : List V := ((d.zip m).filter (·.2)).map (·.1)

/-- the run-length array with maximal runs of a dense array (what a binary ufunc / `join_runs` leaves behind) -/
def canonRle {V : Type} [BEq V] (d : List V) : Rle V :=
  ofPairs (joinPairs (d.zipIdx.map (fun x => (x.2 + 1, x.1))))

end C09

namespace C09
open Base.Rle

/-! ### `t[intervals]` / `t[locations]`: rows of dense values -/

/-- `extract_intervals`: the slice of the genome-wide array under every interval (global coordinates), reversed for
intervals on the `-` strand when the extraction is stranded -/
def extractRows {V : Type} (r : Rle V) (rows : List (Nat × Nat × Bool)) (stranded : Bool) : List (List V) :=
  rows.map (fun x =>
    let d := (sliceRle r x.1 x.2.1).toDense
    if stranded && !x.2.2 then d.reverse else d)

/-- `extract_locations`: the value at every position (`searchsorted` on the events) -/
def valueAtPos {V : Type} (r : Rle V) (p : Nat) : Option V :=
  ((runRecs r.events r.values).find? (fun x => decide (x.1 ≤ p) && decide (p < x.2.1))).map (·.2.2)

end C09
