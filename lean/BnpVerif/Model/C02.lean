import BnpVerif.Base.Opt
/-! C02 — parsed columns mean what the file format says the text means.

Executable model of `DelimitedBuffer.from_raw_buffer/_get_buffer_extractor/_modify_for_carriage_return`,
`TextBufferExtractor.get_field_by_number/get_digit_array/get_padded_field`,
`move_intervals_to_digit_array`, `move_intervals_to_right_padded_array`, `str_to_int` (sign path),
`parse_with_missing`, `_parse_split_fields`, `DelimitedBufferWithInernalComments`, `SAMBuffer`,
`OneLineBuffer._get_buffer_extractor`, `FastQBuffer` line roles, `MultiLineFastaBuffer.get_data`,
`FileBuffer.read_header`, plus the property-level specification (`linesOf`, `splitOn`, `decVal`, …).
Bytes are `Nat`s; positions are `Nat` indices into the buffer. Core-only imports. -/
namespace C02
open Base

abbrev Bytes := List Nat

/-- a buffer type as tabulated from the package (Gen/C02.lean) -/
structure Schema where
  cols : List (String × String)
  delim : Nat
  comment : Nat
  linesPerEntry : Nat
  lineOffsets : List Nat
  marker : Nat
  interiorComments : Bool
deriving DecidableEq, Repr

inductive Err where
  | format (line : Nat)     -- FormatException(line_number)
  | shape                   -- numpy reshape / index failure (ill-formed table)
  | other
  | encoding                -- EncodingError: a symbol outside the alphabet of the column's encoding
deriving DecidableEq, Repr

/-! ## Specification level -/

def consHead (b : Nat) : List Bytes → List Bytes
  | [] => [[b]]
  | p :: ps => (b :: p) :: ps

/-- split on a separator byte (always at least one piece, like `str.split`) -/
def splitOn (d : Nat) : Bytes → List Bytes
  | [] => [[]]
  | b :: bs => if b = d then [] :: splitOn d bs else consHead b (splitOn d bs)

/-- join with a separator byte (`sep.join`) -/
def joinWith (d : Nat) : List Bytes → Bytes
  | [] => []
  | [p] => p
  | p :: q :: ps => p ++ d :: joinWith d (q :: ps)

/-- the complete lines of a buffer: pieces terminated by `\n` (an unterminated tail is not a line) -/
def linesOf (bs : Bytes) : List Bytes := (splitOn 10 bs).dropLast

/-- the unterminated tail after the last newline -/
def tailOf (bs : Bytes) : Bytes := (splitOn 10 bs).getLast?.getD []

def stripCR (l : Bytes) : Bytes := if l.getLast? = some 13 then l.dropLast else l

/-- value of a string of decimal digit *values* (Horner) -/
def decVal (ds : List Nat) : Nat := ds.foldl (fun acc x => 10 * acc + x) 0

def isDigit (b : Nat) : Bool := 48 ≤ b && b ≤ 57

/-- the standard reading of an unsigned decimal string (bytes) -/
def specNat (t : Bytes) : Option Nat :=
  if t ≠ [] ∧ t.all isDigit then some (decVal (t.map (· - 48))) else none

/-- optionally signed decimal -/
def specInt (t : Bytes) : Option Int :=
  match t with
  | 45 :: r => (specNat r).map (fun n => - (n : Int))
  | 43 :: r => (specNat r).map (fun n => (n : Int))
  | _ => (specNat t).map (fun n => (n : Int))

/-- comma separated list with optional empty items dropped (one trailing comma allowed) -/
def specIntList (t : Bytes) : Option (List Int) :=
  omap specInt ((splitOn 44 t).filter (· ≠ []))

/-! ## Index level: delimiter positions, slices, pieces -/

/-- `np.flatnonzero(mask)` shifted by `i` -/
def delimsFrom (isD : Nat → Bool) : Nat → Bytes → List Nat
  | _, [] => []
  | i, b :: bs => if isD b then i :: delimsFrom isD (i + 1) bs else delimsFrom isD (i + 1) bs

/-- `data[s:e]` -/
def slice (bs : Bytes) (s e : Nat) : Bytes := (bs.drop s).take (e - s)

/-- complete pieces of a buffer (each terminated by a delimiter), with an accumulator for the open piece -/
def piecesAcc (isD : Nat → Bool) : Bytes → Bytes → List Bytes
  | _, [] => []
  | acc, b :: bs => if isD b then acc :: piecesAcc isD [] bs else piecesAcc isD (acc ++ [b]) bs

def pieces (isD : Nat → Bool) (bs : Bytes) : List Bytes := piecesAcc isD [] bs

/-- `chunk[:last_newline + 1]` -/
def complete (bs : Bytes) : Bytes := (bs.reverse.dropWhile (fun b => b != 10)).reverse

/-- `flat.reshape(k, n)` -/
def chunkF {α} (n : Nat) : Nat → List α → List (List α)
  | 0, _ => []
  | k + 1, xs => xs.take n :: chunkF n k (xs.drop n)

/-- re-wrap a flat list by row lengths -/
def unflatten {α} : List Nat → List α → List (List α)
  | [], _ => []
  | n :: ns, xs => xs.take n :: unflatten ns (xs.drop n)

structure Table where
  nCols : Nat
  starts : List Nat     -- row-major, one per field
  ends : List Nat
deriving Repr

def isDelim (d : Nat) (b : Nat) : Bool := b == 10 || b == d

/-- `DelimitedBuffer.from_raw_buffer` + `_get_buffer_extractor` (before the CR adjustment):
delimiter positions of the complete lines, column count from the first line, starts = previous delimiter + 1 -/
def fieldTable (d : Nat) (bs : Bytes) : Except Err Table :=
  let data := complete bs
  if data = [] then .error .other            -- "Found no new lines"
  else
    let ds := delimsFrom (isDelim d) 0 data
    let n := (data.takeWhile (fun b => b != 10)).count d + 1      -- entry_ends[0] + 1
    -- every line must have as many columns as the first one (FormatException with the line number)
    match ((linesOf data).map (fun l => l.count d + 1)).findIdx? (fun c => c != n) with
    | some i => .error (.format i)
    | none =>
      if ds.length % n != 0 then .error .shape
      else .ok ⟨n, 0 :: ds.dropLast.map (· + 1), ds⟩

def Table.pairs (t : Table) : List (Nat × Nat) := List.zip t.starts t.ends

def Table.rows (t : Table) : List (List (Nat × Nat)) := chunkF t.nCols (t.ends.length / t.nCols) t.pairs

/-- the text of every field -/
def tableFields (bs : Bytes) (t : Table) : List (List Bytes) :=
  t.rows.map (fun r => r.map (fun p => slice bs p.1 p.2))

/-- `_modify_for_carriage_return`: if the first line ends in `\r`, every row's last field loses a trailing `\r` -/
def crAdjustRows (data : Bytes) (rows : List (List (Nat × Nat))) : List (List (Nat × Nat)) :=
  match rows with
  | [] => rows
  | r0 :: _ =>
    match r0.getLast? with
    | none => rows
    | some (_, e0) =>
      if e0 = 0 then rows
      else if data.getD (e0 - 1) 0 = 13 then
        rows.map (fun r => match r.getLast? with
          | none => r
          | some (s, e) => r.dropLast ++ [(s, if data.getD (e - 1) 0 = 13 then e - 1 else e)])
      else rows

/-! ## typed column extraction -/

def maxWidth (fs : List (Nat × Nat)) : Nat := fs.foldl (fun m p => max m (p.2 - p.1)) 0

/-- one row of `move_intervals_to_digit_array`: characters `data[e-w .. e)`, the first `w-(e-s)` overwritten by '0' -/
def digitRow (data : Bytes) (w : Nat) (p : Nat × Nat) : Bytes :=
  (List.range w).map (fun j => if j < w - (p.2 - p.1) then 48 else data.getD (p.2 - (w - j)) 0)

def digitMatrix (data : Bytes) (fs : List (Nat × Nat)) : List Bytes :=
  fs.map (digitRow data (maxWidth fs))

def powersDesc (w : Nat) : List Nat := (List.range w).reverse.map (10 ^ ·)

def dot (a b : List Nat) : Nat := (List.zipWith (· * ·) a b).sum

/-- index of the first row containing a byte rejected by `p` (the line number of the FormatException) -/
def firstBadRow (rows : List Bytes) (ok : Nat → Bool) : Option Nat :=
  let i := rows.findIdx (fun r => !r.all ok)
  if i < rows.length then some i else none

/-- `str_to_int` on the digit matrix: DigitEncoding check, then `raw.dot(powers)` -/
def digitMatrixValues (data : Bytes) (fs : List (Nat × Nat)) : Except Err (List Int) :=
  let m := digitMatrix data fs
  match firstBadRow m isDigit with
  | some i => .error (.format i)
  | none => .ok (m.map (fun r => (dot (r.map (· - 48)) (powersDesc r.length) : Nat)))

/-- `str_to_int` ragged path for one row: sign character replaced by '0', digits weighted by position, times sign -/
def signedRow (t : Bytes) : Option Int :=
  let neg := t.head? = some 45
  let pos := t.head? = some 43
  let body := if neg || pos then 48 :: t.tail else t
  if (neg || pos) && t.length == 1 then none       -- a sign without digits is not a number
  else if body.all isDigit then
    let v : Int := (dot (body.map (· - 48)) (powersDesc body.length) : Nat)
    some (if neg then -v else v)
  else none

def signedValues (texts : List Bytes) : Except Err (List Int) :=
  match omap signedRow texts with
  | some vs => .ok vs
  | none => .error (.format (texts.findIdx (fun t => (signedRow t).isNone)))

/-- `get_digit_array` + `str_to_int(*x)`: the sign path is taken when some field starts with '-' or '+' -/
def intColumn (data : Bytes) (fs : List (Nat × Nat)) : Except Err (List Int) :=
  let signed := fs.any (fun p => data.getD p.1 0 = 45 || data.getD p.1 0 = 43)
  if signed then signedValues (fs.map (fun p => slice data p.1 p.2))
  else digitMatrixValues data fs

/-- `parse_with_missing` (repaired): empty and "." are missing (0), the rest goes through `str_to_int` -/
def optIntColumn (texts : List Bytes) : Except Err (List Int) :=
  let present := texts.filter (fun t => t ≠ [] && t ≠ [46])
  match signedValues present with
  | .error _ => .error (.format (texts.findIdx (fun t => t ≠ [] && t ≠ [46] && (signedRow t).isNone)))
  | .ok _ => .ok (texts.map (fun t => if t ≠ [] && t ≠ [46] then (signedRow t).getD 0 else 0))

/-- the rule shipped before the repair: "." only counted as missing when *every* row was "." -/
def optIntColumnOld (texts : List Bytes) : Except Err (List Int) :=
  if texts.all (· = [46]) then .ok (texts.map (fun _ => 0))
  else
    let present := texts.filter (· ≠ [])
    match signedValues present with
    | .error _ => .error (.format (texts.findIdx (fun t => t ≠ [] && (signedRow t).isNone)))
    | .ok _ => .ok (texts.map (fun t => if t ≠ [] then (signedRow t).getD 0 else 0))

/-- one row of `move_intervals_to_right_padded_array`: the field, then NULs up to the column width -/
def paddedRow (data : Bytes) (w : Nat) (p : Nat × Nat) : Bytes :=
  (List.range w).map (fun j => if j < p.2 - p.1 then data.getD (min (p.1 + j) (data.length - 1)) 0 else 0)

def paddedMatrix (data : Bytes) (fs : List (Nat × Nat)) : List Bytes :=
  fs.map (paddedRow data (maxWidth fs))

/-- what a fixed-width bytes cell shows: trailing NULs are not part of the string -/
def stripNul (r : Bytes) : Bytes := (r.reverse.dropWhile (· == 0)).reverse

/-- `_parse_split_fields` (repaired): separator appended to every row, flat split, empty strings are not elements,
the per-row element count is the number of non-empty strings of that row -/
def splitRows (sep : Nat) (rows : List Bytes) : List (List Bytes) :=
  let texts := rows.map (· ++ [sep])
  let all := pieces (· == sep) texts.flatten
  let counts := texts.map (·.count sep)
  (unflatten counts all).map (·.filter (· ≠ []))

/-- as shipped: values = all non-empty strings, row lengths = number of separators (inconsistent when a row
has an empty item, e.g. a trailing comma) -/
def splitRowsOld (sep : Nat) (rows : List Bytes) : List (List Bytes) :=
  let texts := rows.map (· ++ [sep])
  let all := pieces (· == sep) texts.flatten
  let counts := texts.map (·.count sep)
  unflatten counts (all.filter (· ≠ []))

def intListColumn (rows : List Bytes) : Except Err (List (List Int)) :=
  let g := splitRows 44 rows
  match omap (omap signedRow) g with
  | some v => .ok v
  | none => .error (.format (g.findIdx (fun r => (omap signedRow r).isNone)))

def strandOK (b : Nat) : Bool := b == 43 || b == 45 || b == 46

inductive Col where
  | ints (v : List Int)
  | strs (v : List Bytes)
  | floats (v : List Bytes)        -- kept as text (C18 owns the conversion)
  | intLists (v : List (List Int))
  | bools (v : List Bool)
  | strLists (v : List (List Bytes))       -- genotype strings per sample
  | floatLists (v : List (List Bytes))     -- float lists, kept as text
deriving Repr, DecidableEq

/-- `_get_field_by_number` dispatch on the declared type -/
def typedColumn (kind : String) (data : Bytes) (fs : List (Nat × Nat)) : Except Err Col :=
  let texts := fs.map (fun p => slice data p.1 p.2)
  match kind with
  | "int" => (intColumn data fs).map Col.ints
  | "oint" => (optIntColumn texts).map Col.ints
  | "id" => .ok (Col.strs ((paddedMatrix data fs).map stripNul))
  | "str" => .ok (Col.strs texts)
  | "float" => .ok (Col.floats texts)
  | "ilist" => (intListColumn texts).map Col.intLists
  | "strand" =>
    -- the column is taken as a flat array with one byte per row (an assertion in the code: anything else is refused)
    if texts.any (fun t => t.length != 1) then .error .other else
    match firstBadRow texts strandOK with
    | some i => .error (.format i)
    | none => .ok (Col.strs texts)
  | _ => .error .other

def columnOf {α} (rows : List (List α)) (j : Nat) : List α := rows.filterMap (·[j]?)

/-- apply `f` to every element, first error wins (induction-friendly `mapM`) -/
def emap {α β ε} (f : α → Except ε β) : List α → Except ε (List β)
  | [] => .ok []
  | a :: as =>
    match f a with
    | .error e => .error e
    | .ok b =>
      match emap f as with
      | .error e => .error e
      | .ok bs => .ok (b :: bs)

/-- columns `j, j+1, …` of the table, typed by `kinds` -/
def typedColumnsFrom (data : Bytes) (rows : List (List (Nat × Nat))) : Nat → List String → Except Err (List Col)
  | _, [] => .ok []
  | j, k :: ks =>
    match typedColumn k data (columnOf rows j) with
    | .error e => .error e
    | .ok c =>
      match typedColumnsFrom data rows (j + 1) ks with
      | .error e => .error e
      | .ok cs => .ok (c :: cs)

def typedColumns (kinds : List String) (data : Bytes) (rows : List (List (Nat × Nat))) : Except Err (List Col) :=
  typedColumnsFrom data rows 0 kinds

/-- `FileBuffer.read_header`: leading lines starting with the comment character are not data -/
def dropHeaderLines (c : Nat) : List Bytes → List Bytes
  | [] => []
  | l :: ls => if c ≠ 0 ∧ l.head? = some c then dropHeaderLines c ls else l :: ls

def unlines (ls : List Bytes) : Bytes := (ls.map (· ++ [10])).flatten

def dropHeader (c : Nat) (bs : Bytes) : Bytes := unlines (dropHeaderLines c (linesOf bs)) ++ tailOf bs

/-- `buffer[idx]`: the rows of the (start, end) table picked by position before anything is parsed -/
def pickRows {α} : Option (List Nat) → List α → List α
  | none, rows => rows
  | some idx, rows => idx.filterMap (rows[·]?)

@[simp] theorem pickRows_none {α} (rows : List α) : pickRows none rows = rows := rfl

/-- an index outside the table is an IndexError, not a row silently left out -/
def selOK (sel : Option (List Nat)) (n : Nat) : Bool :=
  match sel with
  | none => true
  | some idx => idx.all (· < n)

/-- the reference table with rows picked by position -/
def pickIdx {α : Type} (idx : List Nat) (l : List α) : List α := idx.filterMap (l[·]?)

def colPick (idx : List Nat) : Col → Col
  | .ints v => .ints (pickIdx idx v)
  | .strs v => .strs (pickIdx idx v)
  | .floats v => .floats (pickIdx idx v)
  | .intLists v => .intLists (pickIdx idx v)
  | .bools v => .bools (pickIdx idx v)
  | .strLists v => .strLists (pickIdx idx v)
  | .floatLists v => .floatLists (pickIdx idx v)

/-- a parsed table with rows selected: `table[idx]` -/
def resPick (sel : Option (List Nat)) (r : Nat × List Col) : Nat × List Col :=
  match sel with
  | none => r
  | some idx => ((pickIdx idx (List.range r.1)).length, r.2.map (colPick idx))

/-- plain delimited formats -/
def parseDelimited (S : Schema) (bs : Bytes) (sel : Option (List Nat) := none) : Except Err (Nat × List Col) :=
  let data := complete bs                       -- the extractor holds `chunk[:size]`
  match fieldTable S.delim bs with
  | .error e => .error e
  | .ok t =>
    let rows0 := crAdjustRows data t.rows
    if !selOK sel rows0.length then .error .shape else
    let rows := pickRows sel rows0
    match typedColumns (S.cols.map (·.2)) data rows with
    | .error e => .error e
    | .ok cols => .ok (rows.length, cols)

/-! ## interior comments (`DelimitedBufferWithInernalComments`) -/

/-- positions `k` (into the delimiter list) of newlines that are followed by the comment character -/
def commentMask (c : Nat) (data : Bytes) (ds : List Nat) : List Nat :=
  (List.range (ds.length - 1)).filter (fun k =>
    data.getD (ds.getD k 0) 0 = 10 && data.getD (ds.getD k 0 + 1) 0 = c)

def deleteIdx {α} (l : List α) (idx : List Nat) : List α :=
  (List.zip (List.range l.length) l).filterMap (fun p => if idx.contains p.1 then none else some p.2)

def tableOfStartsEnds (data : Bytes) (starts ends : List Nat) : Except Err Table :=
  match ends.findIdx? (fun e => data.getD e 0 = 10) with
  | none => .error .shape
  | some k =>
    let n := k + 1
    if ends.length % n != 0 || starts.length != ends.length then .error .shape
    else .ok ⟨n, starts, ends⟩

/-- `_calculate_col_starts_and_ends` as shipped: the newline before a comment line is removed from the start
delimiters and the *next delimiter* from the end delimiters — which is the comment's own newline only when the
comment line contains no TAB -/
def commentTableOld (d c : Nat) (bs : Bytes) : Except Err Table :=
  let data := complete bs
  if data = [] then .error .other else
  let ds := delimsFrom (isDelim d) 0 data
  let mask := commentMask c data ds
  let startD := (deleteIdx ds mask).dropLast
  let endD := deleteIdx ds (mask.map (· + 1))
  let (starts, ends) := if data.head? ≠ some c then (0 :: startD.map (· + 1), endD) else (startD.map (· + 1), endD.drop 1)
  tableOfStartsEnds data starts ends

/-- start of the line that contains position `e` -/
def lineStartOf (data : Bytes) (e : Nat) : Nat := e - ((data.take e).reverse.takeWhile (· != 10)).length

/-- `_calculate_col_starts_and_ends` (repaired): a field ends at every delimiter that is not inside a comment line
and starts right after the preceding delimiter -/
def commentTable (d c : Nat) (bs : Bytes) : Except Err Table :=
  let data := complete bs
  if data = [] then .error .other else
  let ds := delimsFrom (isDelim d) 0 data
  let starts := 0 :: ds.dropLast.map (· + 1)
  let kept := (List.zip starts ds).filter (fun p => data.getD (lineStartOf data p.2) 0 ≠ c)
  tableOfStartsEnds data (kept.map (·.1)) (kept.map (·.2))

def parseCommented (S : Schema) (bs : Bytes) : Except Err (Nat × List Col) := do
  let t ← commentTable S.delim S.comment bs
  let rows := crAdjustRows bs t.rows
  let cols ← typedColumns (S.cols.map (·.2)) bs rows
  pure (rows.length, cols)

/-- specification: comment lines are not records -/
def dataLines (c : Nat) (ls : List Bytes) : List Bytes := ls.filter (fun l => l.head? ≠ some c)

/-! ## SAM: eleven fixed columns and the rest of the line -/

/-- per line: positions of the delimiters of that line (`RaggedArray(delimiters, n_fields)`) -/
def lineDelims (d : Nat) (data : Bytes) : List (List Nat) :=
  let ds := delimsFrom (isDelim d) 0 data
  let counts := (linesOf data).map (fun l => l.count d + 1)
  unflatten counts ds

/-- one line: `s0` = line start, `r` = positions of the line's delimiters (the last one is its newline);
the (start,end) of the first `k` fields, and of the rest of the line (`SAMBufferExctractor._get_extra_field`:
from one past the end of field `k` up to the line end, never negative) -/
def samRow (data : Bytes) (cr : Bool) (k : Nat) (s0 : Nat) (r : List Nat) : List (Nat × Nat) × (Nat × Nat) :=
  let lineEnd0 := r.getLast?.getD 0
  let lineEnd := if cr && data.getD (lineEnd0 - 1) 0 = 13 then lineEnd0 - 1 else lineEnd0
  let r' := r.dropLast ++ [lineEnd]
  let starts := s0 :: r.dropLast.map (· + 1)
  let fields := (List.zip starts r').take k
  let e := (fields.getLast?.map (·.2)).getD 0
  -- `_get_extra_field`: the text ends before the newline, or before a carriage return preceding it (every row)
  let extraEnd := if data.getD (lineEnd0 - 1) 0 = 13 then lineEnd0 - 1 else lineEnd0
  (fields, (e + 1, max extraEnd (e + 1)))

/-- rows of (start,end) for the first `k` fields and the (start,end) of the rest of the line -/
def samRows (d : Nat) (k : Nat) (bs : Bytes) : Except Err (List (List (Nat × Nat) × (Nat × Nat))) :=
  let data := complete bs
  if data = [] then .error .other else
  let ld := lineDelims d data
  let firstEnd := (ld.head?.bind (·.getLast?)).getD 0
  let cr := firstEnd ≠ 0 && data.getD (firstEnd - 1) 0 = 13
  let prevs := 0 :: (ld.map (fun r => r.getLast?.getD 0 + 1)).dropLast       -- entry starts
  if ld.any (fun r => r.length < k) then .error .shape else
  .ok ((List.zip prevs ld).map (fun pr => samRow data cr k pr.1 pr.2))

def parseSam (S : Schema) (bs : Bytes) (sel : Option (List Nat) := none) : Except Err (Nat × List Col) := do
  let rows0 ← samRows S.delim 11 bs
  if !selOK sel rows0.length then .error .shape else
  let rows := pickRows sel rows0
  let cols ← typedColumns ((S.cols.map (·.2)).take 11) bs (rows.map (·.1))
  pure (rows.length, cols ++ [Col.strs (rows.map (fun r => slice bs r.2.1 r.2.2))])

/-! ## k-line formats (2-line FASTA, FASTQ) -/

/-- `OneLineBuffer.from_raw_buffer/_get_buffer_extractor`: newline positions, cut to a multiple of `k`,
field starts = previous newline + 1 + line offset -/
def klineTable (k : Nat) (offsets : List Nat) (bs : Bytes) : Except Err (List (List (Nat × Nat))) :=
  let nls := delimsFrom (· == 10) 0 bs
  if k = 0 ∨ nls.length < k then .error .other else
  let nls := nls.take (nls.length - nls.length % k)
  let starts := 0 :: nls.dropLast.map (· + 1)
  let rows := chunkF k (nls.length / k) (List.zip starts nls)
  .ok (rows.map (fun r => (List.zip r (offsets ++ List.replicate k 0)).map (fun po => (po.1.1 + po.2, po.1.2))))

/-- `OneLineBuffer._modify_for_carriage_return`: looks at the first line of the first k entries; if one ends in
CR, every field end that follows a CR moves one to the left -/
def klineCR (k : Nat) (bs : Bytes) (rows : List (List (Nat × Nat))) : List (List (Nat × Nat)) :=
  let firstEnds := (rows.take k).filterMap (fun r => r.head?.map (·.2))
  if ((rows.head?.bind (·.head?)).map (·.2)).getD 0 < 1 then rows
  else if firstEnds.any (fun e => bs.getD (e - 1) 0 = 13) then
    rows.map (·.map (fun p => (p.1, if bs.getD (p.2 - 1) 0 = 13 then p.2 - 1 else p.2)))
  else rows

def klineRows (k : Nat) (offsets : List Nat) (bs : Bytes) : Except Err (List (List (Nat × Nat))) :=
  (klineTable k offsets bs).map (klineCR k bs)

/-- `_validate`: every entry starts with the marker; FASTQ: third line starts with '+' -/
def klineValid (marker : Nat) (k : Nat) (bs : Bytes) (rows : List (List (Nat × Nat))) : Bool :=
  rows.all (fun r => match r.head? with
    | some p => p.1 ≥ 1 && bs.getD (p.1 - 1) 0 = marker
    | none => false) &&
  (k != 4 || rows.all (fun r => match r[2]? with
    | some p => bs.getD p.1 0 = 43
    | none => false))

def parseKline (S : Schema) (bs : Bytes) (sel : Option (List Nat) := none) : Except Err (Nat × List Col) := do
  let rows0 ← klineRows S.linesPerEntry S.lineOffsets bs
  if !klineValid S.marker S.linesPerEntry bs rows0 then .error (.format 0) else
  if !selOK sel rows0.length then .error .shape else
  let rows := pickRows sel rows0
  let txt := fun (j : Nat) => (columnOf rows j).map (fun p => slice bs p.1 p.2)
  let name := Col.strs (((paddedMatrix bs (columnOf rows 0)).map stripNul))
  let seq := Col.strs (txt 1)
  if S.linesPerEntry = 4 then
    pure (rows.length, [name, seq, Col.intLists ((txt 3).map (fun q => q.map (fun (b : Nat) => (b : Int) - 33)))])
  else pure (rows.length, [name, seq])

/-! ## wrapped FASTA (`MultiLineFastaBuffer.from_raw_buffer/get_data`) -/

/-- the reader appends `\n` (if missing) and the entry marker; the buffer keeps everything before the last marker
that follows a newline -/
def fastaLines (marker : Nat) (bs : Bytes) : Except Err (List Bytes) :=
  let chunk := (if bs.getLast? = some 10 then bs else bs ++ [10]) ++ [marker]
  if chunk.head? ≠ some marker then .error .other else
  let ls := linesOf chunk          -- complete lines; the appended marker is the unterminated tail
  .ok ls

/-- entries as the format defines them: a marker line starts a record, the following lines are its sequence -/
def fastaEntriesAux : List Bytes → Option (Bytes × Bytes) → List (Bytes × Bytes)
  | [], cur => match cur with | some e => [e] | none => []
  | l :: ls, cur =>
    if l.head? = some 62 then
      (match cur with | some e => [e] | none => []) ++ fastaEntriesAux ls (some (l.tail, []))
    else match cur with
      | some (n, s) => fastaEntriesAux ls (some (n, s ++ l))
      | none => fastaEntriesAux ls none

/-- `np.insert(np.cumsum(l), 0, a)` -/
def psum : Nat → List Nat → List Nat
  | a, [] => [a]
  | a, x :: xs => a :: psum (a + x) xs

/-- numpy index with Python wrap-around for negative positions, `none` = IndexError -/
def pyGet (l : List Nat) (i : Int) : Option Nat :=
  if i < 0 then (if (-i).toNat ≤ l.length then l[l.length - (-i).toNat]? else none) else l[i.toNat]?

/-- sequence length per entry, as shipped: `ends[offsets[1:]-1] - starts[offsets[:-1]]` over the sequence lines
(`offsets` = running sum of the lines per entry) -/
def seqLensOldAux (starts ends : List Nat) : Nat → List Nat → Option (List Nat)
  | _, [] => some []
  | off, n :: ns =>
    match pyGet ends (((off + n : Nat) : Int) - 1), pyGet starts (off : Int), seqLensOldAux starts ends (off + n) ns with
    | some e, some s, some r => some ((e - s) :: r)
    | _, _, _ => none

def seqLensOld (lineLens : List Nat) (nLines : List Nat) : Option (List Nat) :=
  seqLensOldAux (psum 0 lineLens).dropLast ((psum 0 lineLens).drop 1) 0 nLines

/-- repaired: `cum[offsets[1:]] - cum[offsets[:-1]]` with `cum` the cumulative line lengths -/
def seqLensAux (cum : List Nat) : Nat → List Nat → List Nat
  | _, [] => []
  | off, n :: ns => (cum.getD (off + n) 0 - cum.getD off 0) :: seqLensAux cum (off + n) ns

def seqLens (lineLens : List Nat) (nLines : List Nat) : List Nat := seqLensAux (psum 0 lineLens) 0 nLines

/-- positions (line numbers, counted from `k`) of the lines that start with the marker (`np.flatnonzero`) -/
def headerIdx (marker : Nat) : Nat → List Bytes → List Nat
  | _, [] => []
  | k, l :: ls => if l.head? = some marker then k :: headerIdx marker (k + 1) ls else headerIdx marker (k + 1) ls

/-- `get_data` on the lines of the buffer: header lines are the lines that start with the marker; lines per entry
from the header positions; the sequence of an entry is the flat text of the sequence lines cut by `seq_lens` -/
def fastaGroup (marker : Nat) (ls : List Bytes) : List Bytes × List Bytes :=
  let isH := fun (l : Bytes) => l.head? = some marker
  let newEntries := headerIdx marker 0 ls
  let bounds := newEntries ++ [ls.length]
  let nLines := (List.zip bounds (bounds.drop 1)).map (fun ab => ab.2 - ab.1 - 1)
  let seqLines := ls.filter (fun l => !isH l)
  let lens := seqLens (seqLines.map List.length) nLines
  ((ls.filter isH).map List.tail, unflatten lens seqLines.flatten)

/-- (CR stripped when one of the first 10 lines has it) -/
def parseFasta (S : Schema) (bs : Bytes) : Except Err (Nat × List Col) := do
  let ls ← fastaLines S.marker bs
  let cr := (ls.take 10).any (fun l => l.getLast? = some 13)
  let ls := if cr then ls.map stripCR else ls
  let g := fastaGroup S.marker ls
  pure (g.1.length, [Col.strs g.1, Col.strs g.2])

/-- VCF POS is 1-based in the file, 0-based in the entry -/
def shiftCol (j : Nat) (d : Int) (cols : List Col) : List Col :=
  (List.zip (List.range cols.length) cols).map (fun p => match p.2 with
    | .ints v => if p.1 = j then Col.ints (v.map (· + d)) else p.2
    | c => c)

/-! ## dispatch used by the driver -/

def ensureNl (bs : Bytes) : Bytes := if bs = [] ∨ bs.getLast? = some 10 then bs else bs ++ [10]

/-- `VCFBuffer._get_field_by_number`: the eight fixed columns (INFO as text when the header declares no INFO keys),
`val -= 1` on column 1; `shift` is the behaviourally tabulated constant -/
def parseVcf (S : Schema) (shift : Int) (bs : Bytes) : Except Err (Nat × List Col) := do
  let t ← fieldTable S.delim bs
  if t.nCols < 8 then .error .shape else
  let rows := crAdjustRows bs t.rows
  let kinds := ((S.cols.map (·.2)).take 8).map (fun k => if k = "info" then "str" else k)
  let cols ← typedColumns kinds bs rows
  pure (rows.length, shiftCol 1 shift cols)

/-! ## VCF INFO (`VCFBuffer._get_dataclass_field`, `NamedBufferExtractor`) and genotype columns -/

/-- the `;`-separated items of every row's INFO text: the row terminator counts as a separator, the flat text is
split once and regrouped per row (the code does this with a sorted merge of `;` positions and row offsets) -/
def infoSubfields (rows : List Bytes) : List (List Bytes) :=
  let texts := rows.map (· ++ [59])
  unflatten (texts.map (·.count 59)) (pieces (· == 59) texts.flatten)

def isPrefix (p t : Bytes) : Bool := t.take p.length == p

/-- `get_field_by_name`: the item that starts with `name=`; absent → empty text; present twice → FormatException -/
def infoLookup (name : Bytes) (subs : List Bytes) : Option Bytes :=
  match subs.filter (isPrefix (name ++ [61])) with
  | [] => some []
  | [f] => some (f.drop (name.length + 1))
  | _ => none

/-- `has_field_name` (flags): an item equal to the name -/
def infoFlag (name : Bytes) (subs : List Bytes) : Bool := subs.contains name

/-- one declared INFO key, typed by the header declaration (kind) -/
def infoColumn (kind : String) (name : Bytes) (subs : List (List Bytes)) : Except Err Col :=
  if kind = "flag" then .ok (Col.bools (subs.map (infoFlag name)))
  else
    match omap (infoLookup name) subs with
    | none => .error (.format (subs.findIdx (fun r => (infoLookup name r).isNone)))
    | some vals =>
      if kind = "oint" then (optIntColumn vals).map Col.ints
      else if kind = "ofloat" then .ok (Col.floats (vals.map (fun v => if v = [] ∨ v = [46] then [110, 97, 110] else v)))
      else if kind = "ilist" then (intListColumn vals).map Col.intLists
      else if kind = "flist" then .ok (Col.floatLists (splitRows 44 vals))
      else .ok (Col.strs vals)

/-- `_GenotypeRowEncoding`: alphabet 0 1 2 . | /  → indices 0..5, every other byte 0 -/
def gtIndex (b : Nat) : Nat :=
  if b = 48 then 0 else if b = 49 then 1 else if b = 50 then 2 else if b = 46 then 3 else if b = 124 then 4
  else if b = 47 then 5 else 0

/-- `encode`: 36·a + 6·sep + b, stored as int8 (wraps above 127) -/
def gtEncode (t : Bytes) : Int :=
  let v := 36 * gtIndex (t.getD 0 0) + 6 * gtIndex (t.getD 1 0) + gtIndex (t.getD 2 0)
  if v ≥ 128 then (v : Int) - 256 else v

def gtSymbols : List Nat := [48, 49, 50, 46, 124, 47]
def gtAlleles : List Nat := [48, 49, 50, 46]
def gtSeps : List Nat := [124, 47]

/-- `decode`: the reverse lookup table (rows of a 256-entry table filled at the codes of the 32 genotypes,
zero elsewhere), indexed with the (possibly negative → wrapped) code -/
def gtDecode (c : Int) : Bytes :=
  let i := (if c < 0 then c + 256 else c).toNat
  let hits := (gtAlleles.flatMap (fun a => gtSeps.flatMap (fun s => gtAlleles.map (fun b => [a, s, b])))).filter
    (fun g => 36 * gtIndex (g.getD 0 0) + 6 * gtIndex (g.getD 1 0) + gtIndex (g.getD 2 0) = i)
  hits.getLast?.getD [0, 0, 0]

/-- `get_fixed_length_field(slice(9, None), 3)`: three bytes from the start of every sample field -/
def sampleTriplets (data : Bytes) (rows : List (List (Nat × Nat))) : List (List Bytes) :=
  rows.map (fun r => (r.drop 9).map (fun p => slice data p.1 (p.1 + 3)))

/-- `_check_symbols` (repair): the genotype encoders accept `allele sep allele` over their own alphabets only —
VCFMatrixBuffer: alleles 0 1 2 . and | /; PhasedVCFMatrixBuffer: 0 1 and |; PhasedHaplotypeVCFMatrixBuffer: 0..4 . and | / —
everything else (an allele number outside the alphabet, a haploid call) is an EncodingError, not allele 0 -/
def gtOK (flavour : String) (t : Bytes) : Bool :=
  let a := t.getD 0 0
  let s := t.getD 1 0
  let b := t.getD 2 0
  if flavour = "VCFMatrixBuffer" then gtAlleles.contains a && gtSeps.contains s && gtAlleles.contains b
  else if flavour = "PhasedVCFMatrixBuffer" then (a == 48 || a == 49) && s == 124 && (b == 48 || b == 49)
  else if flavour = "PhasedHaplotypeVCFMatrixBuffer" then
    ((48 ≤ a && a ≤ 52) || a == 46) && gtSeps.contains s && ((48 ≤ b && b ≤ 52) || b == 46)
  else true

/-- genotype column of the VCF buffer flavours -/
def genotypeColumn (flavour : String) (data : Bytes) (rows : List (List (Nat × Nat))) : Option Col :=
  if flavour = "VCFMatrixBuffer" then
    some (Col.strLists ((sampleTriplets data rows).map (·.map (fun t => gtDecode (gtEncode t)))))
  else if flavour = "PhasedVCFMatrixBuffer" then
    -- (a == '1')*2 + (b == '1'), decoded through "0|0","0|1","1|0","1|1"
    some (Col.strLists ((sampleTriplets data rows).map (·.map (fun t =>
      [if t.getD 0 0 = 49 then 49 else 48, 124, if t.getD 2 0 = 49 then 49 else 48]))))
  else if flavour = "PhasedHaplotypeVCFMatrixBuffer" then
    -- alphabet 0 1 2 3 4 . → 0..5 (others 0), two haplotypes per sample
    some (Col.intLists ((sampleTriplets data rows).map (fun r => r.flatMap (fun t =>
      let ix := fun (b : Nat) => if 48 ≤ b ∧ b ≤ 52 then ((b - 48 : Nat) : Int) else if b = 46 then 5 else 0
      [ix (t.getD 0 0), ix (t.getD 2 0)]))))
  else if flavour = "VCFBuffer2" then
    -- `get_padded_field(slice(9, None), stop_at=':')`: every sample field up to the first ':'
    some (Col.strLists (rows.map (fun r => (r.drop 9).map (fun p =>
      let f := slice data p.1 p.2
      let k := f.findIdx (· == 58)                 -- `argmax(array == ':')`: 0 when absent *or* at position 0
      if 0 < k ∧ k < f.length then f.take k else f))))
  else none

structure VcfResult where
  n : Nat
  fixed : List Col                       -- the seven fixed columns
  info : Sum Col (List (String × Col))    -- text, or one column per declared key
  geno : Option Col

def parseVcfX (S : Schema) (shift : Int) (flavour : String) (defs : List (String × String)) (bs : Bytes) :
    Except Err VcfResult := do
  let t ← fieldTable S.delim bs
  if t.nCols < 8 then .error .shape else
  let rows := crAdjustRows bs t.rows
  let kinds := (S.cols.map (·.2)).take 7
  let cols ← typedColumns kinds bs rows
  let infoTexts := (columnOf rows 7).map (fun p => slice bs p.1 p.2)
  let info ← if defs = [] then pure (Sum.inl (Col.strs infoTexts)) else do
    let subs := infoSubfields infoTexts
    let cs ← emap (fun kd : String × String => (infoColumn kd.2 (kd.1.toList.map Char.toNat) subs).map (fun c => (kd.1, c))) defs
    pure (Sum.inr cs)
  if !((sampleTriplets bs rows).all (·.all (gtOK flavour))) then .error .encoding else
  pure ⟨rows.length, shiftCol 1 shift cols, info, genotypeColumn flavour bs rows⟩

/-! ## GTF / GFF3 attributes read by key (`GTFEntry._get_attributes`, `GFFEntry._get_attributes`) -/

/-- `re.findall(key + ' "(.*?)"', text)` with the key required to start a word: scan from the left; at a position
where `key "` starts (and the byte before is not a word character) the value runs up to the next `"` and the scan
goes on after it; elsewhere it advances by one byte -/
def isWordByte (b : Nat) : Bool := isDigit b || (65 ≤ b && b ≤ 90) || (97 ≤ b && b ≤ 122) || b == 95

def gtfScan (key : Bytes) : Nat → Bool → Bytes → List Bytes
  | 0, _, _ => []
  | _, _, [] => []
  | fuel + 1, prevWord, b :: t =>
    let pat := key ++ [32, 34]
    if !prevWord && (b :: t).take pat.length == pat then
      let rest := (b :: t).drop pat.length
      let v := rest.takeWhile (· != 34)
      if v.length < rest.length then v :: gtfScan key fuel false (rest.drop (v.length + 1))   -- closing quote found
      else gtfScan key fuel (isWordByte b) t
    else gtfScan key fuel (isWordByte b) t

/-- GTF: all values of the key in the flattened attribute text of the selected rows -/
def gtfAttr (key : Bytes) (attrs : List Bytes) : List Bytes :=
  gtfScan key (attrs.flatten.length + 1) false attrs.flatten

/-- GFF3: the attribute texts joined by `;`, split at `;` and `=`; keys are the even pieces, values the odd ones -/
def gffAttr (key : Bytes) (attrs : List Bytes) : List Bytes :=
  let ps := pieces (fun b => b == 59 || b == 61) (joinWith 59 attrs ++ [59])
  let rec pairUp : List Bytes → List (Bytes × Bytes)
    | k :: v :: rest => (k, v) :: pairUp rest
    | _ => []
  ((pairUp ps).filter (fun kv => kv.1 == key)).map (·.2)

/-- GFA S-lines: the record type column is skipped -/
def parseFile (fmt : String) (S : Schema) (viaOpen : Bool) (bs0 : Bytes) (vcfShift : Int := -1)
    (sel : Option (List Nat) := none) : Except Err (Nat × List Col) :=
  let bs := if viaOpen then ensureNl (dropHeader S.comment bs0) else bs0
  if fmt = "fasta" then parseFasta S bs0
  else if S.linesPerEntry > 1 then parseKline S bs sel
  else if fmt = "sam" then parseSam S bs sel
  else if fmt = "vcf" then parseVcf S vcfShift bs
  else if S.interiorComments then parseCommented S bs
  else if fmt = "gfa" then
    parseDelimited { S with cols := [("type", "str"), ("name", "id"), ("sequence", "str")] } bs sel
      |>.map (fun r => (r.1, r.2.drop 1))
  else parseDelimited S bs sel

/-- the documented table with rows selected; an index outside the table has no documented result -/
def resPick? (sel : Option (List Nat)) (r : Nat × List Col) : Option (Nat × List Col) :=
  if selOK sel r.1 then some (resPick sel r) else none

/-- a text uses CRLF line ends when every line, except possibly the last one (which may lack its terminator or
carry a bare LF), ends in CR — and at least one does; then the CR is not part of any line -/
def crlfText (ls : List Bytes) : Bool :=
  ls.dropLast.all (fun l => l.getLast? = some 13) && ls.any (fun l => l.getLast? = some 13)

/-! ## Specification of a whole parse (what the format says) -/

/-- the formats as their documents define them (UCSC/GA4GH BED, bedGraph, ENCODE narrowPeak, chrom.sizes,
GTF2/GFF3, 4DN pairs, SAMv1 §1.4, GFA1 S-lines, VCFv4.2 §1.4), written here independently of the package.
Kinds: id/str verbatim text, int unsigned, sint optionally signed, oint int-or-missing, float, strand, ilist. -/
structure DocFmt where
  cols : List (String × String)
  comment : Nat
  interior : Bool := false

def bed3Doc : List (String × String) := [("chromosome", "id"), ("start", "int"), ("stop", "int")]
def bed6Doc := bed3Doc ++ [("name", "id"), ("score", "oint"), ("strand", "strand")]
def gtfDoc : List (String × String) := [("chromosome", "id"), ("source", "str"), ("feature_type", "id"), ("start", "int"),
  ("stop", "int"), ("score", "str"), ("strand", "strand"), ("phase", "str"), ("atributes", "str")]

def docFormats : List (String × DocFmt) := [
  ("bed3", { cols := bed3Doc, comment := 35 }),
  ("bed6", { cols := bed6Doc, comment := 35 }),
  ("bed12", { cols := bed6Doc ++ [("thick_start", "int"), ("thick_end", "int"), ("item_rgb", "str"), ("block_count", "int"),
      ("block_sizes", "ilist"), ("block_starts", "ilist")], comment := 35 }),
  ("bdg", { cols := bed3Doc ++ [("value", "float")], comment := 35 }),
  ("narrowpeak", { cols := bed6Doc ++ [("signal_value", "float"), ("p_value", "float"), ("q_value", "float"), ("summit", "sint")], comment := 35 }),
  ("sizes", { cols := [("name", "str"), ("size", "int")], comment := 35 }),
  ("gtf", { cols := gtfDoc, comment := 35 }),
  ("gff", { cols := gtfDoc, comment := 35, interior := true }),
  ("wig", { cols := bed3Doc ++ [("value", "float")], comment := 35, interior := true }),
  ("pairs", { cols := [("read_id", "str"), ("chrom1", "id"), ("pos1", "int"), ("chrom2", "id"), ("pos2", "int"),
      ("strand1", "strand"), ("strand2", "strand")], comment := 35 }),
  ("sam", { cols := [("name", "id"), ("flag", "int"), ("chromosome", "id"), ("position", "int"), ("mapq", "int"), ("cigar", "str"),
      ("next_chromosome", "str"), ("next_position", "int"), ("length", "sint"), ("sequence", "str"), ("quality", "str"),
      ("extra", "str")], comment := 64 }),
  ("gfa", { cols := [("name", "id"), ("sequence", "str")], comment := 35 }),
  ("vcf", { cols := [("chromosome", "id"), ("position", "int"), ("id", "str"), ("ref_seq", "str"), ("alt_seq", "str"),
      ("quality", "str"), ("filter", "str"), ("info", "str")], comment := 35 })]

/-- unsigned decimal, as an `Int` -/
def specNatI (t : Bytes) : Option Int :=
  match specNat t with
  | some n => some (Int.ofNat n)
  | none => none

/-- optional integer: empty and "." are missing (0) -/
def specOInt (t : Bytes) : Option Int := if t = [] ∨ t = [46] then some 0 else specInt t

/-- a whole column read by its documented kind -/
def specColumn (kind : String) (texts : List Bytes) : Option Col :=
  if kind = "int" then (omap specNatI texts).map Col.ints
  else if kind = "sint" then (omap specInt texts).map Col.ints
  else if kind = "oint" then (omap specOInt texts).map Col.ints
  else if kind = "id" then (if texts.all (fun t => t.getLast? != some 0) then some (Col.strs texts) else none)
  else if kind = "str" then some (Col.strs texts)
  else if kind = "float" then some (Col.floats texts)
  else if kind = "ilist" then (omap specIntList texts).map Col.intLists
  else if kind = "strand" then (if texts.all (fun t => t.length == 1 && t.all strandOK) then some (Col.strs texts) else none)
  else none

/-- columns `j, j+1, …` of the records, read by `kinds` -/
def specColumnsFrom (recs : List (List Bytes)) : Nat → List String → Option (List Col)
  | _, [] => some []
  | j, k :: ks =>
    match specColumn k (columnOf recs j), specColumnsFrom recs (j + 1) ks with
    | some c, some cs => some (c :: cs)
    | _, _ => none

/-- records of a delimited text: complete lines (CR stripped when every line has it), header/comment lines
removed, split on TAB -/
def specRecords (D : DocFmt) (viaOpen : Bool) (fmt : String) (bs : Bytes) : Option (List (List Bytes)) :=
  let ls := linesOf (ensureNl bs)
  let ls := if crlfText ls then ls.map stripCR else ls
  if ls.any (·.contains 13) then none else      -- a stray CR (not part of a uniform CRLF line end) is outside the formats
  let ls := if viaOpen then dropHeaderLines D.comment ls else ls
  let ls := if D.interior then dataLines D.comment ls else ls
  let recs := ls.map (splitOn 9)
  if fmt = "sam" then
    if recs.all (fun r => r.length ≥ 11) then some (recs.map (fun r => r.take 11 ++ [joinWith 9 (r.drop 11)])) else none
  else if fmt = "gfa" then
    if recs.all (fun r => r.length = 3) then some (recs.map (·.drop 1)) else none
  else if fmt = "vcf" then
    if recs.all (fun r => r.length ≥ 8) then some (recs.map (·.take 8)) else none
  else if recs.all (fun r => r.length = D.cols.length) then some recs else none

def specParse (fmt : String) (viaOpen : Bool) (bs : Bytes) : Option (Nat × List Col) :=
  match docFormats.find? (·.1 == fmt) with
  | none => none
  | some (_, D) =>
  match specRecords D viaOpen fmt bs with
  | none => none
  | some recs =>
    if recs = [] then none else
    let kinds := D.cols.map (·.2)
    match specColumnsFrom recs 0 kinds with
    | some cols => some (recs.length, if fmt = "vcf" then shiftCol 1 (-1) cols else cols)
    | none => none

/-- FASTA as the format defines it: a '>' line starts a record, following lines are its sequence -/
def specFasta (bs : Bytes) : Option (Nat × List Col) :=
  let ls := linesOf (ensureNl bs)
  let ls := if crlfText ls then ls.map stripCR else ls
  if (ls.head?.bind (·.head?)) ≠ some 62 then none else
  let es := fastaEntriesAux ls none
  some (es.length, [Col.strs (es.map (·.1)), Col.strs (es.map (·.2))])

/-- FASTA on two lines: '>' name / sequence; FASTQ: '@' name / sequence / '+' / qualities (phred+33) -/
def docKline : List (String × Nat × Nat) := [("fasta2", 2, 62), ("fastq", 4, 64)]

/-- k-line formats: line roles -/
def specKline (k marker : Nat) (bs : Bytes) : Option (Nat × List Col) :=
  let ls := linesOf (ensureNl bs)
  let ls := if crlfText ls then ls.map stripCR else ls
  if k = 0 ∨ ls.length % k ≠ 0 ∨ ls = [] then none else
  let es := chunkF k (ls.length / k) ls
  if !es.all (fun e => (e.head?.bind (·.head?)) = some marker) then none else
  if k = 4 ∧ !es.all (fun e => ((e[2]?).bind (·.head?)) = some 43) then none else
  let names := es.map (fun e => (e.head?.getD []).tail)
  let seqs := es.map (fun e => (e[1]?).getD [])
  if k = 4 then some (es.length, [Col.strs names, Col.strs seqs, Col.intLists (es.map (fun e => (((e[3]?).getD []) : Bytes).map (fun (b : Nat) => (b : Int) - 33)))])
  else some (es.length, [Col.strs names, Col.strs seqs])

end C02
