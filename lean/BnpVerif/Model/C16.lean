/-! C16 — BAM records. Two independent halves, core-only imports:

* **Spec**: a spec-level BAM *encoder* written from SAMv1 §4.2 (`encodeRec`, `encodeAll`,
  `encodeHeader`): little-endian fixed fields, `read_name\0`, CIGAR words `len<<4|op`,
  nibble-packed sequence, qualities, opaque tag bytes; and the property-level `view` of a record.
* **Model**: the decoder of `bionumpy/io/bam.py` as it is written: `_find_starts` (chain
  `block_size + 4`, `takewhile start <= len`), `from_raw_buffer` (`chunk[:starts[-1]]`,
  `starts[:-1]`), `BamBufferExtractor` fixed offsets (+4,+8,+12,+13,+16,+18,+20,+36) and derived
  offsets (name length, `4·n_cigar`, `(l_seq+1)//2`), nibble unpack + trim, `split_cigar`,
  `count_reference_length`, the strand bit, `__getitem__`/`_make_contigous` (write back), and the
  chunked reader of `io/parser.py` in prepend mode (BAM is opened through gzip).
  Definitions ending in `Old` are the rules the code shipped with (kept for the refutations). -/
namespace C16

abbrev Bytes := List Nat

/-! ### little-endian integers -/

/-- `n.to_bytes(w, "little")` -/
def toLE : Nat → Nat → Bytes
  | 0, _ => []
  | w + 1, n => (n % 256) :: toLE w (n / 256)

/-- `int.from_bytes(bs, "little")` / `bytes.view(uintN)` -/
def fromLE : Bytes → Nat
  | [] => 0
  | b :: bs => b + 256 * fromLE bs

/-- two's complement of an int32 as uint32 -/
def toU32 (i : Int) : Nat := (i % 4294967296).toNat

/-- `.view(np.int32)` of the uint32 value -/
def asI32 (n : Nat) : Int := if n < 2147483648 then (n : Int) else (n : Int) - 4294967296

/-- `d[a : a+n]` -/
def slice (d : Bytes) (a n : Nat) : Bytes := (d.drop a).take n

def byteAt (d : Bytes) (a : Nat) : Nat := (d[a]?).getD 0

/-! ### Specification: records and the encoder (SAMv1 §4.2) -/

structure Rec where
  refID : Int
  pos : Int
  mapq : Nat
  bin : Nat
  flag : Nat
  nextRef : Int
  nextPos : Int
  tlen : Int
  name : Bytes
  cigar : List (Nat × Nat)      -- (op code, length)
  seq : List Nat                -- 4-bit codes of `=ACMGRSVTWYHKDBN`
  qual : Bytes
  tags : Bytes
deriving Repr, DecidableEq

def inI32 (i : Int) : Bool := decide (-2147483648 ≤ i) && decide (i < 2147483648)

/-- two nibbles per byte, high nibble first, zero padding for odd lengths -/
def packNibbles : List Nat → Bytes
  | [] => []
  | [a] => [a * 16]
  | a :: b :: r => (a * 16 + b) :: packNibbles r

def cigarWords (c : List (Nat × Nat)) : Bytes := c.flatMap (fun p => toLE 4 (p.2 * 16 + p.1))

/-- everything after the 36 fixed bytes -/
def varPart (r : Rec) : Bytes :=
  r.name ++ ([0] ++ (cigarWords r.cigar ++ (packNibbles r.seq ++ (r.qual ++ r.tags))))

/-- block_size and the 32 fixed bytes -/
def fixedPart (r : Rec) : Bytes :=
  toLE 4 (32 + (varPart r).length) ++ (toLE 4 (toU32 r.refID) ++ (toLE 4 (toU32 r.pos) ++
  ([r.name.length + 1, r.mapq] ++ (toLE 2 r.bin ++ (toLE 2 r.cigar.length ++ (toLE 2 r.flag ++
  (toLE 4 r.seq.length ++ (toLE 4 (toU32 r.nextRef) ++ (toLE 4 (toU32 r.nextPos) ++
  toLE 4 (toU32 r.tlen))))))))))

def encodeRec (r : Rec) : Bytes := fixedPart r ++ varPart r

def encodeAll (recs : List Rec) : Bytes := recs.flatMap encodeRec

/-- `magic, l_text, text, n_ref, (l_name, name\0, l_ref)*` -/
def encodeRefs (refs : List (Bytes × Nat)) : Bytes :=
  refs.flatMap (fun p => toLE 4 (p.1.length + 1) ++ (p.1 ++ (0 :: toLE 4 p.2)))

def encodeHeader (text : Bytes) (refs : List (Bytes × Nat)) : Bytes :=
  [66, 65, 77, 1] ++ (toLE 4 text.length ++ (text ++ (toLE 4 refs.length ++ encodeRefs refs)))

/-- a header the format allows: lengths fit 32 bits, reference names contain no NUL -/
def validHeader (text : Bytes) (refs : List (Bytes × Nat)) : Bool :=
  decide (text.length < 4294967296) && decide (refs.length < 4294967296) &&
  refs.all (fun p => p.1.all (fun b => b != 0) && decide (p.2 < 4294967296))

/-- what DECODING needs of a record (`nref` references in the header): the fields that are read back as integers fit
their width, the reference index is below `nref` (any negative index means "unmapped"), CIGAR words fit 4+28 bits,
sequence codes fit a nibble, one quality per base, the block fits its 32-bit size field. Nothing is asked of the read
name, mapq, bin, mate fields, quality values or tags. -/
def valid (nref : Nat) (r : Rec) : Bool :=
  decide (r.refID < (nref : Int)) && inI32 r.refID && inI32 r.pos && decide (r.flag < 65536) &&
  decide (r.cigar.length < 65536) && r.cigar.all (fun p => decide (p.1 < 16) && decide (p.2 < 268435456)) &&
  decide (r.seq.length < 2147483648) && r.seq.all (fun c => decide (c < 16)) &&
  decide (r.qual.length = r.seq.length) && decide (32 + (varPart r).length < 4294967296)

/-- a record the BAM specification allows: `valid` plus refID ≥ -1, every stored value fits its field, the read name
has 1..254 non-NUL characters -/
def specValid (nref : Nat) (r : Rec) : Bool :=
  valid nref r && decide (-1 ≤ r.refID) && decide (r.mapq < 256) && decide (r.bin < 65536) &&
  inI32 r.nextRef && inI32 r.nextPos && inI32 r.tlen &&
  decide (1 ≤ r.name.length) && decide (r.name.length ≤ 254) && r.name.all (fun b => b != 0 && decide (b < 256)) &&
  r.cigar.all (fun p => decide (p.1 < 9)) && r.qual.all (fun q => decide (q < 256)) && r.tags.all (fun q => decide (q < 256))

/-- what decoding produces per record -/
structure DRec where
  chrom : Bytes
  name : Bytes
  flag : Nat
  pos : Int
  mapq : Nat
  cigOp : List Nat
  cigLen : List Nat
  seq : List Nat
  qual : Bytes
deriving Repr, DecidableEq

/-- "no reference", rendered as SAM does -/
def star : Bytes := [42]

/-- the reference name the specification defines: none for `refID < 0` -/
def specChrom (names : List Bytes) (ref : Int) : Option Bytes :=
  if ref < 0 then none else names[ref.toNat]?

/-- the decoded view of a record that the specification defines -/
def view (names : List Bytes) (r : Rec) : DRec :=
  { chrom := (specChrom names r.refID).getD star, name := r.name, flag := r.flag, pos := r.pos,
    mapq := r.mapq, cigOp := r.cigar.map (·.1), cigLen := r.cigar.map (·.2), seq := r.seq, qual := r.qual }

/-- reference-consuming CIGAR operations per SAMv1 §1.4: M(0) D(2) N(3) =(7) X(8) -/
def specConsumes (op : Nat) : Bool := op == 0 || op == 2 || op == 3 || op == 7 || op == 8

def specRefLen : List (Nat × Nat) → Nat
  | [] => 0
  | (op, l) :: r => (if specConsumes op then l else 0) + specRefLen r

/-- (chrom, start, stop, name, score, reverse strand?) -/
structure Interval where
  chrom : Bytes
  start : Int
  stop : Int
  name : Bytes
  score : Nat
  minus : Bool
deriving Repr, DecidableEq

def specInterval (names : List Bytes) (r : Rec) : Interval :=
  { chrom := (specChrom names r.refID).getD star, start := r.pos, stop := r.pos + (specRefLen r.cigar : Nat),
    name := r.name, score := r.mapq, minus := (r.flag / 16) % 2 == 1 }

/-! ### Model of the decoder -/

/-- `_find_starts`: `accumulate(repeat(0), start ↦ start + from_bytes(chunk[start:start+4]) + 4)`,
`takewhile(start <= len(chunk))`. Fuel-indexed; every step advances by at least 4. -/
def findStartsAux (d : Bytes) : Nat → Nat → List Nat
  | 0, _ => []
  | fuel + 1, s => if s ≤ d.length then s :: findStartsAux d fuel (s + fromLE (slice d s 4) + 4) else []

def findStarts (d : Bytes) : List Nat := findStartsAux d (d.length + 2) 0

/-- `n_cigar_op * 4`; the shipped code multiplied inside uint16 -/
def cigarBytes (old : Bool) (n : Nat) : Nat := if old then (n * 4) % 65536 else n * 4

/-- `.view(np.uint32)` on the raveled CIGAR bytes -/
def words : Bytes → List Nat
  | a :: b :: c :: d :: r => fromLE [a, b, c, d] :: words r
  | _ => []

/-- `split_cigar`: `(w & 15, w >> 4)` -/
def splitCigar (ws : List Nat) : List Nat × List Nat := (ws.map (· &&& 15), ws.map (· >>> 4))

/-- `(bytes[:, None] >> [4, 0]) & 15`, raveled -/
def unpackNibbles (bs : Bytes) : List Nat := bs.flatMap (fun b => [(b >>> 4) &&& 15, (b >>> 0) &&& 15])

/-- numpy indexing `names[i]` with a negative index counting from the end (shipped rule) -/
def chromOld (names : List Bytes) (ref : Int) : Bytes :=
  if 0 ≤ ref then (names[ref.toNat]?).getD []
  else (names[names.length - (-ref).toNat]?).getD []

/-- repaired rule: `'*'` is appended to the names and every negative refID selects it -/
def chromNew (names : List Bytes) (ref : Int) : Bytes :=
  ((names ++ [star])[if ref < 0 then names.length else ref.toNat]?).getD []

def chromOf (old : Bool) := if old then chromOld else chromNew

/-- all nine fields of the record whose bytes start at the head of `e` (`e = data[start:]`,
so offset `k` below is the code's `start + k`) -/
def decodeRel (oldCig oldChrom : Bool) (names : List Bytes) (e : Bytes) : DRec :=
  let refID := asI32 (fromLE (slice e 4 4))
  let pos := asI32 (fromLE (slice e 8 4))
  let lName := byteAt e 12
  let mapq := byteAt e 13
  let nCig := fromLE (slice e 16 2)
  let flag := fromLE (slice e 18 2)
  let lSeq := (asI32 (fromLE (slice e 20 4))).toNat
  let nameStart := 36
  let cigarStart := nameStart + lName
  let seqStart := cigarStart + cigarBytes oldCig nCig
  let qualStart := seqStart + (lSeq + 1) / 2
  let cig := splitCigar (words (slice e cigarStart (seqStart - cigarStart)))
  { chrom := chromOf oldChrom names refID
    name := slice e nameStart (cigarStart - 1 - nameStart)
    flag := flag, pos := pos, mapq := mapq
    cigOp := cig.1, cigLen := cig.2
    seq := (unpackNibbles (slice e seqStart (qualStart - seqStart))).take lSeq
    qual := slice e qualStart lSeq }

def decodeAt (oldCig oldChrom : Bool) (names : List Bytes) (d : Bytes) (s : Nat) : DRec :=
  decodeRel oldCig oldChrom names (d.drop s)

/-- `from_raw_buffer` + `get_data`: records of all complete entries and the number of bytes used -/
def decodeChunk (oldCig oldChrom : Bool) (names : List Bytes) (chunk : Bytes) : List DRec × Nat :=
  let starts := findStarts chunk
  let last := starts.getLast?.getD 0
  let data := chunk.take last
  (starts.dropLast.map (decodeAt oldCig oldChrom names data), last)

/-- `NumpyFileReader.__add_newline_to_end` (BamBuffer has no `_new_entry_marker`) -/
def addNewline (a : Bytes) : Bytes := if a.getLast? = some 10 then a else a ++ [10]

/-- `bnp.open(f).read()` on the record area of the file (after the header) -/
def readWhole (oldCig oldChrom : Bool) (names : List Bytes) (body : Bytes) : List DRec :=
  if body.isEmpty then [] else (decodeChunk oldCig oldChrom names (addNewline body)).1

/-! chunked reading, prepend mode (`set_prepend_mode`, gzip) -/

structure RState where
  rest : Bytes
  prepend : Bytes
  finished : Bool := false      -- `self._is_finished`: the previous read returned fewer than k bytes

/-- one `NumpyFileReader.read_chunk(min_chunk_size = k)`; `none` = returned `None`. Delivers the decoded
records and the chunk's own bytes (`buffer.data`, what the chunk writes back).
A read that returns nothing ends the file; if it does so exactly at a read boundary while bytes are
still pending (`_prepend`), the pending bytes are terminated the way a short final read would have been. -/
def readChunk (oldCig oldChrom : Bool) (names : List Bytes) (k : Nat) (st : RState) : Option ((List DRec × Bytes) × RState) :=
  let got := st.rest.take k
  let finished := decide (got.length < k)
  if got.length = 0 then
    if st.finished || st.prepend.isEmpty then none else
    let chunk := addNewline st.prepend
    let r := decodeChunk oldCig oldChrom names chunk
    some ((r.1, chunk.take r.2), { rest := [], prepend := [], finished := true })
  else
  let a := if finished then addNewline got else got
  let chunk := st.prepend ++ a
  let r := decodeChunk oldCig oldChrom names chunk
  some ((r.1, chunk.take r.2), { rest := st.rest.drop k, prepend := if finished then [] else chunk.drop r.2, finished := finished })

/-- `NpDataclassReader.read_chunks`: `takewhile(len, (read_chunk() for _ in repeat(None)))` -/
def readChunks (oldCig oldChrom : Bool) (names : List Bytes) (k : Nat) : Nat → RState → List (List DRec × Bytes)
  | 0, _ => []
  | fuel + 1, st =>
    match readChunk oldCig oldChrom names k st with
    | none => []
    | some (c, st') => if c.1.isEmpty then [] else c :: readChunks oldCig oldChrom names k fuel st'

def readAllChunks (oldCig oldChrom : Bool) (names : List Bytes) (k : Nat) (body : Bytes) : List (List DRec × Bytes) :=
  readChunks oldCig oldChrom names k (body.length + 1) { rest := body, prepend := [] }

/-- `NumpyFileReader.read_chunks` (used by `count_entries`): `while not finished: c = read_chunk(); if c is None: break; yield c`
— chunks without records are delivered too -/
def readChunksRaw (oldCig oldChrom : Bool) (names : List Bytes) (k : Nat) : Nat → RState → List (List DRec × Bytes)
  | 0, _ => []
  | fuel + 1, st =>
    if st.finished then [] else
    match readChunk oldCig oldChrom names k st with
    | none => []
    | some (c, st') => c :: readChunksRaw oldCig oldChrom names k fuel st'

/-- `bnp.count_entries(file)`: chunks of 500000 bytes, `sum(chunk.count_entries())` -/
def countEntries (oldCig oldChrom : Bool) (names : List Bytes) (k : Nat) (body : Bytes) : Nat :=
  ((readChunksRaw oldCig oldChrom names k (body.length + 2) { rest := body, prepend := [] }).map (·.1.length)).sum

/-! spec-level complete decoder (uses `words`/`unpackNibbles` only as list utilities) -/

/-- spec-level COMPLETE decoder of one alignment block (every stored field, tags included): the inverse of `encodeRec`,
written from SAMv1 §4.2 independently of the code's decoder. Returns the record and the bytes after the block. -/
def decodeFull (d : Bytes) : Option (Rec × Bytes) :=
  if d.length < 36 then none else
  let bs := fromLE (slice d 0 4)
  if bs < 32 || d.length < 4 + bs then none else
  let e := d.take (4 + bs)
  let lName := byteAt e 12
  let nCig := fromLE (slice e 16 2)
  let lSeq := fromLE (slice e 20 4)
  let cigStart := 36 + lName
  let seqStart := cigStart + 4 * nCig
  let qualStart := seqStart + (lSeq + 1) / 2
  let tagStart := qualStart + lSeq
  if lName = 0 || 4 + bs < tagStart then none else
  some ({ refID := asI32 (fromLE (slice e 4 4)), pos := asI32 (fromLE (slice e 8 4)), mapq := byteAt e 13,
          bin := fromLE (slice e 14 2), flag := fromLE (slice e 18 2),
          nextRef := asI32 (fromLE (slice e 24 4)), nextPos := asI32 (fromLE (slice e 28 4)), tlen := asI32 (fromLE (slice e 32 4)),
          name := slice e 36 (lName - 1),
          cigar := (words (slice e cigStart (4 * nCig))).map (fun w => (w % 16, w / 16)),
          seq := (unpackNibbles (slice e seqStart ((lSeq + 1) / 2))).take lSeq,
          qual := slice e qualStart lSeq,
          tags := slice e tagStart (4 + bs - tagStart) }, d.drop (4 + bs))

/-- parse a whole record area with the complete decoder -/
def decodeFullAll : Nat → Bytes → Option (List Rec)
  | 0, _ => none
  | fuel + 1, d => if d.isEmpty then some [] else
    match decodeFull d with
    | none => none
    | some (r, rest) => (decodeFullAll fuel rest).map (r :: ·)

/-! reference interval (`count_reference_length`, `alignment_to_interval`, `BamIntervalBuffer`) -/

/-- `np.sum(mask * lengths)` with `mask = symbol ∈ consuming`, `consumes` is the table extracted from the code -/
def refLen (consumes : List Bool) : List Nat → List Nat → Nat
  | op :: ops, l :: ls => (if (consumes[op]?).getD false then l else 0) + refLen consumes ops ls
  | _, _ => 0

def intervalOf (consumes : List Bool) (d : DRec) : Interval :=
  { chrom := d.chrom, start := d.pos, stop := d.pos + (refLen consumes d.cigOp d.cigLen : Nat),
    name := d.name, score := d.mapq, minus := (d.flag &&& 16) != 0 }

/-! write back: `BamBufferExtractor.__getitem__` + `_make_contigous` + header replay -/

/-- bytes written for the records selected by `idx` out of a chunk: the `[start, end)` slices joined -/
def selectBytes (chunk : Bytes) (idx : List Nat) : Bytes :=
  let starts := findStarts chunk
  idx.flatMap (fun i => match starts[i]?, starts[i + 1]? with
    | some a, some b => slice chunk a (b - a)
    | _, _ => [])

/-! ### header (`BamHeader.read_header`) and whole files -/

/-- `_read_zero_term`: the bytes before the first NUL and what follows it (`none`: no NUL, the code would not return) -/
def readZeroTerm : Bytes → Option (Bytes × Bytes)
  | [] => none
  | b :: r => if b = 0 then some ([], r) else (readZeroTerm r).map (fun p => (b :: p.1, p.2))

/-- `_handle_refs`: per reference `l_name` (read and ignored), the NUL-terminated name, `l_ref` -/
def parseRefs : Nat → Bytes → Option (List (Bytes × Nat) × Bytes)
  | 0, d => some ([], d)
  | n + 1, d =>
    match readZeroTerm (d.drop 4) with
    | none => none
    | some (name, r) => (parseRefs n (r.drop 4)).map (fun p => ((name, fromLE (r.take 4)) :: p.1, p.2))

/-- `read_header`: `assert magic`, `l_text`, skip the text, `n_ref`, references; returns the references and the
record area that follows -/
def parseHeader (d : Bytes) : Option (List (Bytes × Nat) × Bytes) :=
  if d.take 4 = [66, 65, 77, 1] then
    let lText := fromLE (slice d 4 4)
    let d1 := d.drop (8 + lText)
    parseRefs (fromLE (d1.take 4)) (d1.drop 4)
  else none

/-- `BamHeader.bytes()`: everything `read` consumed, replayed verbatim by `make_header` on write -/
def headerBytes (d : Bytes) : Bytes :=
  match parseHeader d with
  | some (_, body) => d.take (d.length - body.length)
  | none => []

/-- gzip/BGZF: a file is a list of members, reading yields the concatenation of their payloads (ASSUMED) -/
def gunzip (members : List Bytes) : Bytes := members.flatten

/-- `bnp.open(f).read()` on a BAM file given as BGZF members -/
def readFile (oldCig oldChrom : Bool) (members : List Bytes) : Option (List (Bytes × Nat) × List DRec) :=
  match parseHeader (gunzip members) with
  | none => none
  | some (refs, body) => some (refs, readWhole oldCig oldChrom (refs.map Prod.fst) body)

/-- `bnp.open(g, "w").write(data[idx])` + `NumpyBamWriter.__exit__`: one gzip member holding the replayed header
and the selected records, then the BGZF end-of-file block (a member with empty payload) -/
def writeFile (members : List Bytes) (idx : List Nat) : List Bytes :=
  let d := gunzip members
  match parseHeader d with
  | none => []
  | some (_, body) => [headerBytes d ++ selectBytes (addNewline body) idx, []]

/-- `bnp.open(g, "w").write(bnp.open(f).read_chunks(k))`: header once, then every chunk's own bytes -/
def writeChunks (oldCig oldChrom : Bool) (members : List Bytes) (k : Nat) : List Bytes :=
  let d := gunzip members
  match parseHeader d with
  | none => []
  | some (refs, body) =>
    [headerBytes d ++ ((readAllChunks oldCig oldChrom (refs.map Prod.fst) k body).map (·.2)).flatten, []]

/-- `bnp.open(f).read_chunks(k)` on a BAM file given as BGZF members: the header is parsed first (same file object), the
chunks come from the record area that follows it -/
def readFileChunks (oldCig oldChrom : Bool) (members : List Bytes) (k : Nat) : Option (List (Bytes × Nat) × List (List DRec × Bytes)) :=
  match parseHeader (gunzip members) with
  | none => none
  | some (refs, body) => some (refs, readAllChunks oldCig oldChrom (refs.map Prod.fst) k body)

/-- the 28-byte BGZF end-of-file block of SAMv1 §4.1.2 -/
def specEof : Bytes :=
  [31, 139, 8, 4, 0, 0, 0, 0, 0, 255, 6, 0, 66, 67, 2, 0, 27, 0, 3, 0, 0, 0, 0, 0, 0, 0, 0, 0]

/-! ### `alignment_to_interval` / `BamIntervalBuffer` on columns (ragged CIGAR arrays) -/

/-- rows of a ragged array given as flat data + row lengths -/
def raggedRows : List Nat → List Nat → List (List Nat)
  | _, [] => []
  | d, n :: ns => d.take n :: raggedRows (d.drop n) ns

/-- `mask = OR_i (symbol == consuming[i])` as 0/1 -/
def maskOf (codes : List Nat) (op : Nat) : Nat := if codes.any (· == op) then 1 else 0

/-- `mask * lengths` on the flat data -/
def rowProd (codes : List Nat) (ops lens : List Nat) : List Nat :=
  ((ops.map (maskOf codes)).zip lens).map (fun p => p.1 * p.2)

/-- `count_reference_length(symbol, lengths)`: `np.sum(mask * lengths, axis=-1)` over the ragged rows;
`codes` = the op codes of `as_encoded_array("MDN=X", CigarOpEncoding)` (extracted from the running code) -/
def countReferenceLength (codes : List Nat) (flatOps flatLens rowLens : List Nat) : List Nat :=
  (raggedRows (rowProd codes flatOps flatLens) rowLens).map List.sum

/-- `alignment_to_interval(alignment)` / `BamIntervalBuffer`: column-wise Bed6 construction from the BamEntry columns -/
def alignmentToInterval (codes : List Nat) (ds : List DRec) : List Interval :=
  let len := countReferenceLength codes (ds.map DRec.cigOp).flatten (ds.map DRec.cigLen).flatten
    (ds.map (fun d => d.cigOp.length))
  let strand := ds.map (fun d => (d.flag &&& 16) != 0)        -- np.where(flag & 16, "-", "+")
  (ds.zip (len.zip strand)).map (fun (x : DRec × Nat × Bool) =>
    { chrom := x.1.chrom, start := x.1.pos, stop := x.1.pos + (x.2.1 : Nat), name := x.1.name, score := x.1.mapq, minus := x.2.2 })

/-! ### selection programs: `BamBufferExtractor` as a state machine (`__getitem__`, `_make_contigous`, `data`) -/

/-- the extractor: the buffer, the start and end of every selected record, and whether the records lie back to back -/
structure Ext where
  data : Bytes
  starts : List Nat
  ends : List Nat
  contig : Bool

/-- `from_raw_buffer`: `BamBufferExtractor(chunk[:starts[-1]], starts[:-1], starts[1:])` -/
def Ext.ofChunk (chunk : Bytes) : Ext :=
  let s := findStarts chunk
  { data := chunk.take (s.getLast?.getD 0), starts := s.dropLast, ends := s.drop 1, contig := true }

/-- `__getitem__(item)`: same buffer, `_new_lines[item]`, `_ends[item]`, `is_contigous=False`
(`item` given as the list of selected positions: a slice, a mask and an integer array all index the two arrays alike) -/
def Ext.getitem (e : Ext) (idx : List Nat) : Ext :=
  { data := e.data, starts := idx.filterMap (e.starts[·]?), ends := idx.filterMap (e.ends[·]?), contig := false }

/-- running offsets `0, l0, l0+l1, …` (`np.insert(np.cumsum(lens), 0, 0)[:-1]`) -/
def offsets : Nat → List Nat → List Nat
  | _, [] => []
  | s, l :: ls => s :: offsets (s + l) ls

/-- `_make_contigous`: gather the records (`RaggedArray(data, RaggedView2(starts, lens)).ravel()`), new starts/ends from
the cumulative lengths; IN PLACE (later selections and reads see the compacted state) -/
def Ext.compact (e : Ext) : Ext :=
  if e.contig then e else
  let lens := (e.starts.zip e.ends).map (fun p => p.2 - p.1)
  let st := offsets 0 lens
  { data := (e.starts.zip lens).flatMap (fun p => slice e.data p.1 p.2), starts := st,
    ends := (st.zip lens).map (fun p => p.1 + p.2), contig := true }

/-- `get_data` on the extractor: every field of every selected record, offsets taken from the CURRENT starts -/
def Ext.records (names : List Bytes) (e : Ext) : List DRec := e.starts.map (decodeAt false false names e.data)

inductive PStep where
  | select (idx : List Nat)     -- t = t[item]
  | write                       -- f.write(t): `t.data` compacts t in place and its bytes are written
  | fields                      -- read all fields of t

inductive POut where
  | written (b : Bytes)
  | read (ds : List DRec)
deriving DecidableEq

def runProg (names : List Bytes) : Ext → List PStep → List POut
  | _, [] => []
  | e, .select idx :: p => runProg names (e.getitem idx) p
  | e, .write :: p => (.written e.compact.data) :: runProg names e.compact p
  | e, .fields :: p => (.read (e.records names)) :: runProg names e p

/-- what the property demands of the same program: the selection is a list of records; a write yields their encoding,
a read their views -/
def specProg (names : List Bytes) : List Rec → List PStep → List POut
  | _, [] => []
  | cur, .select idx :: p => specProg names (idx.filterMap (cur[·]?)) p
  | cur, .write :: p => (.written (encodeAll cur)) :: specProg names cur p
  | cur, .fields :: p => (.read (cur.map (view names))) :: specProg names cur p

/-- every selection refers to positions that exist -/
def progOK : Nat → List PStep → Bool
  | _, [] => true
  | n, .select idx :: p => idx.all (· < n) && progOK idx.length p
  | n, _ :: p => progOK n p

/-! several tables alive at once: selections keep their parents; writing one compacts only that one -/

inductive TStep where
  | sel (src : Nat) (idx : List Nat)   -- tables.append(tables[src][item])
  | write (i : Nat)                    -- f.write(tables[i])  (compacts tables[i] in place)
  | fields (i : Nat)                   -- read all fields of tables[i]

def runTree (names : List Bytes) : List Ext → List TStep → List POut
  | _, [] => []
  | ts, .sel src idx :: p =>
    match ts[src]? with
    | some e => runTree names (ts ++ [e.getitem idx]) p
    | none => runTree names ts p
  | ts, .write i :: p =>
    match ts[i]? with
    | some e => (.written e.compact.data) :: runTree names (ts.set i e.compact) p
    | none => runTree names ts p
  | ts, .fields i :: p =>
    match ts[i]? with
    | some e => (.read (e.records names)) :: runTree names ts p
    | none => runTree names ts p

def specTree (names : List Bytes) : List (List Rec) → List TStep → List POut
  | _, [] => []
  | cs, .sel src idx :: p =>
    match cs[src]? with
    | some c => specTree names (cs ++ [idx.filterMap (c[·]?)]) p
    | none => specTree names cs p
  | cs, .write i :: p =>
    match cs[i]? with
    | some c => (.written (encodeAll c)) :: specTree names cs p
    | none => specTree names cs p
  | cs, .fields i :: p =>
    match cs[i]? with
    | some c => (.read (c.map (view names))) :: specTree names cs p
    | none => specTree names cs p

/-- every step names an existing table and every selection positions that exist in it (`lens` = current table sizes) -/
def treeOK : List Nat → List TStep → Bool
  | _, [] => true
  | lens, .sel src idx :: p =>
    (match lens[src]? with | some n => idx.all (· < n) | none => false) && treeOK (lens ++ [idx.length]) p
  | lens, .write i :: p => decide (i < lens.length) && treeOK lens p
  | lens, .fields i :: p => decide (i < lens.length) && treeOK lens p

/-! probe used to tie the fixed offsets to the running code (see Gen/C16.lean): one record with
`l_read_name = 1`, everything else zero, `pad` zero bytes of payload; byte `o` incremented -/
def probeTemplate (pad : Nat) (o : Nat) : Bytes :=
  let base := toLE 4 (32 + pad) ++ (List.replicate 8 0 ++ ([1] ++ List.replicate (23 + pad) 0))
  base.take o ++ ([byteAt base o + 1] ++ base.drop (o + 1))

/-- observation: (refID, pos, name length, mapq, number of cigar ops, flag, sequence length, quality length) -/
def probeObs (pad : Nat) (o : Nat) : List Int :=
  let names := [[97], [98]]
  let d := decodeRel false false names (probeTemplate pad o)
  [(if d.chrom == [97] then 0 else if d.chrom == [98] then 1 else -1), d.pos, d.name.length, d.mapq,
   d.cigOp.length, d.flag, d.seq.length, d.qual.length]

/-! ### one open writer, several `write` calls (`NpBufferedWriter.write`, io/parser.py) -/

/-- the writer's state: the bytes sent to the file so far and the `_header_written` flag -/
structure Writer where
  out : Bytes
  headerWritten : Bool
deriving Repr, DecidableEq

/-- one `writer.write(data)` call: the header goes out if it has not yet, and the flag is set AT ONCE; then the call either
delivers the entries' bytes (`some bytes`; an empty table delivers `[]`) or RAISES (`none`: `get_buffer` refuses entries with
replaced values — after the header step) -/
def Writer.write (hdr : Bytes) (w : Writer) (call : Option Bytes) : Writer :=
  let w1 : Writer := if w.headerWritten then w else { out := w.out ++ hdr, headerWritten := true }
  match call with
  | some b => { w1 with out := w1.out ++ b }
  | none => w1

/-- `with bnp.open(g, "w") as f: f.write(..); f.write(..); ...` — the gzip member and the end-of-file block -/
def writerSession (hdr : Bytes) (calls : List (Option Bytes)) : List Bytes :=
  [(calls.foldl (Writer.write hdr) { out := [], headerWritten := false }).out, []]

end C16
